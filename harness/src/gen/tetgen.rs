//! Generators for gridded ("tetris") libraries: plain data-level libraries (for the protobuf round trip and orderers).

use crate::rt::Rng;
use layout21tetris as tet;
use tet::cell::Cell;
use tet::coords::{PrimPitches, Xy};
use tet::instance::Instance;
use tet::layout::Layout;
use tet::library::Library;
use tet::outline::Outline;
use tet::placement::Place;
use tet::stack::Assign;
use tet::tracks::{TrackCross, TrackRef};
use tet::utils::Ptr;

pub fn rand_outline(rng: &mut Rng) -> Outline {
    let steps = 1 + rng.usize(4);
    let mut x: Vec<isize> = (0..steps).map(|_| rng.range(1, 200) as isize).collect();
    let mut y: Vec<isize> = (0..steps).map(|_| rng.range(1, 200) as isize).collect();
    x.sort_by(|a, b| b.cmp(a)); // non-increasing
    y.sort(); // non-decreasing
    // equal neighbouring steps are legal ("non-increasing" / "non-decreasing"): force some
    if steps >= 2 && rng.chance(1, 4) {
        let k = 1 + rng.usize(steps - 1);
        if rng.bool() {
            x[k] = x[k - 1];
        } else {
            y[k] = y[k - 1];
        }
    }
    // built from the public fields, so that the generator does not depend on the constructor under test
    Outline { x: x.iter().map(|v| PrimPitches::x(*v)).collect(), y: y.iter().map(|v| PrimPitches::y(*v)).collect() }
}
pub fn rand_cross(rng: &mut Rng) -> TrackCross {
    let l = rng.usize(5);
    let l2 = if l == 0 || rng.bool() { l + 1 } else { l - 1 };
    TrackCross::new(TrackRef::new(l, rng.usize(500)), TrackRef::new(l2, rng.usize(500)))
}

pub struct GenTet {
    pub lib: Library,
    /// cell names in creation (dependency) order, and deps by index
    pub names: Vec<String>,
    pub deps: Vec<Vec<usize>>,
}

/// A placed (all-absolute) library: cell DAG in arbitrary listing order
pub fn rand_placed_lib(rng: &mut Rng, max_cells: usize, with_abstracts: bool) -> GenTet {
    let n = 1 + rng.usize(max_cells);
    let mut cells: Vec<Ptr<Cell>> = Vec::new();
    let mut names: Vec<String> = Vec::new();
    let mut deps: Vec<Vec<usize>> = Vec::new();
    // one library in five names its cells from a family of equally long names that differ in one character only
    let family = if rng.chance(1, 5) { Some(crate::rt::prng::NameFamily::random(rng)) } else { None };
    let defaulted_ptrs = rng.chance(1, 5);
    for i in 0..n {
        let mut name = match &family {
            Some(f) => f.name(i),
            None => format!("{}{}", rng.pick(&["tcell", "Unit", "blk_", "Top"]), i),
        };
        if family.is_none() && rng.chance(1, 6) {
            // a long, mostly non-ASCII name (names are spliced into the converters' error messages and map keys)
            let tl = 150 + rng.usize(200);
            let tail = String::from_utf8(crate::gen::gdsgen::long_nonascii(rng, tl)).unwrap();
            name.push('_');
            name.push_str(&tail);
        }
        // the layout view's own name may differ from the cell's
        // ... in particular it may be the name of ANOTHER cell of the library
        let lay_name = if rng.chance(1, 5) {
            format!("{}_lay", name)
        } else if !names.is_empty() && rng.chance(1, 6) {
            rng.pick(&names).clone()
        } else {
            name.clone()
        };
        // outlines: fresh, or (one time in five) exactly the previous cell's footprint with another number of metals (a wrapper the size of
        // the cell it wraps, variants of one standard footprint)
        let (metals, outline) = match (cells.last(), rng.chance(1, 5)) {
            (Some(prev), true) => {
                let pc = prev.read().unwrap();
                let po = pc.layout.as_ref().map(|l| (l.metals, l.outline.clone())).or_else(|| pc.abs.as_ref().map(|a| (a.metals, a.outline.clone())));
                match po {
                    Some((m, o)) => ((m + 1 + rng.usize(3)) % 6, o),
                    None => (rng.usize(5), rand_outline(rng)),
                }
            }
            _ => (rng.usize(5), rand_outline(rng)),
        };
        let mut lay = Layout::new(lay_name, metals, outline);
        let mut d = Vec::new();
        if i > 0 {
            for k in 0..rng.usize(5) {
                let j = rng.usize(i);
                d.push(j);
                // instance names are the user's: now and then the name of the cell that holds the instance, or of the cell it places
                let inst_name = match rng.below(10) {
                    0 => name.clone(),
                    1 => names[j].clone(),
                    _ => format!("i{}_{}", i, k),
                };
                lay.instances.add(Instance {
                    inst_name,
                    cell: cells[j].clone(),
                    loc: Place::Abs(Xy::new(PrimPitches::x(rng.range(-300, 300) as isize), PrimPitches::y(rng.range(-300, 300) as isize))),
                    reflect_horiz: rng.bool(),
                    reflect_vert: rng.bool(),
                });
            }
        }
        for k in 0..rng.usize(4) {
            lay.assignments.push(Assign::new(format!("net{}_{}", i, k), rand_cross(rng)));
        }
        for _ in 0..rng.usize(4) {
            lay.cuts.push(rand_cross(rng));
        }
        let mut cell = Cell::new(name.clone());
        // one leaf in eight is a bare cell: a name and nothing else yet (an interface-only cell, a black box); it can be placed like any other
        let bare = d.is_empty() && lay.assignments.is_empty() && lay.cuts.is_empty() && rng.chance(1, 8);
        if bare {
            names.push(name);
            deps.push(d);
            cells.push(Ptr::new(cell));
            continue;
        }
        if with_abstracts && rng.chance(1, 4) {
            cell.abs = Some(tet::abs::Abstract::new(name.clone(), lay.metals, lay.outline.clone()));
        }
        if with_abstracts && d.is_empty() && rng.chance(1, 4) {
            // an abstract-only leaf: no layout view at all
            cell.abs = Some(tet::abs::Abstract::new(name.clone(), lay.metals, lay.outline.clone()));
        } else {
            cell.layout = Some(lay);
        }
        // a variant derived from an earlier cell by clone(): the copy's layout holds the SAME instance objects (PtrList::clone copies pointers)
        if i > 0 && rng.chance(1, 8) {
            let j = rng.usize(i);
            let src = cells[j].read().unwrap().layout.clone();
            if let Some(mut l2) = src {
                l2.name = name.clone();
                cell.layout = Some(l2);
                cell.abs = None;
                d = deps[j].clone();
            }
        }
        names.push(name);
        deps.push(d);
        // how the cell gets its pointer: `Ptr::new(cell)`, or (one library in five) a defaulted pointer filled in afterwards
        if defaulted_ptrs {
            let ptr: Ptr<Cell> = Ptr::default();
            *ptr.write().unwrap() = cell;
            cells.push(ptr);
        } else {
            cells.push(Ptr::new(cell));
        }
    }
    let mut order: Vec<usize> = (0..n).collect();
    match rng.below(3) {
        0 => {}
        1 => order.reverse(),
        _ => rng.shuffle(&mut order),
    }
    let mut lib = Library::new(format!("tlib{}", rng.below(1000)));
    // now and then a cell that others instantiate is left out of the library's own list (external primitives, Ptr::new-built units)
    let instantiated: Vec<usize> = (0..n).filter(|j| deps.iter().any(|d| d.contains(j))).collect();
    let unlisted = if !instantiated.is_empty() && rng.chance(1, 4) { Some(*rng.pick(&instantiated)) } else { None };
    for i in order {
        if Some(i) != unlisted {
            lib.cells.push(cells[i].clone());
        }
    }
    GenTet { lib, names, deps }
}

/// A minimal valid stack with no metal layers (enough for the placer)
pub fn empty_stack() -> tet::validate::ValidStack {
    use tet::stack::*;
    Stack { units: tet::raw::Units::Nano, prim: PrimitiveLayer::new((100, 100).into()), metals: vec![], vias: vec![], rawlayers: None, boundary_layer: None }.validate().expect("empty stack")
}
