//! LEF library value generator (in the reader's normal form) and an INDEPENDENT renderer to LEF text with lexical freedom,
//! written from the LEF 5.8 language reference (not from lef21's writer). Enum spellings are this module's own tables.

use crate::rt::Rng;
use lef21::*;

pub type Dec = LefDecimal;

pub fn dec(m: i64, scale: u32) -> Dec {
    Dec::new(m, scale)
}

// ------------------------------------------------------------------ spelling tables (typed from the LEF reference)

macro_rules! table {
    ($name:ident : $t:ty = [$(($v:expr, $s:expr)),* $(,)?]) => {
        pub fn $name() -> Vec<($t, &'static str)> { vec![$(($v, $s)),*] }
    };
}
table!(t_onoff: LefOnOff = [(LefOnOff::On, "ON"), (LefOnOff::Off, "OFF")]);
table!(t_clearance: LefClearanceStyle = [(LefClearanceStyle::MaxXY, "MAXXY"), (LefClearanceStyle::Euclidean, "EUCLIDEAN")]);
table!(t_source: LefDefSource = [(LefDefSource::Netlist, "NETLIST"), (LefDefSource::Dist, "DIST"), (LefDefSource::Timing, "TIMING"), (LefDefSource::User, "USER")]);
table!(t_symmetry: LefSymmetry = [(LefSymmetry::X, "X"), (LefSymmetry::Y, "Y"), (LefSymmetry::R90, "R90")]);
table!(t_orient: LefOrient = [(LefOrient::N, "N"), (LefOrient::S, "S"), (LefOrient::E, "E"), (LefOrient::W, "W"), (LefOrient::FN, "FN"), (LefOrient::FS, "FS"), (LefOrient::FE, "FE"), (LefOrient::FW, "FW")]);
table!(t_pinuse: LefPinUse = [(LefPinUse::Signal, "SIGNAL"), (LefPinUse::Analog, "ANALOG"), (LefPinUse::Power, "POWER"), (LefPinUse::Ground, "GROUND"), (LefPinUse::Clock, "CLOCK")]);
table!(t_pinshape: LefPinShape = [(LefPinShape::Abutment, "ABUTMENT"), (LefPinShape::Ring, "RING"), (LefPinShape::FeedThru, "FEEDTHRU")]);
table!(t_pad: LefPadClassType = [(LefPadClassType::Input, "INPUT"), (LefPadClassType::Output, "OUTPUT"), (LefPadClassType::Inout, "INOUT"), (LefPadClassType::Power, "POWER"), (LefPadClassType::Spacer, "SPACER"), (LefPadClassType::AreaIo, "AREAIO")]);
table!(t_endcap: LefEndCapClassType = [(LefEndCapClassType::Pre, "PRE"), (LefEndCapClassType::Post, "POST"), (LefEndCapClassType::TopLeft, "TOPLEFT"), (LefEndCapClassType::TopRight, "TOPRIGHT"), (LefEndCapClassType::BottomLeft, "BOTTOMLEFT"), (LefEndCapClassType::BottomRight, "BOTTOMRIGHT")]);
table!(t_block: LefBlockClassType = [(LefBlockClassType::BlackBox, "BLACKBOX"), (LefBlockClassType::Soft, "SOFT")]);
table!(t_core: LefCoreClassType = [(LefCoreClassType::FeedThru, "FEEDTHRU"), (LefCoreClassType::TieHigh, "TIEHIGH"), (LefCoreClassType::TieLow, "TIELOW"), (LefCoreClassType::Spacer, "SPACER"), (LefCoreClassType::AntennaCell, "ANTENNACELL"), (LefCoreClassType::WellTap, "WELLTAP")]);
table!(t_portclass: LefPortClass = [(LefPortClass::None, "NONE"), (LefPortClass::Core, "CORE"), (LefPortClass::Bump, "BUMP")]);
table!(t_siteclass: LefSiteClass = [(LefSiteClass::Pad, "PAD"), (LefSiteClass::Core, "CORE")]);
table!(t_antmodel: LefAntennaModel = [(LefAntennaModel::Oxide1, "OXIDE1"), (LefAntennaModel::Oxide2, "OXIDE2"), (LefAntennaModel::Oxide3, "OXIDE3"), (LefAntennaModel::Oxide4, "OXIDE4")]);
table!(t_objtype: LefPropertyDefinitionObjectType = [(LefPropertyDefinitionObjectType::Layer, "LAYER"), (LefPropertyDefinitionObjectType::Library, "LIBRARY"), (LefPropertyDefinitionObjectType::Macro, "MACRO"),
    (LefPropertyDefinitionObjectType::NonDefaultRule, "NONDEFAULTRULE"), (LefPropertyDefinitionObjectType::Pin, "PIN"), (LefPropertyDefinitionObjectType::Via, "VIA"), (LefPropertyDefinitionObjectType::ViaRule, "VIARULE")]);
pub const ANTENNA_KEYS: [&str; 9] = ["ANTENNADIFFAREA", "ANTENNAGATEAREA", "ANTENNAPARTIALMETALAREA", "ANTENNAPARTIALMETALSIDEAREA", "ANTENNAPARTIALCUTAREA", "ANTENNAPARTIALDIFFAREA", "ANTENNAMAXAREACAR", "ANTENNAMAXSIDEAREACAR", "ANTENNAMAXCUTCAR"];

fn spell<T: PartialEq>(t: Vec<(T, &'static str)>, v: &T) -> &'static str {
    t.into_iter().find(|(x, _)| x == v).map(|(_, s)| s).expect("spelling")
}
fn pick_t<T>(rng: &mut Rng, t: Vec<(T, &'static str)>) -> T {
    let i = rng.usize(t.len());
    t.into_iter().nth(i).unwrap().0
}

// ------------------------------------------------------------------ value generator

pub struct LefCfg {
    /// allow statements the reader accepts but which are version-inconsistent (NOWIREEXTENSIONATPIN above 5.4)
    pub liberal_versions: bool,
    /// allow DATABASE MICRONS spelled with a fractional zero (value-preserving)
    pub dbu_trailing_zero: bool,
    pub max_macros: usize,
    pub max_pins: usize,
    /// string pool for property values / string literals: hostile characters for markup round-trips (C18)
    pub hostile_strings: bool,
}
impl Default for LefCfg {
    fn default() -> Self {
        LefCfg { liberal_versions: false, dbu_trailing_zero: true, max_macros: 3, max_pins: 3, hostile_strings: false }
    }
}

/// Process-wide switch for the rare very long statements (string literals of thousands of characters, polygons of hundreds of vertices,
/// extensions of hundreds of tokens). On by default; C11 turns it off for the seeds it enumerates every prefix of (quadratic cost).
static LONG_STATEMENTS: std::sync::atomic::AtomicBool = std::sync::atomic::AtomicBool::new(true);
pub fn set_long_statements(on: bool) {
    LONG_STATEMENTS.store(on, std::sync::atomic::Ordering::Relaxed);
}
fn long_ok() -> bool {
    LONG_STATEMENTS.load(std::sync::atomic::Ordering::Relaxed)
}

pub fn rand_name(rng: &mut Rng, prefix: &str) -> String {
    let n = 1 + rng.usize(8);
    let mut s = String::from(prefix);
    for _ in 0..n {
        s.push(*rng.pick(b"abcdefghijklmnopqrstuvwxyzABCDEFGHXYZ0123456789_") as char);
    }
    if rng.chance(1, 5) {
        s.push_str(*rng.pick(&["[3]", "<12>", ".x", "/y", "!", "$", "[0]", "__a"]));
    }
    // names that look almost like numbers: digits and underscores only (bus bits, grid coordinates: 7_0, 1_2), digits then letters (18T)
    if prefix.is_empty() || rng.chance(1, 25) {
        if rng.chance(1, 2) {
            return format!("{}_{}", rng.below(100), rng.below(100));
        }
    }
    s
}
pub fn rand_dec(rng: &mut Rng) -> Dec {
    if rng.chance(1, 12) {
        // more fractional digits than any customary print width: 7..18 places, and integers beyond 2^32
        return match rng.below(4) {
            3 => {
                // 17..28 significant digits, clustered around the machine-integer limits (2^63, 2^64) and spread up to the 96-bit mantissa limit
                let m: i128 = match rng.below(4) {
                    0 => i64::MAX as i128 + rng.range(-3, 3) as i128,
                    1 => u64::MAX as i128 + rng.range(-3, 3) as i128,
                    2 => (rng.u64() as i128) * (1 + rng.below(1 << 20) as i128),
                    _ => 9_000_000_000_000_000_000i128 + rng.u64() as i128 % 1_000_000_000_000_000_000,
                };
                let m = if rng.bool() { m } else { -m };
                Dec::from_i128_with_scale(m, rng.below(20) as u32)
            }
            0 => dec(rng.range(-999_999_999_999, 999_999_999_999), 7 + rng.below(6) as u32),
            1 => dec(rng.range(1, 999), 7 + rng.below(12) as u32),
            _ => dec(rng.range(-99_999_999_999_999, 99_999_999_999_999), rng.below(3) as u32),
        };
    }
    match rng.below(8) {
        0 => dec(0, 0),
        1 => dec(rng.range(-50, 50), 0),
        2 => dec(rng.range(-9999, 9999), 3),
        3 => dec(rng.range(-999_999, 999_999), 6),
        4 => dec(rng.range(1, 9), 1),      // 0.1 .. 0.9 (leading-dot spellings)
        5 => dec(-rng.range(1, 99), 2),    // -0.01 .. -0.99
        6 => dec(rng.range(0, 4000) * 5, 3),
        _ => dec(rng.range(-100_000, 100_000), rng.below(5) as u32),
    }
}
fn rand_pos_dec(rng: &mut Rng) -> Dec {
    dec(rng.range(1, 100_000), rng.below(4) as u32)
}
pub fn rand_pt(rng: &mut Rng) -> LefPoint {
    LefPoint::new(rand_dec(rng), rand_dec(rng))
}
fn rand_strlit(rng: &mut Rng, cfg: &LefCfg) -> String {
    // a LEF string literal INCLUDING its quotes (the data model keeps them); no inner double quote
    // now and then a very long one (beyond any customary line width) with runs of blanks inside
    // ... and very rarely one single literal of more than 64 KiB (a token longer than a 16-bit length can say)
    let long = rng.chance(1, 60) && long_ok();
    let n = if long { if rng.chance(1, 12) { 66_000 + rng.usize(40_000) } else { 1500 + rng.usize(4000) } } else { rng.usize(12) };
    let mut s = String::from("\"");
    for _ in 0..n {
        let c = if cfg.hostile_strings && rng.chance(1, 3) {
            *rng.pick(&[':', '#', '\\', ' ', '\'', '-', '?', '~', '{', ']', ',', '&', '*', '!', '|', '>', '%', '@', '`', 'é', '中', '\u{2028}', '\u{85}', '😀', '\t'])
        } else {
            *rng.pick(b"abcXYZ019 _-./:") as char
        };
        s.push(c);
        // a literal may run over several lines, with either line-ending convention inside the quotes
        if cfg.hostile_strings && rng.chance(1, 30) {
            s.push_str(*rng.pick(&["\n", "\r\n", "\r\n  ", "\n\n"]));
        }
        if long && rng.chance(1, 40) {
            s.push_str(*rng.pick(&["  ", "   ", " \t ", "    "]));
        }
    }
    s.push('"');
    s
}
fn rand_mask(rng: &mut Rng) -> Option<LefMask> {
    if rng.chance(1, 4) {
        // the data model holds any decimal: mostly the customary 1..3, sometimes 0, larger or fractional spellings
        Some(LefMask::new(match rng.below(8) {
            0 => dec(0, 0),
            1 => dec(rng.range(4, 999), 0),
            2 => dec(rng.range(0, 30), 1),
            _ => dec(rng.range(1, 3), 0),
        }))
    } else {
        None
    }
}
fn rand_shape(rng: &mut Rng) -> LefShape {
    match rng.below(3) {
        0 => LefShape::Rect(rand_mask(rng), rand_pt(rng), rand_pt(rng)),
        1 => {
            // mostly small; now and then hundreds of vertices (a statement of several thousand characters)
            // (a third of the long ones run to over a thousand vertices: one statement of 10..25 KB)
            let span = if rng.chance(1, 3) { 1500 } else { 300 };
            let n = if rng.chance(1, 80) && long_ok() { 150 + rng.usize(span) } else { 3 + rng.usize(5) };
            LefShape::Polygon(rand_mask(rng), (0..n).map(|_| rand_pt(rng)).collect())
        }
        _ => {
            let n = 2 + rng.usize(4);
            LefShape::Path(rand_mask(rng), (0..n).map(|_| rand_pt(rng)).collect())
        }
    }
}
fn rand_geometry(rng: &mut Rng) -> LefGeometry {
    let shape = rand_shape(rng);
    if rng.chance(1, 5) {
        LefGeometry::Iterate { shape, pattern: LefStepPattern { numx: dec(rng.range(1, 9), 0), numy: dec(rng.range(1, 9), 0), spacex: rand_dec(rng), spacey: rand_dec(rng) } }
    } else {
        LefGeometry::Shape(shape)
    }
}
pub fn rand_layer_geoms(rng: &mut Rng) -> LefLayerGeometries {
    let ng = rng.usize(4);
    let nv = if rng.chance(1, 4) { 1 + rng.usize(2) } else { 0 };
    LefLayerGeometries {
        layer_name: rand_name(rng, "m"),
        geometries: (0..ng).map(|_| rand_geometry(rng)).collect(),
        vias: (0..nv).map(|_| LefVia { via_name: rand_name(rng, "via"), pt: rand_pt(rng) }).collect(),
        except_pg_net: if rng.chance(1, 5) { Some(true) } else { None },
        spacing: match rng.below(6) {
            0 => Some(LefLayerSpacing::Spacing(rand_dec(rng))),
            1 => Some(LefLayerSpacing::DesignRuleWidth(rand_dec(rng))),
            _ => None,
        },
        width: if rng.chance(1, 4) { Some(rand_pos_dec(rng)) } else { None },
    }
}
fn rand_props(rng: &mut Rng, cfg: &LefCfg) -> Vec<LefProperty> {
    let n = if rng.chance(1, 3) { 1 + rng.usize(3) } else { 0 };
    (0..n)
        .map(|_| LefProperty {
            name: rand_name(rng, "p"),
            value: match rng.below(3) {
                0 => rand_name(rng, "v"),
                1 => {
                    let d = rand_dec(rng);
                    spell_dec(rng, &d) // number kept as source text
                }
                _ => rand_strlit(rng, cfg),
            },
        })
        .collect()
}
fn rand_pin(rng: &mut Rng, cfg: &LefCfg) -> LefPin {
    let nports = rng.usize(3);
    let nant = if rng.chance(1, 3) { 1 + rng.usize(3) } else { 0 };
    LefPin {
        name: rand_name(rng, "P"),
        ports: (0..nports)
            .map(|_| LefPort { class: if rng.chance(1, 3) { Some(pick_t(rng, t_portclass())) } else { None }, layers: (0..rng.usize(3)).map(|_| rand_layer_geoms(rng)).collect() })
            .collect(),
        direction: match rng.below(7) {
            0 => Some(LefPinDirection::Input),
            1 => Some(LefPinDirection::Output { tristate: false }),
            2 => Some(LefPinDirection::Output { tristate: true }),
            3 => Some(LefPinDirection::Inout),
            4 => Some(LefPinDirection::FeedThru),
            _ => None,
        },
        use_: if rng.bool() { Some(pick_t(rng, t_pinuse())) } else { None },
        shape: if rng.chance(1, 3) { Some(pick_t(rng, t_pinshape())) } else { None },
        antenna_model: if rng.chance(1, 4) { Some(pick_t(rng, t_antmodel())) } else { None },
        antenna_attrs: (0..nant)
            .map(|_| {
                let k = *rng.pick(&ANTENNA_KEYS);
                // the data model keeps the key as spelled in the source
                let key = match rng.below(4) {
                    0 => k.to_lowercase(),
                    1 => mixed_case(rng, k),
                    _ => k.to_string(),
                };
                LefPinAntennaAttr { key, val: rand_dec(rng), layer: if rng.bool() { Some(rand_name(rng, "m")) } else { None } }
            })
            .collect(),
        taper_rule: if rng.chance(1, 5) { Some(rand_name(rng, "tr")) } else { None },
        supply_sensitivity: if rng.chance(1, 5) { Some(rand_name(rng, "vdd")) } else { None },
        ground_sensitivity: if rng.chance(1, 5) { Some(rand_name(rng, "vss")) } else { None },
        must_join: if rng.chance(1, 5) { Some(rand_name(rng, "P")) } else { None },
        net_expr: if rng.chance(1, 5) { Some(rand_strlit(rng, cfg)) } else { None },
        properties: rand_props(rng, cfg),
    }
}
fn rand_macro_class(rng: &mut Rng) -> LefMacroClass {
    match rng.below(7) {
        0 => LefMacroClass::Cover { bump: rng.bool() },
        1 => LefMacroClass::Ring,
        2 => LefMacroClass::Block { tp: if rng.bool() { Some(pick_t(rng, t_block())) } else { None } },
        3 => LefMacroClass::Pad { tp: if rng.bool() { Some(pick_t(rng, t_pad())) } else { None } },
        4 | 5 => LefMacroClass::Core { tp: if rng.bool() { Some(pick_t(rng, t_core())) } else { None } },
        _ => LefMacroClass::EndCap { tp: pick_t(rng, t_endcap()) },
    }
}
fn rand_symm(rng: &mut Rng) -> Vec<LefSymmetry> {
    // an empty list ("SYMMETRY ;") is legal and distinct from an absent statement
    let n = if rng.chance(1, 5) { 0 } else { 1 + rng.usize(3) };
    (0..n).map(|_| pick_t(rng, t_symmetry())).collect()
}
pub fn rand_macro(rng: &mut Rng, cfg: &LefCfg, old_version: bool) -> LefMacro {
    let npins = rng.usize(cfg.max_pins + 1);
    LefMacro {
        name: rand_name(rng, "M"),
        pins: (0..npins).map(|_| rand_pin(rng, cfg)).collect(),
        obs: if rng.chance(1, 3) { (0..1 + rng.usize(2)).map(|_| rand_layer_geoms(rng)).collect() } else { vec![] },
        class: if rng.chance(2, 3) { Some(rand_macro_class(rng)) } else { None },
        foreign: if rng.chance(1, 3) {
            let pt = if rng.bool() { Some(rand_pt(rng)) } else { None };
            let orient = if pt.is_some() && rng.bool() { Some(pick_t(rng, t_orient())) } else { None };
            Some(LefForeign { cell_name: rand_name(rng, "F"), pt, orient })
        } else {
            None
        },
        origin: if rng.bool() { Some(rand_pt(rng)) } else { None },
        size: if rng.chance(2, 3) { Some((rand_pos_dec(rng), rand_pos_dec(rng))) } else { None },
        symmetry: if rng.chance(1, 3) { Some(rand_symm(rng)) } else { None },
        site: if rng.chance(1, 3) { Some(rand_name(rng, "site")) } else { None },
        source: if old_version && rng.chance(1, 3) { Some(pick_t(rng, t_source())) } else { None },
        eeq: if rng.chance(1, 6) { Some(rand_name(rng, "M")) } else { None },
        fixed_mask: rng.chance(1, 6),
        properties: rand_props(rng, cfg),
        density: if rng.chance(1, 5) {
            Some(
                (0..rng.usize(3))
                    .map(|_| LefDensityGeometries { layer_name: rand_name(rng, "m"), geometries: (0..rng.usize(3)).map(|_| LefDensityRectangle { pt1: rand_pt(rng), pt2: rand_pt(rng), density_value: rand_dec(rng) }).collect() })
                    .collect(),
            )
        } else {
            None
        },
    }
}
fn rand_viashape(rng: &mut Rng) -> LefViaShape {
    if rng.bool() {
        LefViaShape::Rect(rand_mask(rng), rand_pt(rng), rand_pt(rng))
    } else {
        let n = 3 + rng.usize(4);
        LefViaShape::Polygon(rand_mask(rng), (0..n).map(|_| rand_pt(rng)).collect())
    }
}
pub fn rand_via(rng: &mut Rng) -> LefViaDef {
    let data = if rng.bool() {
        LefViaDefData::Fixed(LefFixedViaDef {
            resistance_ohms: if rng.chance(1, 3) { Some(rand_pos_dec(rng)) } else { None },
            layers: (0..rng.usize(4)).map(|_| LefViaLayerGeometries { layer_name: rand_name(rng, "m"), shapes: (0..rng.usize(3)).map(|_| rand_viashape(rng)).collect() }).collect(),
        })
    } else {
        LefViaDefData::Generated(LefGeneratedViaDef {
            via_rule_name: rand_name(rng, "rule"),
            cut_size_x: rand_pos_dec(rng),
            cut_size_y: rand_pos_dec(rng),
            bot_metal_layer: rand_name(rng, "m"),
            cut_layer: rand_name(rng, "cut"),
            top_metal_layer: rand_name(rng, "m"),
            cut_spacing_x: rand_pos_dec(rng),
            cut_spacing_y: rand_pos_dec(rng),
            bot_enc_x: rand_dec(rng),
            bot_enc_y: rand_dec(rng),
            top_enc_x: rand_dec(rng),
            top_enc_y: rand_dec(rng),
            rowcol: if rng.bool() { Some(LefRowCol { rows: dec(rng.range(1, 9), 0), cols: dec(rng.range(1, 9), 0) }) } else { None },
            origin: if rng.bool() { Some(rand_pt(rng)) } else { None },
            offset: if rng.bool() { Some(LefOffset { bot_x: rand_dec(rng), bot_y: rand_dec(rng), top_x: rand_dec(rng), top_y: rand_dec(rng) }) } else { None },
            pattern: None,
        })
    };
    LefViaDef { name: rand_name(rng, "V"), default: rng.chance(1, 3), data, properties: None }
}
fn rand_propdef(rng: &mut Rng, cfg: &LefCfg) -> LefPropertyDefinition {
    let obj = pick_t(rng, t_objtype());
    let name = rand_name(rng, "prop");
    let range = |rng: &mut Rng| if rng.chance(1, 3) { Some(LefPropertyRange { begin: rand_dec(rng), end: rand_dec(rng) }) } else { None };
    match rng.below(3) {
        0 => LefPropertyDefinition::LefString(obj, name, if rng.bool() { Some(rand_strlit(rng, cfg)) } else { None }),
        1 => {
            let r = range(rng);
            LefPropertyDefinition::LefReal(obj, name, if rng.bool() { Some(rand_dec(rng)) } else { None }, r)
        }
        _ => {
            let r = range(rng);
            LefPropertyDefinition::LefInteger(obj, name, if rng.bool() { Some(dec(rng.range(-99, 99), 0)) } else { None }, r)
        }
    }
}

/// Tokens of an extension body, and the data string the reader is specified to keep (token texts, each followed by one space)
pub fn rand_extension(rng: &mut Rng) -> (LefExtension, Vec<String>) {
    // mostly a few words; now and then thousands (a block of 2..20 KB: longer than an 8 KiB I/O buffer)
    let span = if rng.bool() { 500 } else { 3000 };
    let n = if rng.chance(1, 30) && long_ok() { 300 + rng.usize(span) } else { rng.usize(6) };
    let mut toks = Vec::new();
    for _ in 0..n {
        toks.push(match rng.below(5) {
            0 => ";".to_string(),
            1 => format!("{}", rng.range(-50, 50)),
            2 => rng.pick(&["MACRO", "LAYER", "creator", "Tool", "date", "PIN"]).to_string(),
            3 => rng.pick(&["\"a b\"", "\"two  blanks\"", "\" lead\"", "\"tab\there\""]).to_string(),
            _ => rand_name(rng, "x"),
        });
    }
    let data: String = toks.iter().map(|t| format!("{} ", t)).collect();
    (LefExtension { name: format!("\"{}\"", rand_name(rng, "ext")), data }, toks)
}

pub struct GenLef {
    pub lib: LefLibrary,
    /// extension token lists, parallel to lib.extensions
    pub ext_tokens: Vec<Vec<String>>,
}

pub fn rand_lef(rng: &mut Rng, cfg: &LefCfg) -> GenLef {
    let minor = rng.range(3, 8);
    let has_version = rng.chance(9, 10);
    let old = has_version && minor <= 4;
    let mut lib = LefLibrary::new();
    if has_version {
        // usually MAJOR.MINOR; now and then with trailing zeros (5.80, 5.700): a number like any other, kept as written
        lib.version = Some(match rng.below(8) {
            0 => dec((50 + minor) * 10, 2),
            1 => dec((50 + minor) * 100, 3),
            _ => dec(50 + minor, 1),
        });
    }
    if old && rng.chance(1, 2) {
        lib.names_case_sensitive = Some(pick_t(rng, t_onoff()));
    }
    if (old || cfg.liberal_versions) && rng.chance(1, 3) {
        lib.no_wire_extension_at_pin = Some(pick_t(rng, t_onoff()));
    }
    if rng.chance(1, 2) {
        lib.bus_bit_chars = Some(*rng.pick(&[('[', ']'), ('<', '>'), ('(', ')'), ('{', '}'), ('[', ']'), ('<', '>'), ('\u{AB}', '\u{BB}'), ('\u{27E8}', '\u{27E9}'), ('[', '\u{BB}')]));
    }
    if rng.chance(1, 2) {
        lib.divider_char = Some(*rng.pick(&['/', '|', '.', ':', '/', '|', '\u{B7}', '\u{2192}']));
    }
    if rng.chance(1, 2) {
        let d = |rng: &mut Rng| if rng.bool() { Some(rand_pos_dec(rng)) } else { None };
        lib.units = Some(LefUnits {
            database_microns: if rng.bool() { Some(LefDbuPerMicron(*rng.pick(&[100u32, 200, 400, 800, 1000, 2000, 4000, 8000, 10_000, 20_000]))) } else { None },
            time_ns: d(rng),
            capacitance_pf: d(rng),
            resistance_ohms: d(rng),
            power_mw: d(rng),
            current_ma: d(rng),
            voltage_volts: d(rng),
            frequency_mhz: d(rng),
        });
    }
    lib.fixed_mask = rng.chance(1, 6);
    if rng.chance(1, 4) {
        lib.clearance_measure = Some(pick_t(rng, t_clearance()));
    }
    if rng.chance(1, 4) {
        lib.manufacturing_grid = Some(rand_pos_dec(rng));
    }
    if rng.chance(1, 4) {
        lib.use_min_spacing = Some(pick_t(rng, t_onoff()));
    }
    if rng.chance(1, 3) {
        lib.property_definitions = (0..1 + rng.usize(4)).map(|_| rand_propdef(rng, cfg)).collect();
    }
    let mut ext_tokens = Vec::new();
    if rng.chance(1, 4) {
        for _ in 0..1 + rng.usize(2) {
            let (e, t) = rand_extension(rng);
            lib.extensions.push(e);
            ext_tokens.push(t);
        }
    }
    lib.sites = (0..rng.usize(3))
        .map(|_| LefSite { name: rand_name(rng, "site"), class: pick_t(rng, t_siteclass()), size: (rand_pos_dec(rng), rand_pos_dec(rng)), symmetry: if rng.bool() { Some(rand_symm(rng)) } else { None }, row_pattern: None })
        .collect();
    lib.vias = (0..rng.usize(3)).map(|_| rand_via(rng)).collect();
    lib.macros = (0..rng.usize(cfg.max_macros + 1)).map(|_| rand_macro(rng, cfg, old)).collect();
    if rng.bool() {
        add_coincidences(rng, &mut lib);
    }
    GenLef { lib, ext_tokens }
}

/// Real LEF is full of coincidences that independent random draws almost never produce: FOREIGN naming the macro itself, the same
/// SITE defined twice, every pin on the same layer with the same WIDTH, Manhattan outlines (consecutive vertices sharing a coordinate),
/// doubled vertices, dot paths, explicitly closed rings, the same shape twice in a row, one name used for two kinds of object.
/// This pass rewrites a generated library so that such coincidences occur often.
fn add_coincidences(rng: &mut Rng, lib: &mut LefLibrary) {
    if !lib.sites.is_empty() && rng.chance(1, 3) {
        let s = rng.pick(&lib.sites).clone();
        lib.sites.push(s);
    }
    let pool_layer = rand_name(rng, "met");
    let pool_width = rand_pos_dec(rng);
    let site_name = lib.sites.first().map(|s| s.name.clone());
    let fix_points = |rng: &mut Rng, pts: &mut Vec<LefPoint>| {
        if pts.len() >= 2 {
            match rng.below(6) {
                0 => {
                    // Manhattan: alternate shared y / shared x between consecutive vertices
                    for k in 1..pts.len() {
                        if k % 2 == 1 {
                            pts[k].y = pts[k - 1].y;
                        } else {
                            pts[k].x = pts[k - 1].x;
                        }
                    }
                }
                1 => {
                    let k = rng.usize(pts.len());
                    let c = pts[k].clone();
                    pts.insert(k, c); // a doubled vertex
                }
                2 => {
                    let c = pts[0].clone();
                    pts.push(c); // explicitly closed ring
                }
                3 => {
                    let c = pts[0].clone();
                    *pts = vec![c.clone(), c]; // a dot
                }
                _ => {}
            }
        }
    };
    let fix_layers = |rng: &mut Rng, layers: &mut Vec<LefLayerGeometries>| {
        for l in layers.iter_mut() {
            if rng.chance(2, 3) {
                l.layer_name = pool_layer.clone();
            }
            if rng.chance(1, 2) {
                l.width = Some(pool_width);
            }
            for g in l.geometries.iter_mut() {
                let shape = match g {
                    LefGeometry::Shape(s) => s,
                    LefGeometry::Iterate { shape, .. } => shape,
                };
                match shape {
                    LefShape::Polygon(_, pts) => {
                        fix_points(rng, pts);
                        if pts.len() < 3 {
                            let c = pts[0].clone();
                            pts.push(c); // keep polygons at three points or more
                        }
                    }
                    LefShape::Path(_, pts) => fix_points(rng, pts),
                    LefShape::Rect(_, a, b) => {
                        if rng.chance(1, 8) {
                            *b = a.clone(); // zero-area rectangle
                        }
                    }
                }
            }
            if !l.geometries.is_empty() && rng.chance(1, 3) {
                let k = rng.usize(l.geometries.len());
                let c = l.geometries[k].clone();
                l.geometries.insert(k, c); // the same shape twice in a row
            }
        }
        if layers.len() >= 1 && rng.chance(1, 4) {
            let c = layers[0].clone();
            layers.push(c); // the same LAYER block again
        }
    };
    for m in lib.macros.iter_mut() {
        match rng.below(4) {
            0 => m.foreign = Some(LefForeign { cell_name: m.name.clone(), pt: None, orient: None }),
            1 => {
                if let Some(f) = m.foreign.as_mut() {
                    f.cell_name = m.name.clone();
                }
            }
            _ => {}
        }
        if let (Some(sn), true) = (&site_name, rng.chance(1, 3)) {
            m.site = Some(sn.clone());
        }
        fix_layers(rng, &mut m.obs);
        // DENSITY: neighbouring LAYER sections on the same layer (one section per window row is how fill tools write them)
        if let Some(d) = m.density.as_mut() {
            for sec in d.iter_mut() {
                if rng.chance(2, 3) {
                    sec.layer_name = pool_layer.clone();
                }
            }
            if !d.is_empty() && rng.chance(1, 2) {
                let k = rng.usize(d.len());
                let mut c = d[k].clone();
                if rng.bool() {
                    c.geometries.truncate(1);
                }
                d.insert(k, c);
            }
        }
        let mname = m.name.clone();
        for pin in m.pins.iter_mut() {
            if rng.chance(1, 8) {
                pin.name = mname.clone(); // a pin named like its macro
            }
            for port in pin.ports.iter_mut() {
                fix_layers(rng, &mut port.layers);
            }
        }
        if m.pins.len() >= 2 && rng.chance(1, 6) {
            let c = m.pins[0].clone();
            m.pins.push(c); // an identical pin statement repeated
        }
    }
}

// ------------------------------------------------------------------ renderer

#[derive(Clone)]
pub struct Style {
    pub mixed_case_keywords: bool,
    pub comments: bool,
    pub nonascii_comments: bool,
    pub wild_whitespace: bool,
    pub alt_decimals: bool,
    pub permute: bool,
    /// omit END LIBRARY when the version permits (>= 5.6)
    pub omit_end_library: bool,
    pub crlf: bool,
    /// also write a SITE ROWPATTERN statement (legal LEF that the reader documents as unsupported: it refuses the library)
    pub rowpattern: bool,
}
impl Style {
    pub fn plain() -> Self {
        Style { mixed_case_keywords: false, comments: false, nonascii_comments: false, wild_whitespace: false, alt_decimals: false, permute: false, omit_end_library: false, crlf: false, rowpattern: false }
    }
    pub fn random(rng: &mut Rng) -> Self {
        Style {
            mixed_case_keywords: rng.bool(),
            comments: rng.bool(),
            nonascii_comments: rng.chance(1, 3),
            wild_whitespace: rng.bool(),
            alt_decimals: rng.bool(),
            permute: rng.bool(),
            omit_end_library: rng.bool(),
            crlf: rng.chance(1, 8),
            rowpattern: false,
        }
    }
}

fn mixed_case(rng: &mut Rng, k: &str) -> String {
    k.chars().map(|c| if rng.bool() { c.to_ascii_lowercase() } else { c.to_ascii_uppercase() }).collect()
}

/// One of several spellings of the same decimal value
pub fn spell_dec(rng: &mut Rng, d: &Dec) -> String {
    let canon = d.normalize().to_string(); // e.g. "-0.5", "100", "1.5"
    let (neg, body) = match canon.strip_prefix('-') {
        Some(b) => (true, b.to_string()),
        None => (false, canon.clone()),
    };
    let mut s = body.clone();
    match rng.below(7) {
        0 => {
            // trailing zeros
            if !s.contains('.') {
                s.push('.');
            }
            for _ in 0..1 + rng.usize(3) {
                s.push('0');
            }
        }
        1 => {
            // leading zeros
            s = format!("{}{}", "0".repeat(1 + rng.usize(2)), s);
        }
        2 => {
            // leading dot
            if let Some(rest) = s.strip_prefix("0.") {
                s = format!(".{}", rest);
            }
        }
        3 => {
            // the decimal as generated (its own scale)
            s = d.abs().to_string();
        }
        _ => {}
    }
    if neg {
        format!("-{}", s)
    } else {
        s
    }
}

pub struct Renderer<'r> {
    pub rng: &'r mut Rng,
    pub style: Style,
    pub out: String,
    /// number of tokens emitted (for step budgets)
    pub ntokens: usize,
}
impl<'r> Renderer<'r> {
    pub fn new(rng: &'r mut Rng, style: Style) -> Self {
        Renderer { rng, style, out: String::new(), ntokens: 0 }
    }
    fn sep(&mut self) {
        // whitespace between tokens; possibly a comment
        if self.style.comments && self.rng.chance(1, 12) {
            let c = if self.style.nonascii_comments && self.rng.bool() {
                *self.rng.pick(&["# généré automatiquement ✓", "# 版图 库", "# Ünïcödé — ok", "# 😀 emoji; MACRO END", "# µm", "#µm", "#単位セル", "#😀", "#é", "#\u{a0}x"])
            } else {
                *self.rng.pick(&["# comment", "# END LIBRARY", "#", "# MACRO x ; \"quoted", "#\ttab"])
            };
            self.out.push(' ');
            self.out.push_str(c);
            self.nl();
            return;
        }
        if self.style.wild_whitespace {
            match self.rng.below(6) {
                0 => self.nl(),
                1 => self.out.push('\t'),
                2 => self.out.push_str("   "),
                3 => {
                    self.nl();
                    self.out.push_str("    ");
                }
                _ => self.out.push(' '),
            }
        } else {
            self.out.push(' ');
        }
    }
    fn nl(&mut self) {
        if self.style.crlf {
            self.out.push('\r');
        }
        self.out.push('\n');
    }
    /// raw token
    pub fn tok(&mut self, t: &str) {
        self.out.push_str(t);
        self.ntokens += 1;
        self.sep();
    }
    /// keyword, case per style
    pub fn kw(&mut self, k: &str) {
        let s = if self.style.mixed_case_keywords {
            match self.rng.below(3) {
                0 => k.to_lowercase(),
                1 => mixed_case(self.rng, k),
                _ => k.to_string(),
            }
        } else {
            k.to_string()
        };
        self.tok(&s);
    }
    fn num(&mut self, d: &Dec) {
        let s = if self.style.alt_decimals { spell_dec(self.rng, d) } else { d.to_string() };
        self.tok(&s);
    }
    fn pt(&mut self, p: &LefPoint) {
        self.num(&p.x);
        self.num(&p.y);
    }
    fn semi(&mut self) {
        self.tok(";");
    }
    fn eol(&mut self) {
        if !self.style.wild_whitespace {
            self.nl();
        }
    }
    /// Emit statements (closures) in the given or a permuted order
    fn stmts(&mut self, mut v: Vec<Box<dyn FnOnce(&mut Renderer) + '_>>) {
        if self.style.permute {
            // Fisher-Yates on the boxed closures
            for i in (1..v.len()).rev() {
                let j = self.rng.usize(i + 1);
                v.swap(i, j);
            }
        }
        for f in v {
            f(self);
        }
    }

    fn symmetry(&mut self, s: &[LefSymmetry]) {
        self.kw("SYMMETRY");
        for x in s {
            self.kw(spell(t_symmetry(), x));
        }
        self.semi();
        self.eol();
    }
    fn mask(&mut self, m: &Option<LefMask>) {
        if let Some(m) = m {
            self.kw("MASK");
            self.num(&m.mask);
        }
    }
    fn shape(&mut self, s: &LefShape, pattern: Option<&LefStepPattern>) {
        let (k, m, pts): (&str, &Option<LefMask>, Vec<LefPoint>) = match s {
            LefShape::Rect(m, a, b) => ("RECT", m, vec![a.clone(), b.clone()]),
            LefShape::Polygon(m, p) => ("POLYGON", m, p.clone()),
            LefShape::Path(m, p) => ("PATH", m, p.clone()),
        };
        self.kw(k);
        self.mask(m);
        if pattern.is_some() {
            self.kw("ITERATE");
        }
        for p in &pts {
            self.pt(p);
        }
        if let Some(p) = pattern {
            self.kw("DO");
            self.num(&p.numx);
            self.kw("BY");
            self.num(&p.numy);
            self.kw("STEP");
            self.num(&p.spacex);
            self.num(&p.spacey);
        }
        self.semi();
        self.eol();
    }
    fn layer_geoms(&mut self, l: &LefLayerGeometries) {
        self.kw("LAYER");
        self.tok(&l.layer_name);
        if l.except_pg_net == Some(true) {
            self.kw("EXCEPTPGNET");
        }
        match &l.spacing {
            Some(LefLayerSpacing::Spacing(s)) => {
                self.kw("SPACING");
                self.num(s);
            }
            Some(LefLayerSpacing::DesignRuleWidth(s)) => {
                self.kw("DESIGNRULEWIDTH");
                self.num(s);
            }
            None => {}
        }
        self.semi();
        self.eol();
        // geometries and vias keep their relative order within their kind; WIDTH anywhere; interleave randomly
        let mut gi = 0;
        let mut vi = 0;
        let mut width_done = l.width.is_none();
        loop {
            let remaining_g = l.geometries.len() - gi;
            let remaining_v = l.vias.len() - vi;
            if remaining_g == 0 && remaining_v == 0 && width_done {
                break;
            }
            let choice = if self.style.permute { self.rng.below(3) } else { 0 };
            if !width_done && (choice == 0 || (remaining_g == 0 && remaining_v == 0)) {
                self.kw("WIDTH");
                self.num(l.width.as_ref().unwrap());
                self.semi();
                self.eol();
                width_done = true;
            } else if remaining_g > 0 && (choice != 2 || remaining_v == 0) {
                match &l.geometries[gi] {
                    LefGeometry::Shape(s) => self.shape(s, None),
                    LefGeometry::Iterate { shape, pattern } => self.shape(shape, Some(pattern)),
                }
                gi += 1;
            } else if remaining_v > 0 {
                let v = &l.vias[vi];
                self.kw("VIA");
                self.pt(&v.pt);
                self.tok(&v.via_name);
                self.semi();
                self.eol();
                vi += 1;
            }
        }
    }
    fn properties(&mut self, props: &[LefProperty]) {
        // one or several name/value pairs per PROPERTY statement
        let mut i = 0;
        while i < props.len() {
            let n = 1 + self.rng.usize(props.len() - i);
            self.kw("PROPERTY");
            for p in &props[i..i + n] {
                self.tok(&p.name);
                self.tok(&p.value);
            }
            self.semi();
            self.eol();
            i += n;
        }
    }
    fn pin(&mut self, p: &LefPin) {
        self.kw("PIN");
        self.tok(&p.name);
        self.eol();
        let mut v: Vec<Box<dyn FnOnce(&mut Renderer) + '_>> = Vec::new();
        if let Some(d) = &p.direction {
            v.push(Box::new(move |r| {
                r.kw("DIRECTION");
                match d {
                    LefPinDirection::Input => r.kw("INPUT"),
                    LefPinDirection::Inout => r.kw("INOUT"),
                    LefPinDirection::FeedThru => r.kw("FEEDTHRU"),
                    LefPinDirection::Output { tristate } => {
                        r.kw("OUTPUT");
                        if *tristate {
                            r.kw("TRISTATE");
                        }
                    }
                }
                r.semi();
                r.eol();
            }));
        }
        if let Some(u) = &p.use_ {
            v.push(Box::new(move |r| {
                r.kw("USE");
                r.kw(spell(t_pinuse(), u));
                r.semi();
                r.eol();
            }));
        }
        if let Some(u) = &p.shape {
            v.push(Box::new(move |r| {
                r.kw("SHAPE");
                r.kw(spell(t_pinshape(), u));
                r.semi();
                r.eol();
            }));
        }
        if let Some(u) = &p.antenna_model {
            v.push(Box::new(move |r| {
                r.kw("ANTENNAMODEL");
                r.kw(spell(t_antmodel(), u));
                r.semi();
                r.eol();
            }));
        }
        for (k, val) in [("TAPERRULE", &p.taper_rule), ("SUPPLYSENSITIVITY", &p.supply_sensitivity), ("GROUNDSENSITIVITY", &p.ground_sensitivity), ("MUSTJOIN", &p.must_join), ("NETEXPR", &p.net_expr)] {
            if let Some(val) = val {
                v.push(Box::new(move |r| {
                    r.kw(k);
                    r.tok(val);
                    r.semi();
                    r.eol();
                }));
            }
        }
        if !p.properties.is_empty() {
            v.push(Box::new(move |r| r.properties(&p.properties)));
        }
        // antenna attributes and ports keep their own order: emit them as two ordered groups, each one statement-block
        if !p.antenna_attrs.is_empty() {
            v.push(Box::new(move |r| {
                for a in &p.antenna_attrs {
                    r.tok(&a.key);
                    r.num(&a.val);
                    if let Some(l) = &a.layer {
                        r.kw("LAYER");
                        r.tok(l);
                    }
                    r.semi();
                    r.eol();
                }
            }));
        }
        if !p.ports.is_empty() {
            v.push(Box::new(move |r| {
                for port in &p.ports {
                    r.kw("PORT");
                    r.eol();
                    // LEF syntax: PORT [CLASS c ;] {layerGeometries} END
                    if let Some(c) = &port.class {
                        r.kw("CLASS");
                        r.kw(spell(t_portclass(), c));
                        r.semi();
                        r.eol();
                    }
                    for l in port.layers.iter() {
                        r.layer_geoms(l);
                    }
                    r.kw("END");
                    r.eol();
                }
            }));
        }
        self.stmts(v);
        self.kw("END");
        self.tok(&p.name);
        self.eol();
    }
    fn macro_(&mut self, m: &LefMacro) {
        self.kw("MACRO");
        self.tok(&m.name);
        self.eol();
        let mut v: Vec<Box<dyn FnOnce(&mut Renderer) + '_>> = Vec::new();
        if let Some(c) = &m.class {
            v.push(Box::new(move |r| {
                r.kw("CLASS");
                match c {
                    LefMacroClass::Cover { bump } => {
                        r.kw("COVER");
                        if *bump {
                            r.kw("BUMP");
                        }
                    }
                    LefMacroClass::Ring => r.kw("RING"),
                    LefMacroClass::Block { tp } => {
                        r.kw("BLOCK");
                        if let Some(t) = tp {
                            r.kw(spell(t_block(), t));
                        }
                    }
                    LefMacroClass::Pad { tp } => {
                        r.kw("PAD");
                        if let Some(t) = tp {
                            r.kw(spell(t_pad(), t));
                        }
                    }
                    LefMacroClass::Core { tp } => {
                        r.kw("CORE");
                        if let Some(t) = tp {
                            r.kw(spell(t_core(), t));
                        }
                    }
                    LefMacroClass::EndCap { tp } => {
                        r.kw("ENDCAP");
                        r.kw(spell(t_endcap(), tp));
                    }
                }
                r.semi();
                r.eol();
            }));
        }
        if m.fixed_mask {
            v.push(Box::new(|r| {
                r.kw("FIXEDMASK");
                r.semi();
                r.eol();
            }));
        }
        if let Some(f) = &m.foreign {
            v.push(Box::new(move |r| {
                r.kw("FOREIGN");
                r.tok(&f.cell_name);
                if let Some(p) = &f.pt {
                    r.pt(p);
                    if let Some(o) = &f.orient {
                        r.kw(spell(t_orient(), o));
                    }
                }
                r.semi();
                r.eol();
            }));
        }
        if let Some(o) = &m.origin {
            v.push(Box::new(move |r| {
                r.kw("ORIGIN");
                r.pt(o);
                r.semi();
                r.eol();
            }));
        }
        if let Some(s) = &m.source {
            v.push(Box::new(move |r| {
                r.kw("SOURCE");
                r.kw(spell(t_source(), s));
                r.semi();
                r.eol();
            }));
        }
        if let Some(e) = &m.eeq {
            v.push(Box::new(move |r| {
                r.kw("EEQ");
                r.tok(e);
                r.semi();
                r.eol();
            }));
        }
        if let Some((w, h)) = &m.size {
            v.push(Box::new(move |r| {
                r.kw("SIZE");
                r.num(w);
                r.kw("BY");
                r.num(h);
                r.semi();
                r.eol();
            }));
        }
        if let Some(s) = &m.symmetry {
            v.push(Box::new(move |r| r.symmetry(s)));
        }
        if let Some(s) = &m.site {
            v.push(Box::new(move |r| {
                r.kw("SITE");
                r.tok(s);
                r.semi();
                r.eol();
            }));
        }
        if !m.properties.is_empty() {
            v.push(Box::new(move |r| r.properties(&m.properties)));
        }
        if let Some(d) = &m.density {
            v.push(Box::new(move |r| {
                r.kw("DENSITY");
                r.eol();
                for l in d {
                    r.kw("LAYER");
                    r.tok(&l.layer_name);
                    r.semi();
                    r.eol();
                    for g in &l.geometries {
                        r.kw("RECT");
                        r.pt(&g.pt1);
                        r.pt(&g.pt2);
                        r.num(&g.density_value);
                        r.semi();
                        r.eol();
                    }
                }
                r.kw("END");
                r.eol();
            }));
        }
        if !m.obs.is_empty() {
            v.push(Box::new(move |r| {
                r.kw("OBS");
                r.eol();
                for l in &m.obs {
                    r.layer_geoms(l);
                }
                r.kw("END");
                r.eol();
            }));
        }
        if !m.pins.is_empty() {
            v.push(Box::new(move |r| {
                for p in &m.pins {
                    r.pin(p);
                }
            }));
        }
        self.stmts(v);
        self.kw("END");
        self.tok(&m.name);
        self.eol();
    }
    fn via(&mut self, via: &LefViaDef) {
        self.kw("VIA");
        self.tok(&via.name);
        if via.default {
            self.kw("DEFAULT");
        }
        self.eol();
        match &via.data {
            LefViaDefData::Fixed(f) => {
                if let Some(r) = &f.resistance_ohms {
                    self.kw("RESISTANCE");
                    self.num(r);
                    self.semi();
                    self.eol();
                }
                for l in &f.layers {
                    self.kw("LAYER");
                    self.tok(&l.layer_name);
                    self.semi();
                    self.eol();
                    for s in &l.shapes {
                        match s {
                            LefViaShape::Rect(m, a, b) => {
                                self.kw("RECT");
                                self.mask(m);
                                self.pt(a);
                                self.pt(b);
                            }
                            LefViaShape::Polygon(m, p) => {
                                self.kw("POLYGON");
                                self.mask(m);
                                for q in p {
                                    self.pt(q);
                                }
                            }
                        }
                        self.semi();
                        self.eol();
                    }
                }
            }
            LefViaDefData::Generated(g) => {
                self.kw("VIARULE");
                self.tok(&g.via_rule_name);
                self.semi();
                self.eol();
                let mut v: Vec<Box<dyn FnOnce(&mut Renderer) + '_>> = Vec::new();
                v.push(Box::new(move |r| {
                    r.kw("CUTSIZE");
                    r.num(&g.cut_size_x);
                    r.num(&g.cut_size_y);
                    r.semi();
                    r.eol();
                }));
                v.push(Box::new(move |r| {
                    r.kw("LAYERS");
                    r.tok(&g.bot_metal_layer);
                    r.tok(&g.cut_layer);
                    r.tok(&g.top_metal_layer);
                    r.semi();
                    r.eol();
                }));
                v.push(Box::new(move |r| {
                    r.kw("CUTSPACING");
                    r.num(&g.cut_spacing_x);
                    r.num(&g.cut_spacing_y);
                    r.semi();
                    r.eol();
                }));
                v.push(Box::new(move |r| {
                    r.kw("ENCLOSURE");
                    r.num(&g.bot_enc_x);
                    r.num(&g.bot_enc_y);
                    r.num(&g.top_enc_x);
                    r.num(&g.top_enc_y);
                    r.semi();
                    r.eol();
                }));
                if let Some(rc) = &g.rowcol {
                    v.push(Box::new(move |r| {
                        r.kw("ROWCOL");
                        r.num(&rc.rows);
                        r.num(&rc.cols);
                        r.semi();
                        r.eol();
                    }));
                }
                if let Some(o) = &g.origin {
                    v.push(Box::new(move |r| {
                        r.kw("ORIGIN");
                        r.pt(o);
                        r.semi();
                        r.eol();
                    }));
                }
                if let Some(o) = &g.offset {
                    v.push(Box::new(move |r| {
                        r.kw("OFFSET");
                        r.num(&o.bot_x);
                        r.num(&o.bot_y);
                        r.num(&o.top_x);
                        r.num(&o.top_y);
                        r.semi();
                        r.eol();
                    }));
                }
                self.stmts(v);
            }
        }
        self.kw("END");
        self.tok(&via.name);
        self.eol();
    }
    fn site(&mut self, s: &LefSite) {
        self.kw("SITE");
        self.tok(&s.name);
        self.eol();
        let mut v: Vec<Box<dyn FnOnce(&mut Renderer) + '_>> = Vec::new();
        v.push(Box::new(move |r| {
            r.kw("CLASS");
            r.kw(spell(t_siteclass(), &s.class));
            r.semi();
            r.eol();
        }));
        if let Some(sy) = &s.symmetry {
            v.push(Box::new(move |r| r.symmetry(sy)));
        }
        v.push(Box::new(move |r| {
            r.kw("SIZE");
            r.num(&s.size.0);
            r.kw("BY");
            r.num(&s.size.1);
            r.semi();
            r.eol();
        }));
        if self.style.rowpattern {
            let other = s.name.clone();
            v.push(Box::new(move |r| {
                r.kw("ROWPATTERN");
                r.tok(&other);
                r.kw("N");
                r.tok(&other);
                r.kw("FS");
                r.semi();
                r.eol();
            }));
        }
        self.stmts(v);
        self.kw("END");
        self.tok(&s.name);
        self.eol();
    }
    fn units(&mut self, u: &LefUnits, dbu_zero: bool) {
        self.kw("UNITS");
        self.eol();
        let mut v: Vec<Box<dyn FnOnce(&mut Renderer) + '_>> = Vec::new();
        if let Some(d) = &u.database_microns {
            let val = d.0;
            v.push(Box::new(move |r| {
                r.kw("DATABASE");
                r.kw("MICRONS");
                if dbu_zero && r.style.alt_decimals && r.rng.chance(1, 3) {
                    // one fractional zero, or as many as printf("%f") / fixed-width writers emit (up to 12)
                    let nz = if r.rng.bool() { 1 } else { 1 + r.rng.usize(12) };
                    r.tok(&format!("{}.{}", val, "0".repeat(nz)));
                } else {
                    r.tok(&format!("{}", val));
                }
                r.semi();
                r.eol();
            }));
        }
        for (a, b, val) in [("TIME", "NANOSECONDS", &u.time_ns), ("CAPACITANCE", "PICOFARADS", &u.capacitance_pf), ("RESISTANCE", "OHMS", &u.resistance_ohms), ("POWER", "MILLIWATTS", &u.power_mw),
            ("CURRENT", "MILLIAMPS", &u.current_ma), ("VOLTAGE", "VOLTS", &u.voltage_volts), ("FREQUENCY", "MEGAHERTZ", &u.frequency_mhz)] {
            if let Some(val) = val {
                v.push(Box::new(move |r| {
                    r.kw(a);
                    r.kw(b);
                    r.num(val);
                    r.semi();
                    r.eol();
                }));
            }
        }
        self.stmts(v);
        self.kw("END");
        self.kw("UNITS");
        self.eol();
    }
    fn propdefs(&mut self, defs: &[LefPropertyDefinition]) {
        self.kw("PROPERTYDEFINITIONS");
        self.eol();
        for d in defs {
            let tail = |r: &mut Renderer, val: &Option<Dec>, range: &Option<LefPropertyRange>| {
                if let Some(rg) = range {
                    r.kw("RANGE");
                    r.num(&rg.begin);
                    r.num(&rg.end);
                }
                if let Some(v) = val {
                    r.num(v);
                }
            };
            match d {
                LefPropertyDefinition::LefString(o, n, v) => {
                    self.kw(spell(t_objtype(), o));
                    self.tok(n);
                    self.kw("STRING");
                    if let Some(v) = v {
                        self.tok(v);
                    }
                }
                LefPropertyDefinition::LefReal(o, n, v, rg) => {
                    self.kw(spell(t_objtype(), o));
                    self.tok(n);
                    self.kw("REAL");
                    tail(self, v, rg);
                }
                LefPropertyDefinition::LefInteger(o, n, v, rg) => {
                    self.kw(spell(t_objtype(), o));
                    self.tok(n);
                    self.kw("INTEGER");
                    tail(self, v, rg);
                }
            }
            self.semi();
            self.eol();
        }
        self.kw("END");
        self.kw("PROPERTYDEFINITIONS");
        self.eol();
    }

    pub fn library(&mut self, g: &GenLef, cfg: &LefCfg) {
        let lib = &g.lib;
        // leading comment / blank lines
        if self.style.comments {
            self.out.push_str(if self.style.nonascii_comments { "# bibliothèque générée — 自动生成\n" } else { "# generated library\n" });
        }
        if let Some(v) = &lib.version {
            self.kw("VERSION");
            // the version is spelled as the value has it (MAJOR.MINOR, or with the trailing zeros it was given)
            self.tok(&v.to_string());
            self.semi();
            self.eol();
        }
        let mut v: Vec<Box<dyn FnOnce(&mut Renderer) + '_>> = Vec::new();
        if let Some(x) = &lib.names_case_sensitive {
            v.push(Box::new(move |r| {
                r.kw("NAMESCASESENSITIVE");
                r.kw(spell(t_onoff(), x));
                r.semi();
                r.eol();
            }));
        }
        if let Some(x) = &lib.no_wire_extension_at_pin {
            v.push(Box::new(move |r| {
                r.kw("NOWIREEXTENSIONATPIN");
                r.kw(spell(t_onoff(), x));
                r.semi();
                r.eol();
            }));
        }
        if let Some((a, b)) = &lib.bus_bit_chars {
            v.push(Box::new(move |r| {
                r.kw("BUSBITCHARS");
                r.tok(&format!("\"{}{}\"", a, b));
                r.semi();
                r.eol();
            }));
        }
        if let Some(c) = &lib.divider_char {
            v.push(Box::new(move |r| {
                r.kw("DIVIDERCHAR");
                r.tok(&format!("\"{}\"", c));
                r.semi();
                r.eol();
            }));
        }
        if let Some(u) = &lib.units {
            let z = cfg.dbu_trailing_zero;
            v.push(Box::new(move |r| r.units(u, z)));
        }
        if let Some(x) = &lib.manufacturing_grid {
            v.push(Box::new(move |r| {
                r.kw("MANUFACTURINGGRID");
                r.num(x);
                r.semi();
                r.eol();
            }));
        }
        if let Some(x) = &lib.use_min_spacing {
            v.push(Box::new(move |r| {
                r.kw("USEMINSPACING");
                r.kw("OBS");
                r.kw(spell(t_onoff(), x));
                r.semi();
                r.eol();
            }));
        }
        if let Some(x) = &lib.clearance_measure {
            v.push(Box::new(move |r| {
                r.kw("CLEARANCEMEASURE");
                r.kw(spell(t_clearance(), x));
                r.semi();
                r.eol();
            }));
        }
        if lib.fixed_mask {
            v.push(Box::new(|r| {
                r.kw("FIXEDMASK");
                r.semi();
                r.eol();
            }));
        }
        if !lib.property_definitions.is_empty() {
            v.push(Box::new(move |r| {
                // possibly split over two PROPERTYDEFINITIONS blocks (order preserved)
                let defs = &lib.property_definitions;
                let cut = if r.style.permute && defs.len() > 1 { 1 + r.rng.usize(defs.len() - 1) } else { defs.len() };
                r.propdefs(&defs[..cut]);
                if cut < defs.len() {
                    r.propdefs(&defs[cut..]);
                }
            }));
        }
        // vias, sites, macros, extensions: relative order within each kind must be preserved; kinds may interleave
        let body = move |r: &mut Renderer| {
            let mut idx = [0usize; 4];
            let lens = [lib.vias.len(), lib.sites.len(), lib.macros.len(), lib.extensions.len()];
            loop {
                let avail: Vec<usize> = (0..4).filter(|k| idx[*k] < lens[*k]).collect();
                if avail.is_empty() {
                    break;
                }
                let k = if r.style.permute { *r.rng.pick(&avail) } else { avail[0] };
                match k {
                    0 => r.via(&lib.vias[idx[0]]),
                    1 => r.site(&lib.sites[idx[1]]),
                    2 => r.macro_(&lib.macros[idx[2]]),
                    _ => {
                        let e = &lib.extensions[idx[3]];
                        r.kw("BEGINEXT");
                        r.tok(&e.name);
                        for t in &g.ext_tokens[idx[3]] {
                            r.tok(t);
                        }
                        r.kw("ENDEXT");
                        r.eol();
                    }
                }
                idx[k] += 1;
            }
        };
        if self.style.permute {
            v.push(Box::new(body));
            self.stmts(v);
        } else {
            self.stmts(v);
            body(self);
        }
        let minor_ok = match &lib.version {
            None => true,
            Some(v) => *v >= dec(56, 1),
        };
        if !(self.style.omit_end_library && minor_ok) {
            self.kw("END");
            self.kw("LIBRARY");
        }
        self.nl();
    }
}

pub fn render(g: &GenLef, cfg: &LefCfg, rng: &mut Rng, style: Style) -> (String, usize) {
    let mut r = Renderer::new(rng, style);
    r.library(g, cfg);
    (r.out, r.ntokens)
}

// ------------------------------------------------------------------ structural diff (classification only; the verdict comes from PartialEq)

use serde_json::Value;
use std::str::FromStr;

fn leaf_eq(a: &Value, b: &Value) -> bool {
    if a == b {
        return true;
    }
    if let (Value::String(x), Value::String(y)) = (a, b) {
        if let (Ok(p), Ok(q)) = (Dec::from_str(x), Dec::from_str(y)) {
            return p == q;
        }
    }
    false
}
fn walk(a: &Value, b: &Value, class: &mut String, path: &mut String) -> bool {
    match (a, b) {
        (Value::Object(x), Value::Object(y)) => {
            let mut keys: Vec<&String> = x.keys().chain(y.keys()).collect();
            keys.sort();
            keys.dedup();
            for k in keys {
                let (u, v) = (x.get(k).unwrap_or(&Value::Null), y.get(k).unwrap_or(&Value::Null));
                let (cl, pl) = (class.len(), path.len());
                class.push('.');
                class.push_str(k);
                path.push('.');
                path.push_str(k);
                if walk(u, v, class, path) {
                    return true;
                }
                class.truncate(cl);
                path.truncate(pl);
            }
            false
        }
        (Value::Array(x), Value::Array(y)) => {
            if x.len() != y.len() {
                class.push_str(".len");
                path.push_str(&format!(".len {} vs {}", x.len(), y.len()));
                return true;
            }
            for (i, (u, v)) in x.iter().zip(y.iter()).enumerate() {
                let (cl, pl) = (class.len(), path.len());
                class.push_str("[]");
                path.push_str(&format!("[{}]", i));
                if walk(u, v, class, path) {
                    return true;
                }
                class.truncate(cl);
                path.truncate(pl);
            }
            false
        }
        _ => {
            if leaf_eq(a, b) {
                false
            } else {
                path.push_str(&format!(": {} vs {}", a.to_string().chars().take(60).collect::<String>(), b.to_string().chars().take(60).collect::<String>()));
                true
            }
        }
    }
}
/// Debug rendering of a LEF value with every decimal outside string literals brought to one spelling (trailing zeros and a
/// trailing point removed, `-0` -> `0`). The derived `Debug` prints every field of every struct, so this is a structural
/// image of the value that does not pass through the library's own `PartialEq` (or serde attributes).
pub fn canon_debug<T: std::fmt::Debug>(v: &T) -> String {
    let s = format!("{:?}", v);
    let b = s.as_bytes();
    let mut out = String::with_capacity(b.len());
    let mut i = 0;
    let mut in_str = false;
    while i < b.len() {
        let c = b[i];
        if in_str {
            if c == b'\\' && i + 1 < b.len() {
                out.push(c as char);
                // (escapes are ASCII; multi-byte characters are copied below byte-wise through the char boundary logic)
                i += 1;
                let ch_len = utf8_len(b[i]);
                out.push_str(&s[i..i + ch_len]);
                i += ch_len;
                continue;
            }
            if c == b'"' {
                in_str = false;
            }
            let ch_len = utf8_len(c);
            out.push_str(&s[i..i + ch_len]);
            i += ch_len;
            continue;
        }
        if c == b'"' {
            in_str = true;
            out.push('"');
            i += 1;
            continue;
        }
        let prev_alnum = i > 0 && (b[i - 1].is_ascii_alphanumeric() || b[i - 1] == b'_' || b[i - 1] == b'.');
        if !prev_alnum && (c.is_ascii_digit() || (c == b'-' && i + 1 < b.len() && b[i + 1].is_ascii_digit())) {
            let start = i;
            if c == b'-' {
                i += 1;
            }
            while i < b.len() && b[i].is_ascii_digit() {
                i += 1;
            }
            if i + 1 < b.len() && b[i] == b'.' && b[i + 1].is_ascii_digit() {
                i += 1;
                while i < b.len() && b[i].is_ascii_digit() {
                    i += 1;
                }
                let mut t = s[start..i].trim_end_matches('0');
                t = t.trim_end_matches('.');
                let t = if t == "-0" || t == "-" { "0" } else { t };
                out.push_str(t);
            } else {
                let t = &s[start..i];
                out.push_str(if t == "-0" { "0" } else { t });
            }
            continue;
        }
        let ch_len = utf8_len(c);
        out.push_str(&s[i..i + ch_len]);
        i += ch_len;
    }
    out
}
fn utf8_len(b: u8) -> usize {
    if b < 0x80 {
        1
    } else if b >= 0xF0 {
        4
    } else if b >= 0xE0 {
        3
    } else {
        2
    }
}
/// Equality of two LEF libraries as the checks mean it: the library's own `==` AND equal structural images.
pub fn lef_same(a: &LefLibrary, b: &LefLibrary) -> bool {
    a == b && canon_debug(a) == canon_debug(b)
}
/// First difference between two LEF libraries as (class, path); `want` first. Only for classification.
pub fn lef_diff(want: &LefLibrary, got: &LefLibrary) -> (String, String) {
    if want.fixed_mask != got.fixed_mask {
        return ("lib.fixed_mask".into(), "fixed_mask".into());
    }
    for (i, (a, b)) in want.macros.iter().zip(got.macros.iter()).enumerate() {
        if a.fixed_mask != b.fixed_mask {
            return ("macros[].fixed_mask".into(), format!("macros[{}].fixed_mask", i));
        }
    }
    let (a, b) = (serde_json::to_value(want).unwrap_or(Value::Null), serde_json::to_value(got).unwrap_or(Value::Null));
    let (mut class, mut path) = (String::from("lib"), String::from("lib"));
    if walk(&a, &b, &mut class, &mut path) {
        (class, path)
    } else {
        let (da, db) = (canon_debug(want), canon_debug(got));
        if da != db {
            let k = da.bytes().zip(db.bytes()).take_while(|(x, y)| x == y).count();
            let lo = (0..=k.saturating_sub(60)).rev().find(|j| da.is_char_boundary(*j)).unwrap_or(0);
            let hi = (k + 60).min(da.len());
            let hi = (hi..=da.len()).find(|j| da.is_char_boundary(*j)).unwrap_or(da.len());
            let field = match da[..k].rfind(": ") {
                Some(c) => da[..c].rsplit(|ch: char| !(ch.is_alphanumeric() || ch == '_')).next().unwrap_or("?").to_string(),
                None => "?".to_string(),
            };
            ("lib.debug-image.".to_string() + &field, format!("structural images differ near: {}", &da[lo..hi]))
        } else {
            ("lib.unclassified".into(), "PartialEq differs but no JSON- or Debug-visible difference".into())
        }
    }
}
/// Error class of a LefError: variant (+ parse error type)
pub fn lef_err_class(e: &LefError) -> String {
    let s = format!("{:?}", e);
    let head: String = s.split(|c: char| !c.is_alphanumeric()).next().unwrap_or("").to_string();
    if head == "Parse" {
        // Parse { msg: .., tp: X, ...
        if let Some(i) = s.find("tp: ") {
            let t: String = s[i + 4..].chars().take_while(|c| c.is_alphanumeric()).collect();
            return format!("Parse.{}", t);
        }
    }
    head
}
