//! Generator of raw-model libraries (cell DAGs, layers/purposes, shapes with and without nets, abstracts).

use crate::gen::shapes::*;
use crate::refs::geom::*;
use crate::rt::Rng;
use layout21raw as raw;
use raw::utils::Ptr;
use raw::{Abstract, AbstractPort, Cell, Element, Instance, Layer, LayerKey, LayerPurpose, Layers, Layout, Library, Path, Point, Polygon, Rect, Shape, TextElement, Units};
use std::collections::HashMap;

#[derive(Clone)]
pub struct RawCfg {
    pub units: Vec<Units>,
    pub abstracts: bool,
    pub annotations: bool,
    pub nets: bool,
    pub general_polygons: bool,
    pub paths: bool,
    pub max_cells: usize,
    pub max_elems: usize,
    /// instance angles drawn from right angles only
    pub right_angles_only: bool,
    pub inst_names: bool,
    /// layer sets as real technologies have them: distinct layers sharing a GDSII layer number, purposes carried by several
    /// numbers, and numbers re-assigned from one purpose to another (used where only determinism is judged)
    pub hostile_layers: bool,
    /// only the first of those: distinct layers sharing a GDSII layer number, every purpose with exactly one number
    pub shared_layer_numbers: bool,
    /// layout / abstract views whose own name differs from the cell's, and zero-width paths (legal, rare)
    pub odd_views: bool,
    /// leave (now and then) one instantiated cell out of `lib.cells`: it is then part of the library only through instance pointers
    pub unlisted_cells: bool,
    /// a layout view may carry a name of its own, different from its cell's (without the other `odd_views`)
    pub view_names: bool,
    /// shapes on DIFFERENT layer numbers may lie on top of each other (as metal over poly does); same-number shapes stay apart
    pub cross_layer_overlap: bool,
}
impl RawCfg {
    pub fn gds() -> Self {
        RawCfg { units: vec![Units::Micro, Units::Nano, Units::Angstrom, Units::Pico], abstracts: false, annotations: false, nets: true, general_polygons: true, paths: true, max_cells: 6, max_elems: 8, right_angles_only: true, inst_names: false, hostile_layers: false, shared_layer_numbers: false, odd_views: false, unlisted_cells: false, view_names: false, cross_layer_overlap: false }
    }
    pub fn proto() -> Self {
        RawCfg { units: vec![Units::Micro, Units::Nano, Units::Angstrom], abstracts: true, annotations: true, nets: true, general_polygons: true, paths: true, max_cells: 6, max_elems: 8, right_angles_only: true, inst_names: true, hostile_layers: false, shared_layer_numbers: false, odd_views: true, unlisted_cells: false, view_names: false, cross_layer_overlap: false }
    }
}

pub fn pt(p: P) -> Point {
    Point::new(p.0 as isize, p.1 as isize)
}

pub struct LayerDefs {
    pub layers: Layers,
    /// (key, layernum, usable shape purposes with their numbers)
    pub table: Vec<(LayerKey, i16, Vec<(LayerPurpose, i16)>)>,
    /// every (number, purpose) pair registered on each layer, in registration order: the generator's own record, independent of `Layer`'s maps
    pub registered: Vec<(LayerKey, Vec<(i16, LayerPurpose)>)>,
}
impl LayerDefs {
    /// The number a purpose is exported under: the one it was registered with last (independent of the library's own `Layer::num`)
    pub fn num_of(&self, key: LayerKey, purpose: &LayerPurpose) -> Option<i16> {
        let (_, pairs) = self.registered.iter().find(|(k, _)| *k == key)?;
        pairs.iter().rev().find(|(_, p)| same_purpose(p, purpose)).map(|(n, _)| *n)
    }
}
/// Are two purposes the same purpose? Written out here (variant, name AND number) so that the generator's own bookkeeping does not pass
/// through `LayerPurpose`'s `==`.
pub fn same_purpose(a: &LayerPurpose, b: &LayerPurpose) -> bool {
    match (a, b) {
        (LayerPurpose::Named(x, i), LayerPurpose::Named(y, j)) => x == y && i == j,
        (LayerPurpose::Other(i), LayerPurpose::Other(j)) => i == j,
        (LayerPurpose::Named(..), _) | (_, LayerPurpose::Named(..)) | (LayerPurpose::Other(_), _) | (_, LayerPurpose::Other(_)) => false,
        _ => std::mem::discriminant(a) == std::mem::discriminant(b),
    }
}

pub fn rand_layers(rng: &mut Rng) -> LayerDefs {
    rand_layers_cfg(rng, false, false)
}
pub fn rand_layers_cfg(rng: &mut Rng, hostile: bool, shared_only: bool) -> LayerDefs {
    let share = hostile || shared_only;
    let mut layers = Layers::default();
    let mut table = Vec::new();
    let mut registered = Vec::new();
    let n = if share { 2 + rng.usize(4) } else { 1 + rng.usize(4) };
    let mut nums: Vec<i16> = Vec::new();
    // one layer set in four takes layer and purpose numbers from the whole 16-bit signed range (negative ones, both ends, 255 / 256), and
    // the purposes of all its layers from one small pool, so that two layers share purpose numbers
    let wide = rng.chance(1, 4);
    const WIDE: [i16; 12] = [-1, -2, i16::MIN, i16::MAX, 255, 256, -256, 0, 1, 300, -32767, 0x7F00];
    while nums.len() < n {
        let k = if wide { *rng.pick(&WIDE) } else { rng.range(0, 200) as i16 };
        if share && !nums.is_empty() && rng.chance(2, 3) {
            let again = *rng.pick(&nums);
            // another layer on the same GDSII layer number (as met1 / via share 68 in the crate's own test set) - or, one time in three, on
            // that number plus 256 (numbers run to 32767; tables indexed by a byte would fold the two together)
            let cand = if rng.chance(1, 3) && again < 32000 { again + 256 } else { again };
            nums.push(cand);
        } else if !nums.contains(&k) {
            nums.push(k);
        }
    }
    for (i, num) in nums.iter().enumerate() {
        let name = format!("{}{}", rng.pick(&["met", "via", "poly", "li", "nwell"]), i + 1);
        // distinct purpose numbers on this layer
        let mut pn: Vec<i16> = Vec::new();
        while pn.len() < 7 {
            let k = if wide { WIDE[rng.usize(10)] } else { rng.range(0, 60) as i16 };
            if !pn.contains(&k) {
                pn.push(k);
            }
        }
        // sometimes the Label purpose is registered under the SAME number as Drawing ("31/0" for shapes and text alike)
        if rng.chance(1, 4) {
            pn[2] = pn[0];
        }
        let mut pairs = vec![
            (pn[0], LayerPurpose::Drawing),
            (pn[1], LayerPurpose::Pin),
            (pn[2], LayerPurpose::Label),
            (pn[3], LayerPurpose::Obstruction),
            (pn[4], LayerPurpose::Outline),
            (pn[5], LayerPurpose::Named(format!("purp{}", i), pn[5])),
            (pn[6], LayerPurpose::Other(pn[6])),
        ];
        // one layer in three has a SECOND named purpose of the same name under another number (a PDK's "fill" 5 and "fill" 9): two different
        // purposes - a purpose is its name and its number - which only a comparison that looks at both keeps apart
        if rng.chance(1, 3) {
            let q = if wide { *rng.pick(&[77i16, -77, 1234]) } else { 70 + rng.range(0, 20) as i16 };
            pairs.push((q, LayerPurpose::Named(format!("purp{}", i), q)));
        }
        let base = pairs.clone();
        if hostile {
            // a second number for some purposes, then numbers re-assigned to another purpose
            let mut free: Vec<i16> = (60..70).collect();
            rng.shuffle(&mut free);
            for k in 0..rng.usize(3) {
                let p = rng.pick(&[LayerPurpose::Drawing, LayerPurpose::Pin, LayerPurpose::Obstruction]).clone();
                pairs.push((free[k], p));
            }
            // the same purpose NAME registered under two more numbers (a PDK's "pin" 16 and 116)
            if rng.chance(1, 2) {
                pairs.push((free[3], LayerPurpose::Named(format!("alias{}", i), free[3])));
                pairs.push((free[4], LayerPurpose::Named(format!("alias{}", i), free[4])));
            }
            for _ in 0..rng.usize(3) {
                let from = rng.pick(&pairs).0;
                let to = rng.pick(&[LayerPurpose::Drawing, LayerPurpose::Pin, LayerPurpose::Label, LayerPurpose::Obstruction]).clone();
                pairs.push((from, to));
            }
        }
        // hostile sets: one layer in three is created by number only (as imported layers are) and then given two names in the public name
        // index (the PDK's and the LEF's): it has no name of its own
        let by_number_only = hostile && rng.chance(1, 3);
        let layer = if by_number_only { Layer::from_pairs(*num, &pairs).expect("layer pairs") } else { Layer::new(*num, name.clone()).add_pairs(&pairs).expect("layer pairs") };
        let all_pairs = pairs.clone();
        let pairs = base;
        let key = layers.add(layer);
        if by_number_only {
            layers.names.insert(name.clone(), key);
            layers.names.insert(format!("M_{}", name), key);
            layers.names.insert(format!("{}.drawing", name), key);
        }
        registered.push((key, all_pairs));
        let usable: Vec<(LayerPurpose, i16)> = pairs.iter().filter(|(_, p)| !same_purpose(p, &LayerPurpose::Label)).map(|(n, p)| (p.clone(), *n)).collect();
        table.push((key, *num, usable));
    }
    LayerDefs { layers, table, registered }
}

/// A random shape inside the box [0,800]^2 shifted by `slot`; returns the shape and what family it came from
pub fn rand_shape(rng: &mut Rng, cfg: &RawCfg, slot: P) -> (Shape, &'static str) {
    let sh = |p: P| (p.0 + slot.0, p.1 + slot.1);
    let fit = |poly: Vec<P>| -> Vec<P> {
        // translate into the slot and scale down if needed
        let (minx, miny) = (poly.iter().map(|p| p.0).min().unwrap(), poly.iter().map(|p| p.1).min().unwrap());
        poly.iter().map(|p| (p.0 - minx, p.1 - miny)).collect()
    };
    loop {
        match rng.below(7) {
            6 if cfg.general_polygons => {
                // four-vertex near-rectangles: a rectangle with one corner slid along one side (right trapezoid), from any start vertex, either direction
                let (w, h) = (rng.range(2, 800), rng.range(2, 800));
                let mut q = vec![(0, 0), (w, 0), (w, h), (0, h)];
                let k = rng.usize(4);
                if rng.bool() {
                    q[k].0 = rng.range(1, w - 1);
                } else {
                    q[k].1 = rng.range(1, h - 1);
                }
                q.rotate_left(rng.usize(4));
                if rng.bool() {
                    q.reverse();
                }
                return (Shape::Polygon(Polygon { points: q.iter().map(|p| pt(sh(*p))).collect() }), "quad");
            }
            0 | 1 => {
                let (a, b) = ((rng.range(0, 400), rng.range(0, 400)), (rng.range(401, 800), rng.range(401, 800)));
                // any pair of opposite corners
                let (p0, p1) = match rng.below(4) {
                    0 => (a, b),
                    1 => (b, a),
                    2 => ((a.0, b.1), (b.0, a.1)),
                    _ => ((b.0, a.1), (a.0, b.1)),
                };
                return (Shape::Rect(Rect { p0: pt(sh(p0)), p1: pt(sh(p1)) }), "rect");
            }
            2 => {
                let ncells = 3 + rng.usize(12);
                if let Some(b) = polyomino_outline(rng, ncells, false) {
                    let poly = fit(dress(rng, &b, 40, 0));
                    if poly.iter().all(|p| p.0 <= 800 && p.1 <= 800) {
                        return (Shape::Polygon(Polygon { points: poly.iter().map(|p| pt(sh(*p))).collect() }), "rectilinear");
                    }
                }
            }
            3 => {
                let ncells = 2 + rng.usize(8);
                if let Some(b) = polyomino_outline(rng, ncells, false) {
                    let c = chamfer45(&b);
                    if is_simple(&c) {
                        let poly = fit(dress(rng, &c, 12, 0));
                        if poly.iter().all(|p| p.0 <= 800 && p.1 <= 800) {
                            return (Shape::Polygon(Polygon { points: poly.iter().map(|p| pt(sh(*p))).collect() }), "deg45");
                        }
                    }
                }
            }
            4 if cfg.general_polygons => {
                let nv = 3 + rng.usize(8);
                if let Some(b) = star_polygon(rng, nv, 390, (400, 400)) {
                    let poly = dress(rng, &b, 1, 0);
                    if poly.iter().all(|p| p.0 >= 0 && p.1 >= 0 && p.0 <= 800 && p.1 <= 800) {
                        return (Shape::Polygon(Polygon { points: poly.iter().map(|p| pt(sh(*p))).collect() }), "general");
                    }
                }
            }
            5 if cfg.paths => {
                let npts = 2 + rng.usize(5);
                let origin = (rng.range(300, 500), rng.range(300, 500)); // odd and even centre-line coordinates alike
                let pts = manhattan_path(rng, npts, 150, origin);
                if pts.iter().all(|p| p.0 >= 50 && p.1 >= 50 && p.0 <= 750 && p.1 <= 750) {
                    // narrow widths (1, 2, 3) as often as wide ones
                    let w = if rng.bool() { rng.range(1, 3) } else { rng.range(1, 40) } as usize;
                    return (Shape::Path(Path { points: pts.iter().map(|p| pt(sh(*p))).collect(), width: w }), "path");
                }
            }
            _ => {}
        }
    }
}

/// A named pad that a wire lands on: a rectangle that has the path's FIRST point on the middle of one of its edges and extends away from
/// the path (so it contains the start point, but neither the centre of the first segment nor any other point of the path's area; its own
/// centre is outside the path). Only for paths whose first segment is longer than the pad is deep.
fn landing_pad(rng: &mut Rng, shape: &Shape) -> Option<Shape> {
    if let Shape::Path(p) = shape {
        if p.points.len() < 2 {
            return None;
        }
        let (a, b) = (&p.points[0], &p.points[1]);
        let s = (p.width / 2) as isize + 2 + rng.range(0, 3) as isize;
        let pad = if a.y == b.y && a.x != b.x {
            let back = if b.x > a.x { -1 } else { 1 };
            let (x0, x1) = (a.x + back * 2 * s, a.x);
            Rect { p0: Point::new(x0.min(x1), a.y - s), p1: Point::new(x0.max(x1), a.y + s) }
        } else if a.x == b.x && a.y != b.y {
            let back = if b.y > a.y { -1 } else { 1 };
            let (y0, y1) = (a.y + back * 2 * s, a.y);
            Rect { p0: Point::new(a.x - s, y0.min(y1)), p1: Point::new(a.x + s, y0.max(y1)) }
        } else {
            return None;
        };
        // the rest of the path must stay clear of the pad (a path that doubles back over its own start would make the labels ambiguous)
        let half = (p.width / 2) as isize + 1;
        for k in 1..p.points.len() - 1 {
            let (u, w) = (&p.points[k], &p.points[k + 1]);
            let (sx0, sx1, sy0, sy1) = (u.x.min(w.x) - half, u.x.max(w.x) + half, u.y.min(w.y) - half, u.y.max(w.y) + half);
            if sx0 <= pad.p1.x && sx1 >= pad.p0.x && sy0 <= pad.p1.y && sy1 >= pad.p0.y {
                return None;
            }
        }
        // and the first segment must be longer than the pad is deep, so that its centre lies outside the pad
        if (b.x - a.x).abs() + (b.y - a.y).abs() < 2 {
            return None;
        }
        return Some(Shape::Rect(pad));
    }
    None
}

/// See the call site: a 1- or 2-unit-thick rectangle right next to `shape` without touching it.
fn thin_neighbour(rng: &mut Rng, shape: &Shape) -> Option<Shape> {
    let t = rng.range(1, 2) as isize;
    let high = rng.bool();
    match shape {
        Shape::Path(p) if p.points.len() == 2 => {
            let (a, b) = (&p.points[0], &p.points[1]);
            let d = (p.width / 2) as isize + 1;
            if a.y == b.y && a.x != b.x {
                let (x0, x1) = (a.x.min(b.x), a.x.max(b.x));
                let (y0, y1) = if high { (a.y + d, a.y + d + t) } else { (a.y - d - t, a.y - d) };
                Some(Shape::Rect(Rect { p0: Point::new(x0, y0), p1: Point::new(x1, y1) }))
            } else if a.x == b.x && a.y != b.y {
                let (y0, y1) = (a.y.min(b.y), a.y.max(b.y));
                let (x0, x1) = if high { (a.x + d, a.x + d + t) } else { (a.x - d - t, a.x - d) };
                Some(Shape::Rect(Rect { p0: Point::new(x0, y0), p1: Point::new(x1, y1) }))
            } else {
                None
            }
        }
        Shape::Path(_) => None,
        Shape::Rect(_) | Shape::Polygon(_) => {
            let pts: Vec<&Point> = match shape {
                Shape::Rect(r) => vec![&r.p0, &r.p1],
                Shape::Polygon(p) => p.points.iter().collect(),
                _ => unreachable!(),
            };
            let (x0, x1) = (pts.iter().map(|p| p.x).min()?, pts.iter().map(|p| p.x).max()?);
            let (y0, y1) = (pts.iter().map(|p| p.y).min()?, pts.iter().map(|p| p.y).max()?);
            Some(Shape::Rect(match (rng.bool(), high) {
                (true, true) => Rect { p0: Point::new(x0, y1 + 1), p1: Point::new(x1, y1 + 1 + t) },
                (true, false) => Rect { p0: Point::new(x0, y0 - 1 - t), p1: Point::new(x1, y0 - 1) },
                (false, true) => Rect { p0: Point::new(x1 + 1, y0), p1: Point::new(x1 + 1 + t, y1) },
                (false, false) => Rect { p0: Point::new(x0 - 1 - t, y0), p1: Point::new(x0 - 1, y1) },
            }))
        }
    }
}

pub struct GenRaw {
    pub lib: Library,
    pub defs: LayerDefs,
    /// adjacency by cell index in creation order: deps[i] = indices instantiated by i
    pub deps: Vec<Vec<usize>>,
    pub names: Vec<String>,
}

pub fn rand_raw_lib(rng: &mut Rng, cfg: &RawCfg) -> GenRaw {
    let defs = rand_layers_cfg(rng, cfg.hostile_layers, cfg.shared_layer_numbers);
    let ncells = 1 + rng.usize(cfg.max_cells);
    let mut cells: Vec<Ptr<Cell>> = Vec::new();
    let mut deps = Vec::new();
    let mut names = Vec::new();
    // one library in six names its cells from a family of equally long names that differ in one character only
    let family = if rng.chance(1, 6) { Some(crate::rt::prng::NameFamily::random(rng)) } else { None };
    for i in 0..ncells {
        let name = match &family {
            Some(f) => f.name(i),
            None => format!("{}{}", rng.pick(&["cell", "Inv", "nand_", "TOP", "x"]), i),
        };
        names.push(name.clone());
        let mut cell = Cell::new(name.clone());
        let want_layout = !cfg.abstracts || rng.chance(4, 5);
        let mut d = Vec::new();
        if want_layout {
            let lay_name = if (cfg.odd_views || cfg.view_names) && rng.chance(1, 4) { format!("{}_impl", name) } else { name.clone() };
            let mut lay = Layout { name: lay_name, ..Default::default() };
            let ne = rng.usize(cfg.max_elems + 1);
            let mut slots: Vec<(i64, Vec<i16>)> = Vec::new();
            for k in 0..ne {
                let (key, _num, purps) = rng.pick(&defs.table).clone();
                // where the element goes: a slot of its own, or (cross_layer_overlap) the slot of an earlier element on another layer number
                let slot_k = {
                    let free: Vec<usize> = (0..slots.len()).filter(|s| !slots[*s].1.contains(&_num)).collect();
                    if cfg.cross_layer_overlap && !free.is_empty() && rng.chance(1, 3) {
                        let s = *rng.pick(&free);
                        slots[s].1.push(_num);
                        slots[s].0
                    } else {
                        slots.push((k as i64, vec![_num]));
                        k as i64
                    }
                };
                let (mut purpose, _) = rng.pick(&purps).clone();
                // hostile sets: now and then a shape names its purpose without knowing the layer's number for it (Named(name, 0)): that
                // purpose is not registered, and an exporter can only refuse - the same way every time
                if cfg.hostile_layers && rng.chance(1, 40) {
                    let li = defs.table.iter().position(|t| t.0 == key).unwrap_or(0);
                    purpose = LayerPurpose::Named(format!("alias{}", li), 0);
                }
                let (mut inner, _) = rand_shape(rng, cfg, (slot_k * 1000, (i as i64 % 3) * 1000));
                if cfg.odd_views && rng.chance(1, 12) {
                    // an exact axis-aligned rectangle given as a four-point polygon in the order (x0,y0) (x1,y0) (x1,y1) (x0,y1)
                    if let Shape::Rect(r) = &inner {
                        let (x0, x1, y0, y1) = (r.p0.x.min(r.p1.x), r.p0.x.max(r.p1.x), r.p0.y.min(r.p1.y), r.p0.y.max(r.p1.y));
                        inner = Shape::Polygon(Polygon { points: vec![Point::new(x0, y0), Point::new(x1, y0), Point::new(x1, y1), Point::new(x0, y1)] });
                    }
                }
                if cfg.odd_views && rng.chance(1, 6) {
                    match &mut inner {
                        Shape::Path(p) => p.width = 0,
                        // a ring written out explicitly: the last vertex repeats the first
                        Shape::Polygon(p) => {
                            let first = p.points[0].clone();
                            p.points.push(first);
                        }
                        _ => {}
                    }
                }
                // net names: identifiers, some with letters outside ASCII (I_10µA, Übertrag, Ω_ref, шина: names are text, not bytes)
                let net = if cfg.nets && rng.chance(1, 2) { Some(format!("{}{}_{}", rng.pick(&["net", "VDD", "Clk", "a", "I_10µA", "Übertrag", "Ω", "шина", "net_é", "R_10k\u{2126}", "\u{212A}elvin", "\u{212B}", "Stra\u{1E9E}e", "\u{130}st"]), i, k)) } else { None };
                // a thin named neighbour on the same layer/purpose, not touching the shape: one unit clear of a rectangle's or polygon's
                // bounding box, and the closest integer line beyond a single-segment path's edge (half a unit clear for odd widths)
                let neighbour = if cfg.nets && rng.chance(1, 3) {
                    if rng.bool() { thin_neighbour(rng, &inner) } else { landing_pad(rng, &inner).or_else(|| thin_neighbour(rng, &inner)) }
                } else {
                    None
                };
                lay.elems.push(Element { net, layer: key, purpose: purpose.clone(), inner });
                if let Some(nb) = neighbour {
                    lay.elems.push(Element { net: Some(format!("nbr{}_{}", i, k)), layer: key, purpose, inner: nb });
                }
            }
            if i > 0 {
                for k in 0..rng.usize(4) {
                    // only cells that have a layout can be instantiated (flatten / export need one)
                    let cands: Vec<usize> = (0..i).filter(|j| cells[*j].read().unwrap().layout.is_some()).collect();
                    if cands.is_empty() {
                        break;
                    }
                    let j = *rng.pick(&cands);
                    d.push(j);
                    let angle = match rng.below(6) {
                        0 => None,
                        1 => Some(0.0),
                        2 => Some(90.0),
                        3 => Some(180.0),
                        4 => Some(270.0),
                        _ => {
                            if cfg.right_angles_only {
                                // other spellings of the right angles: clockwise quarter turns, whole turns and more
                                Some(*rng.pick(&[-90.0, -180.0, -270.0, 360.0, -360.0, 450.0, 720.0]))
                            } else {
                                Some(rng.range(-359, 359) as f64)
                            }
                        }
                    };
                    // locations: anywhere, or exactly the origin, or exactly where the previous instance sits (mirrored pairs about a common
                    // origin, stacked instances)
                    let loc = match rng.below(6) {
                        0 => pt((0, 0)),
                        1 if !lay.insts.is_empty() => lay.insts[lay.insts.len() - 1].loc.clone(),
                        _ => pt((rng.range(-100_000, 100_000), rng.range(-100_000, 100_000))),
                    };
                    let reflect_vert = rng.bool();
                    lay.insts.push(Instance { inst_name: if cfg.inst_names { format!("i{}_{}", i, k) } else { String::new() }, cell: cells[j].clone(), loc: loc.clone(), reflect_vert, angle });
                    if rng.chance(1, 5) {
                        // the mirrored twin: same cell, same place, same angle, opposite reflection, listed right after
                        d.push(j);
                        lay.insts.push(Instance { inst_name: if cfg.inst_names { format!("i{}_{}m", i, k) } else { String::new() }, cell: cells[j].clone(), loc, reflect_vert: !reflect_vert, angle });
                    }
                }
            }
            if cfg.annotations {
                for k in 0..rng.usize(3) {
                    lay.annotations.push(TextElement { string: format!("note {} {}", i, k), loc: pt((rng.range(-500, 500), rng.range(-500, 500))) });
                }
            }
            cell.layout = Some(lay);
        }
        if cfg.abstracts && (!want_layout || rng.chance(1, 3)) {
            let (w, h) = (rng.range(100, 5000), rng.range(100, 5000));
            let abs_name = if cfg.odd_views && rng.chance(1, 4) { format!("{}_abs", name) } else { name.clone() };
            let mut a = Abstract::new(abs_name, Polygon { points: vec![pt((0, 0)), pt((w, 0)), pt((w, h)), pt((0, h))] });
            for pk in 0..rng.usize(4) {
                let mut port = AbstractPort::new(format!("port{}", pk));
                let nl = 1 + rng.usize(defs.table.len().min(4));
                let mut keys: Vec<LayerKey> = defs.table.iter().map(|t| t.0).collect();
                rng.shuffle(&mut keys);
                for key in keys.into_iter().take(nl) {
                    let shapes: Vec<Shape> = (0..1 + rng.usize(3)).map(|s| rand_shape(rng, cfg, (s as i64 * 1000, 0)).0).collect();
                    port.shapes.insert(key, shapes);
                }
                a.ports.push(port);
            }
            let mut blk: HashMap<LayerKey, Vec<Shape>> = HashMap::new();
            if rng.bool() {
                let nl = 1 + rng.usize(defs.table.len().min(4));
                let mut keys: Vec<LayerKey> = defs.table.iter().map(|t| t.0).collect();
                rng.shuffle(&mut keys);
                for key in keys.into_iter().take(nl) {
                    blk.insert(key, (0..1 + rng.usize(3)).map(|s| rand_shape(rng, cfg, (s as i64 * 1000, 2000)).0).collect());
                }
            }
            a.blockages = blk;
            cell.abs = Some(a);
        }
        deps.push(d);
        cells.push(Ptr::new(cell));
    }
    let mut order: Vec<usize> = (0..ncells).collect();
    match rng.below(3) {
        0 => {}
        1 => order.reverse(), // users first
        _ => rng.shuffle(&mut order),
    }
    let mut lib = Library::new(format!("lib{}", rng.below(1000)), *rng.pick(&cfg.units));
    lib.layers = Ptr::new(defs.layers.clone());
    let instantiated: Vec<usize> = (0..ncells).filter(|j| deps.iter().any(|d: &Vec<usize>| d.contains(j))).collect();
    let unlisted = if cfg.unlisted_cells && !instantiated.is_empty() && rng.chance(1, 4) { Some(*rng.pick(&instantiated)) } else { None };
    for i in order {
        if Some(i) != unlisted {
            lib.cells.push(cells[i].clone());
        }
    }
    GenRaw { lib, defs, deps, names }
}
