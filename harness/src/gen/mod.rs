pub mod gdsgen;
