pub mod gdsgen;
pub mod shapes;
