pub mod gdsgen;
pub mod lefgen;
pub mod rawgen;
pub mod shapes;
pub mod tetgen;
