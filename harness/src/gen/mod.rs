pub mod gdsgen;
pub mod lefgen;
pub mod shapes;
