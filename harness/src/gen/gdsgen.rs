//! Generators of GDSII libraries as neutral ASTs (refs::gdsstream::NLib), the deterministic optional-field
//! sweep, and the mapping between the neutral AST and gds21's public data model.

use crate::refs::gdsreal::{decode_ref, encode_ref};
use crate::refs::gdsstream::*;
use crate::rt::Rng;
use gds21::*;

// ------------------------------------------------------------------ AST <-> gds21 model

fn s2v(s: &str) -> Vec<u8> {
    s.as_bytes().to_vec()
}
fn v2s(v: &[u8]) -> Option<String> {
    String::from_utf8(v.to_vec()).ok()
}
fn pts(v: &[i32]) -> Vec<GdsPoint> {
    v.chunks(2).map(|c| GdsPoint::new(c[0], c[1])).collect()
}
fn flat(v: &[GdsPoint]) -> Vec<i32> {
    v.iter().flat_map(|p| [p.x, p.y]).collect()
}
fn dates_of(d: &[i16; 12]) -> GdsDateTimes {
    let f = |o: usize| GdsDateTime { year: d[o], month: d[o + 1], day: d[o + 2], hour: d[o + 3], minute: d[o + 4], second: d[o + 5] };
    GdsDateTimes { modified: f(0), accessed: f(6) }
}
fn dates_to(d: &GdsDateTimes) -> [i16; 12] {
    let (m, a) = (&d.modified, &d.accessed);
    [m.year, m.month, m.day, m.hour, m.minute, m.second, a.year, a.month, a.day, a.hour, a.minute, a.second]
}
fn strans_of(s: &Option<NStrans>) -> Option<GdsStrans> {
    s.as_ref().map(|s| GdsStrans {
        reflected: s.flags & 0x8000 != 0,
        abs_mag: s.flags & 0x0004 != 0,
        abs_angle: s.flags & 0x0002 != 0,
        mag: s.mag.map(decode_ref),
        angle: s.angle.map(decode_ref),
    })
}
fn strans_to(s: &Option<GdsStrans>) -> Option<Option<NStrans>> {
    match s {
        None => Some(None),
        Some(s) => {
            let mut flags = 0u16;
            if s.reflected {
                flags |= 0x8000;
            }
            if s.abs_mag {
                flags |= 0x0004;
            }
            if s.abs_angle {
                flags |= 0x0002;
            }
            let mag = match s.mag {
                Some(m) => Some(encode_ref(m)?),
                None => None,
            };
            let angle = match s.angle {
                Some(m) => Some(encode_ref(m)?),
                None => None,
            };
            Some(Some(NStrans { flags, mag, angle }))
        }
    }
}
fn props_of(p: &[(i16, Vec<u8>)]) -> Option<Vec<GdsProperty>> {
    p.iter().map(|(a, v)| Some(GdsProperty { attr: *a, value: v2s(v)? })).collect()
}
fn props_to(p: &[GdsProperty]) -> Vec<(i16, Vec<u8>)> {
    p.iter().map(|p| (p.attr, s2v(&p.value))).collect()
}

/// The gds21 value a conforming reader must produce for this AST. None if the AST is outside gds21's data model
/// (non-UTF-8 strings, wrong point counts for SREF/AREF/TEXT/BOX, odd XY) or uses library-level options.
pub fn ast_to_lib(l: &NLib) -> Option<GdsLibrary> {
    if !l.opts.is_empty() {
        return None;
    }
    let mut lib = GdsLibrary::new(v2s(&l.name)?);
    lib.version = l.version;
    lib.dates = dates_of(&l.dates);
    lib.units = GdsUnits(decode_ref(l.units.0), decode_ref(l.units.1));
    for s in &l.structs {
        let mut st = GdsStruct::new(v2s(&s.name)?);
        st.dates = dates_of(&s.dates);
        for e in &s.elems {
            let elflags = e.elflags.map(|f| GdsElemFlags(f[0], f[1]));
            let plex = e.plex.map(GdsPlex);
            let properties = props_of(&e.props)?;
            let ge: GdsElement = match &e.kind {
                NKind::Boundary { layer, datatype, xy } => {
                    if xy.len() % 2 != 0 {
                        return None;
                    }
                    GdsBoundary { layer: *layer, datatype: *datatype, xy: pts(xy), elflags, plex, properties }.into()
                }
                NKind::Path { layer, datatype, pathtype, width, bgnextn, endextn, xy } => {
                    if xy.len() % 2 != 0 {
                        return None;
                    }
                    GdsPath { layer: *layer, datatype: *datatype, xy: pts(xy), width: *width, path_type: *pathtype, begin_extn: *bgnextn, end_extn: *endextn, elflags, plex, properties }.into()
                }
                NKind::Sref { sname, strans, xy } => {
                    if xy.len() != 2 {
                        return None;
                    }
                    GdsStructRef { name: v2s(sname)?, xy: GdsPoint::new(xy[0], xy[1]), strans: strans_of(strans), elflags, plex, properties }.into()
                }
                NKind::Aref { sname, strans, cols, rows, xy } => {
                    if xy.len() != 6 {
                        return None;
                    }
                    let p = pts(xy);
                    GdsArrayRef { name: v2s(sname)?, xy: [p[0].clone(), p[1].clone(), p[2].clone()], cols: *cols, rows: *rows, strans: strans_of(strans), elflags, plex, properties }.into()
                }
                NKind::Text { layer, texttype, presentation, pathtype, width, strans, xy, string } => {
                    if xy.len() != 2 {
                        return None;
                    }
                    GdsTextElem { string: v2s(string)?, layer: *layer, texttype: *texttype, xy: GdsPoint::new(xy[0], xy[1]), presentation: presentation.map(|p| GdsPresentation(p[0], p[1])),
                        path_type: *pathtype, width: *width, strans: strans_of(strans), elflags, plex, properties }.into()
                }
                NKind::Node { layer, nodetype, xy } => {
                    if xy.len() % 2 != 0 {
                        return None;
                    }
                    GdsNode { layer: *layer, nodetype: *nodetype, xy: pts(xy), elflags, plex, properties }.into()
                }
                NKind::Box { layer, boxtype, xy } => {
                    if xy.len() != 10 {
                        return None;
                    }
                    let p = pts(xy);
                    GdsBox { layer: *layer, boxtype: *boxtype, xy: [p[0].clone(), p[1].clone(), p[2].clone(), p[3].clone(), p[4].clone()], elflags, plex, properties }.into()
                }
            };
            st.elems.push(ge);
        }
        lib.structs.push(st);
    }
    Some(lib)
}

/// The AST a conforming writer must put on the wire for this library. None if a real is not encodable.
pub fn lib_to_ast(lib: &GdsLibrary) -> Option<NLib> {
    let mut l = NLib { version: lib.version, dates: dates_to(&lib.dates), name: s2v(&lib.name), units: (encode_ref(lib.units.0)?, encode_ref(lib.units.1)?), opts: vec![], structs: vec![] };
    for st in &lib.structs {
        let mut s = NStruct { dates: dates_to(&st.dates), name: s2v(&st.name), elems: vec![] };
        for e in &st.elems {
            let (elflags, plex, props, kind) = match e {
                GdsElement::GdsBoundary(b) => (&b.elflags, &b.plex, &b.properties, NKind::Boundary { layer: b.layer, datatype: b.datatype, xy: flat(&b.xy) }),
                GdsElement::GdsPath(b) => (&b.elflags, &b.plex, &b.properties, NKind::Path { layer: b.layer, datatype: b.datatype, pathtype: b.path_type, width: b.width, bgnextn: b.begin_extn, endextn: b.end_extn, xy: flat(&b.xy) }),
                GdsElement::GdsStructRef(b) => (&b.elflags, &b.plex, &b.properties, NKind::Sref { sname: s2v(&b.name), strans: strans_to(&b.strans)?, xy: vec![b.xy.x, b.xy.y] }),
                GdsElement::GdsArrayRef(b) => (&b.elflags, &b.plex, &b.properties, NKind::Aref { sname: s2v(&b.name), strans: strans_to(&b.strans)?, cols: b.cols, rows: b.rows, xy: flat(&b.xy) }),
                GdsElement::GdsTextElem(b) => (&b.elflags, &b.plex, &b.properties, NKind::Text { layer: b.layer, texttype: b.texttype, presentation: b.presentation.as_ref().map(|p| [p.0, p.1]), pathtype: b.path_type, width: b.width, strans: strans_to(&b.strans)?, xy: vec![b.xy.x, b.xy.y], string: s2v(&b.string) }),
                GdsElement::GdsNode(b) => (&b.elflags, &b.plex, &b.properties, NKind::Node { layer: b.layer, nodetype: b.nodetype, xy: flat(&b.xy) }),
                GdsElement::GdsBox(b) => (&b.elflags, &b.plex, &b.properties, NKind::Box { layer: b.layer, boxtype: b.boxtype, xy: flat(&b.xy) }),
            };
            s.elems.push(NElem { elflags: elflags.as_ref().map(|f| [f.0, f.1]), plex: plex.as_ref().map(|p| p.0), kind, props: props_to(props) });
        }
        l.structs.push(s);
    }
    Some(l)
}

// ------------------------------------------------------------------ value generators

#[derive(Clone, Copy, PartialEq)]
pub enum StrClass {
    /// printable ASCII
    Ascii,
    /// ASCII + 2..4-byte UTF-8 + interior NUL
    Mixed,
}

const UNI: &[&str] = &["é", "ß", "Ω", "д", "中", "語", "€", "\u{2028}", "😀", "𝔘", "\u{FEFF}", "ñ"];

/// A logical GDS string: never ends in NUL at even length (GDSII cannot represent that: NUL is the pad byte); at odd length it may
pub fn rand_string(rng: &mut Rng, maxlen: usize, class: StrClass) -> Vec<u8> {
    let target = match rng.below(10) {
        0 => 0,
        1 => 1,
        2 => 2,
        3 => 3,
        _ => rng.usize(maxlen + 1),
    };
    let mut v: Vec<u8> = Vec::new();
    while v.len() < target {
        let r = rng.below(100);
        if class == StrClass::Mixed && r < 12 {
            let u = rng.pick(UNI).as_bytes();
            if v.len() + u.len() <= target {
                v.extend_from_slice(u);
                continue;
            }
        }
        // NUL inside a string, or as its LAST character when that leaves the length odd: "ab\0" is stored as 61 62 00 + one pad byte and
        // comes back whole (only at even length is a final NUL indistinguishable from the pad)
        if class == StrClass::Mixed && r < 15 && (v.len() + 1 < target || target % 2 == 1) {
            v.push(0);
            continue;
        }
        v.push(32 + rng.below(95) as u8);
    }
    if v.len() % 2 == 0 && v.last() == Some(&0) {
        *v.last_mut().unwrap() = b'_';
    }
    v
}
pub fn rand_name(rng: &mut Rng) -> Vec<u8> {
    let n = 1 + rng.usize(12);
    let mut v = Vec::new();
    for i in 0..n {
        let c = if i == 0 { b'a' + rng.below(26) as u8 } else { *rng.pick(b"abcdefghijklmnopqrstuvwxyzABCDEFGHIJKLMNOPQRSTUVWXYZ0123456789_$?") };
        v.push(c);
    }
    v
}
pub fn rand_coord(rng: &mut Rng) -> i32 {
    match rng.below(12) {
        0 => i32::MIN,
        1 => i32::MAX,
        2 => 0,
        3 => -1,
        4 => rng.range(-1000, 1000) as i32,
        5 => rng.range(-70000, 70000) as i32,
        _ => rng.u32() as i32,
    }
}
pub fn rand_i16(rng: &mut Rng) -> i16 {
    match rng.below(8) {
        0 => i16::MIN,
        1 => i16::MAX,
        2 => 0,
        3 => -1,
        4 => rng.range(0, 255) as i16,
        _ => rng.u32() as i16,
    }
}
/// A random in-range double (whole GDSII range), as its exact normalised 8-byte encoding
pub fn rand_real53(rng: &mut Rng) -> u64 {
    let x = match rng.below(10) {
        0 => *rng.pick(&[1.0, 2.0, 0.5, 90.0, 180.0, 270.0, 1e-3, 1e-9, 1e-6, 45.0, 0.1, 15.999999999999998, 255.99999999999997]),
        1 => rng.range(-360, 360) as f64,
        2 => 0.0,
        3 => {
            // the two ends of the range: the lowest hexade [16^-65, 16^-64) and the highest [16^62, 16^63)
            let p = if rng.bool() { rng.range(-260, -257) } else { rng.range(248, 251) };
            let frac = match rng.below(3) { 0 => 0, 1 => (1u64 << 52) - 1, _ => rng.u64() & ((1u64 << 52) - 1) };
            f64::from_bits((rng.below(2) << 63) | (((p + 1023) as u64) << 52) | frac)
        }
        _ => {
            let p = rng.range(-260, 251);
            let frac = rng.u64() & ((1u64 << 52) - 1);
            f64::from_bits((rng.below(2) << 63) | (((p + 1023) as u64) << 52) | frac)
        }
    };
    encode_ref(x).unwrap()
}
/// Any normalised 8-byte real, possibly with more than 53 significant bits (foreign writers)
pub fn rand_real56(rng: &mut Rng) -> u64 {
    if rng.chance(1, 2) {
        return rand_real53(rng);
    }
    let mut m = rng.u64() & 0x00FF_FFFF_FFFF_FFFF;
    // one in four: a mantissa whose rounding to 53 bits carries (runs of ones down to the last few bits: the value just below a power of
    // two, which rounds UP to it), or which sits exactly on / next to a rounding tie
    if rng.chance(1, 4) {
        let lead = rng.below(4); // leading zero bits of the first hex digit: 0..3 (the 53-bit window moves with them)
        let ones = 0x00FF_FFFF_FFFF_FFFFu64 >> lead;
        m = match rng.below(4) {
            0 => ones,
            1 => ones & !rng.below(8),
            2 => ones & !(rng.below(16) << rng.below(8)),
            _ => (m >> lead) | (1 << (55 - lead)) | rng.below(16),
        };
    }
    if (m >> 52) & 0xF == 0 {
        m |= (1 + rng.below(15)) << 52;
    }
    (rng.below(2) << 63) | (rng.below(128) << 56) | m
}
pub fn rand_dates(rng: &mut Rng) -> [i16; 12] {
    let mut d = [0i16; 12];
    match rng.below(3) {
        0 => {
            // plausible
            for o in [0, 6] {
                d[o] = rng.range(70, 130) as i16;
                d[o + 1] = rng.range(1, 12) as i16;
                d[o + 2] = rng.range(1, 28) as i16;
                d[o + 3] = rng.range(0, 23) as i16;
                d[o + 4] = rng.range(0, 59) as i16;
                d[o + 5] = rng.range(0, 59) as i16;
            }
        }
        _ => {
            for x in d.iter_mut() {
                *x = rand_i16(rng);
            }
        }
    }
    d
}

pub struct GenCfg {
    pub strclass: StrClass,
    pub maxstr: usize,
    /// reals with >53 significant bits allowed (foreign streams only)
    pub wide_reals: bool,
    pub max_structs: usize,
    pub max_elems: usize,
    pub max_pts: usize,
}
impl GenCfg {
    pub fn small(strclass: StrClass, wide_reals: bool) -> Self {
        GenCfg { strclass, maxstr: 40, wide_reals, max_structs: 4, max_elems: 8, max_pts: 12 }
    }
}

fn real(rng: &mut Rng, cfg: &GenCfg) -> u64 {
    if cfg.wide_reals {
        rand_real56(rng)
    } else {
        rand_real53(rng)
    }
}
pub fn rand_strans(rng: &mut Rng, cfg: &GenCfg, mask: Option<u32>) -> Option<NStrans> {
    // mask bits: 0 reflect, 1 absmag, 2 absangle, 3 mag present, 4 angle present; None = random incl. absent
    let m = match mask {
        Some(m) => m,
        None => {
            if rng.chance(1, 3) {
                return None;
            }
            rng.below(32) as u32
        }
    };
    let mut flags = 0u16;
    if m & 1 != 0 {
        flags |= 0x8000;
    }
    if m & 2 != 0 {
        flags |= 0x0004;
    }
    if m & 4 != 0 {
        flags |= 0x0002;
    }
    Some(NStrans { flags, mag: if m & 8 != 0 { Some(real(rng, cfg)) } else { None }, angle: if m & 16 != 0 { Some(real(rng, cfg)) } else { None } })
}
fn rand_xy(rng: &mut Rng, npts: usize) -> Vec<i32> {
    (0..npts * 2).map(|_| rand_coord(rng)).collect()
}
pub fn rand_props(rng: &mut Rng, cfg: &GenCfg, n: usize) -> Vec<(i16, Vec<u8>)> {
    (0..n).map(|_| (rand_i16(rng), rand_string(rng, cfg.maxstr, cfg.strclass))).collect()
}

/// kind: 0 boundary, 1 path, 2 sref, 3 aref, 4 text, 5 node, 6 box. optmask selects optional records (kind-specific bit layout,
/// see `sweep_case`); None = random.
pub fn rand_elem(rng: &mut Rng, cfg: &GenCfg, kind: usize, optmask: Option<u32>, strans_mask: Option<Option<u32>>, nprops: Option<usize>, names: &[Vec<u8>]) -> NElem {
    let bit = |rng: &mut Rng, i: u32| match optmask {
        Some(m) => m & (1 << i) != 0,
        None => rng.chance(1, 3),
    };
    let elflags = if bit(rng, 0) { Some([rng.u32() as u8, rng.u32() as u8]) } else { None };
    let plex = if bit(rng, 1) { Some(rand_coord(rng)) } else { None };
    let sname = |rng: &mut Rng| if !names.is_empty() && rng.chance(3, 4) { rng.pick(names).clone() } else { rand_name(rng) };
    let st = |rng: &mut Rng| match strans_mask {
        Some(None) => None,
        Some(Some(m)) => rand_strans(rng, cfg, Some(m)),
        None => rand_strans(rng, cfg, None),
    };
    let kind = match kind {
        0 => {
            let n = 1 + rng.usize(cfg.max_pts);
            NKind::Boundary { layer: rand_i16(rng), datatype: rand_i16(rng), xy: rand_xy(rng, n) }
        }
        1 => {
            let n = 1 + rng.usize(cfg.max_pts);
            NKind::Path {
                layer: rand_i16(rng),
                datatype: rand_i16(rng),
                pathtype: if bit(rng, 2) { Some(rand_i16(rng)) } else { None },
                width: if bit(rng, 3) { Some(rand_coord(rng)) } else { None },
                bgnextn: if bit(rng, 4) { Some(rand_coord(rng)) } else { None },
                endextn: if bit(rng, 5) { Some(rand_coord(rng)) } else { None },
                xy: rand_xy(rng, n),
            }
        }
        2 => NKind::Sref { sname: sname(rng), strans: st(rng), xy: rand_xy(rng, 1) },
        3 => NKind::Aref { sname: sname(rng), strans: st(rng), cols: rand_i16(rng), rows: rand_i16(rng), xy: rand_xy(rng, 3) },
        4 => NKind::Text {
            layer: rand_i16(rng),
            texttype: rand_i16(rng),
            presentation: if bit(rng, 2) { Some([rng.u32() as u8, rng.u32() as u8]) } else { None },
            pathtype: if bit(rng, 3) { Some(rand_i16(rng)) } else { None },
            width: if bit(rng, 4) { Some(rand_coord(rng)) } else { None },
            strans: st(rng),
            xy: rand_xy(rng, 1),
            string: rand_string(rng, cfg.maxstr, cfg.strclass),
        },
        5 => {
            let n = 1 + rng.usize(cfg.max_pts.min(50));
            NKind::Node { layer: rand_i16(rng), nodetype: rand_i16(rng), xy: rand_xy(rng, n) }
        }
        _ => NKind::Box { layer: rand_i16(rng), boxtype: rand_i16(rng), xy: rand_xy(rng, 5) },
    };
    let np = match nprops {
        Some(n) => n,
        None => *rng.pick(&[0, 0, 0, 1, 2, 3]),
    };
    // present-but-default: an optional record that IS in the stream with all bits clear / value zero is not the same library as one
    // without the record (ELFLAGS 0, PLEX 0, PRESENTATION 0, PATHTYPE 0, WIDTH 0, BGNEXTN/ENDEXTN 0)
    let (mut elflags, mut plex, mut kind) = (elflags, plex, kind);
    if rng.chance(1, 4) {
        if let Some(f) = elflags.as_mut() {
            *f = [0, 0];
        }
        if let Some(p) = plex.as_mut() {
            *p = 0;
        }
        match &mut kind {
            NKind::Path { pathtype, width, bgnextn, endextn, .. } => {
                for v in [width, bgnextn, endextn] {
                    if let Some(x) = v.as_mut() {
                        *x = 0;
                    }
                }
                if let Some(x) = pathtype.as_mut() {
                    *x = 0;
                }
            }
            NKind::Text { presentation, pathtype, width, .. } => {
                if let Some(x) = presentation.as_mut() {
                    *x = [0, 0];
                }
                if let Some(x) = pathtype.as_mut() {
                    *x = 0;
                }
                if let Some(x) = width.as_mut() {
                    *x = 0;
                }
            }
            _ => {}
        }
    }
    NElem { elflags, plex, kind, props: rand_props(rng, cfg, np) }
}

pub fn rand_lib(rng: &mut Rng, cfg: &GenCfg) -> NLib {
    let ns = rng.usize(cfg.max_structs + 1);
    let names: Vec<Vec<u8>> = (0..ns).map(|i| if rng.chance(1, 6) { rand_string(rng, cfg.maxstr, cfg.strclass) } else { let mut n = rand_name(rng); n.extend_from_slice(format!("{}", i).as_bytes()); n }).collect();
    let mut lib = NLib {
        version: *rng.pick(&[3, 5, 6, 7, 600, 0, -1]),
        dates: rand_dates(rng),
        name: rand_string(rng, cfg.maxstr, cfg.strclass),
        units: (real(rng, cfg), real(rng, cfg)),
        opts: vec![],
        structs: vec![],
    };
    for i in 0..ns {
        let ne = rng.usize(cfg.max_elems + 1);
        let mut s = NStruct { dates: rand_dates(rng), name: names[i].clone(), elems: vec![] };
        for _ in 0..ne {
            let k = rng.usize(7);
            s.elems.push(rand_elem(rng, cfg, k, None, None, None, &names));
        }
        lib.structs.push(s);
    }
    lib
}

// ------------------------------------------------------------------ deterministic optional-field sweep

/// (kind, number of optional-record bits excluding strans, has strans)
const SWEEP: [(usize, u32, bool); 7] = [(0, 2, false), (1, 6, false), (2, 2, true), (3, 2, true), (4, 5, true), (5, 2, false), (6, 2, false)];
const PROP_COUNTS: [usize; 3] = [0, 1, 3];

fn sweep_sizes() -> Vec<u64> {
    SWEEP.iter().map(|(_, bits, st)| (1u64 << bits) * if *st { 33 } else { 1 } * 3).collect()
}
pub fn sweep_count() -> u64 {
    sweep_sizes().iter().sum()
}
/// Case `idx` of the sweep: one library, one structure, one element of a given kind with a given optional-record subset,
/// strans variant (absent or one of the 32 flag/mag/angle combinations) and 0/1/3 properties.
pub fn sweep_case(idx: u64, rng: &mut Rng, cfg: &GenCfg) -> (NLib, String) {
    let sizes = sweep_sizes();
    let mut i = idx;
    let mut k = 0;
    while i >= sizes[k] {
        i -= sizes[k];
        k += 1;
    }
    let (kind, bits, has_st) = SWEEP[k];
    let np = PROP_COUNTS[(i % 3) as usize];
    i /= 3;
    let optmask = (i % (1 << bits)) as u32;
    i /= 1 << bits;
    let stm = if has_st { Some(if i == 0 { None } else { Some((i - 1) as u32) }) } else { Some(None) };
    let names = vec![b"leaf".to_vec()];
    let e = rand_elem(rng, cfg, kind, Some(optmask), stm, Some(np), &names);
    let desc = format!("kind={} optmask={:#b} strans={:?} nprops={}", e.kind.name(), optmask, stm.unwrap(), np);
    let lib = NLib {
        version: 600,
        dates: rand_dates(rng),
        name: rand_string(rng, cfg.maxstr, cfg.strclass),
        units: (encode_ref(1e-3).unwrap(), encode_ref(1e-9).unwrap()),
        opts: vec![],
        structs: vec![NStruct { dates: rand_dates(rng), name: rand_string(rng, cfg.maxstr, cfg.strclass), elems: vec![e] }],
    };
    (lib, desc)
}

/// Coverage bucket of an element: kind + optional-record presence bits (+ strans presence/mag/angle) + has-props
pub fn elem_bucket(e: &NElem) -> u64 {
    let mut b: u64 = 0;
    let mut push = |x: bool| {
        b = (b << 1) | x as u64;
    };
    push(e.elflags.is_some());
    push(e.plex.is_some());
    push(!e.props.is_empty());
    let (k, st): (u64, &Option<NStrans>) = match &e.kind {
        NKind::Boundary { .. } => (0, &None),
        NKind::Path { pathtype, width, bgnextn, endextn, .. } => {
            push(pathtype.is_some());
            push(width.is_some());
            push(bgnextn.is_some());
            push(endextn.is_some());
            (1, &None)
        }
        NKind::Sref { strans, .. } => (2, strans),
        NKind::Aref { strans, .. } => (3, strans),
        NKind::Text { presentation, pathtype, width, strans, string, .. } => {
            push(presentation.is_some());
            push(pathtype.is_some());
            push(width.is_some());
            push(string.is_empty());
            push(string.len() % 2 == 1);
            (4, strans)
        }
        NKind::Node { .. } => (5, &None),
        NKind::Box { .. } => (6, &None),
    };
    match st {
        None => push(false),
        Some(s) => {
            push(true);
            push(s.mag.is_some());
            push(s.angle.is_some());
            b = (b << 3) | ((s.flags >> 15) as u64 & 1) << 2 | ((s.flags >> 2) as u64 & 1) << 1 | ((s.flags >> 1) as u64 & 1);
        }
    }
    (k << 40) | b
}

pub fn render_bytes(b: &[u8]) -> String {
    let mut s = String::new();
    for x in b.iter().take(400) {
        s.push_str(&format!("{:02x}", x));
    }
    if b.len() > 400 {
        s.push_str(&format!("...({} bytes)", b.len()));
    }
    s
}

// ------------------------------------------------------------------ structural diff of gds21 libraries

fn fbits(a: f64, b: f64) -> bool {
    a.to_bits() == b.to_bits() || (a == 0.0 && b == 0.0)
}
fn ofbits(a: &Option<f64>, b: &Option<f64>) -> bool {
    match (a, b) {
        (None, None) => true,
        (Some(x), Some(y)) => fbits(*x, *y),
        _ => false,
    }
}
fn strans_diff(a: &Option<GdsStrans>, b: &Option<GdsStrans>) -> Option<&'static str> {
    match (a, b) {
        (None, None) => None,
        (Some(x), Some(y)) => {
            if x.reflected != y.reflected {
                Some("strans.reflected")
            } else if x.abs_mag != y.abs_mag {
                Some("strans.abs_mag")
            } else if x.abs_angle != y.abs_angle {
                Some("strans.abs_angle")
            } else if !ofbits(&x.mag, &y.mag) {
                Some("strans.mag")
            } else if !ofbits(&x.angle, &y.angle) {
                Some("strans.angle")
            } else {
                None
            }
        }
        _ => Some("strans.presence"),
    }
}
/// First difference between two libraries as (class, path). Class carries no indices (stable signature); reals compared by bit pattern.
pub fn lib_diff(a: &GdsLibrary, b: &GdsLibrary) -> Option<(String, String)> {
    macro_rules! d {
        ($class:expr, $path:expr) => {
            return Some(($class.to_string(), $path.to_string()))
        };
    }
    if a.name != b.name {
        d!("lib.name", "name");
    }
    if a.version != b.version {
        d!("lib.version", "version");
    }
    if a.dates != b.dates {
        d!("lib.dates", "dates");
    }
    if !fbits(a.units.0, b.units.0) || !fbits(a.units.1, b.units.1) {
        d!("lib.units", "units");
    }
    if a.structs.len() != b.structs.len() {
        d!("lib.structs.len", format!("structs.len {} vs {}", a.structs.len(), b.structs.len()));
    }
    for (i, (s, t)) in a.structs.iter().zip(b.structs.iter()).enumerate() {
        if s.name != t.name {
            d!("struct.name", format!("structs[{}].name", i));
        }
        if s.dates != t.dates {
            d!("struct.dates", format!("structs[{}].dates", i));
        }
        if s.elems.len() != t.elems.len() {
            d!("struct.elems.len", format!("structs[{}].elems.len {} vs {}", i, s.elems.len(), t.elems.len()));
        }
        for (j, (e, f)) in s.elems.iter().zip(t.elems.iter()).enumerate() {
            let at = format!("structs[{}].elems[{}]", i, j);
            macro_rules! common {
                ($k:expr, $x:expr, $y:expr) => {
                    if $x.elflags != $y.elflags {
                        d!(concat!($k, ".elflags"), at);
                    }
                    if $x.plex != $y.plex {
                        d!(concat!($k, ".plex"), at);
                    }
                    if $x.properties != $y.properties {
                        d!(concat!($k, ".properties"), at);
                    }
                };
            }
            use GdsElement::*;
            match (e, f) {
                (GdsBoundary(x), GdsBoundary(y)) => {
                    common!("boundary", x, y);
                    if x.layer != y.layer { d!("boundary.layer", at); }
                    if x.datatype != y.datatype { d!("boundary.datatype", at); }
                    if x.xy != y.xy { d!("boundary.xy", at); }
                }
                (GdsPath(x), GdsPath(y)) => {
                    common!("path", x, y);
                    if x.layer != y.layer { d!("path.layer", at); }
                    if x.datatype != y.datatype { d!("path.datatype", at); }
                    if x.xy != y.xy { d!("path.xy", at); }
                    if x.width != y.width { d!("path.width", at); }
                    if x.path_type != y.path_type { d!("path.path_type", at); }
                    if x.begin_extn != y.begin_extn { d!("path.begin_extn", at); }
                    if x.end_extn != y.end_extn { d!("path.end_extn", at); }
                }
                (GdsStructRef(x), GdsStructRef(y)) => {
                    common!("sref", x, y);
                    if x.name != y.name { d!("sref.name", at); }
                    if x.xy != y.xy { d!("sref.xy", at); }
                    if let Some(w) = strans_diff(&x.strans, &y.strans) { d!(format!("sref.{}", w), at); }
                }
                (GdsArrayRef(x), GdsArrayRef(y)) => {
                    common!("aref", x, y);
                    if x.name != y.name { d!("aref.name", at); }
                    if x.xy != y.xy { d!("aref.xy", at); }
                    if x.cols != y.cols { d!("aref.cols", at); }
                    if x.rows != y.rows { d!("aref.rows", at); }
                    if let Some(w) = strans_diff(&x.strans, &y.strans) { d!(format!("aref.{}", w), at); }
                }
                (GdsTextElem(x), GdsTextElem(y)) => {
                    common!("text", x, y);
                    if x.string != y.string { d!("text.string", at); }
                    if x.layer != y.layer { d!("text.layer", at); }
                    if x.texttype != y.texttype { d!("text.texttype", at); }
                    if x.xy != y.xy { d!("text.xy", at); }
                    if x.presentation != y.presentation { d!("text.presentation", at); }
                    if x.path_type != y.path_type { d!("text.path_type", at); }
                    if x.width != y.width { d!("text.width", at); }
                    if let Some(w) = strans_diff(&x.strans, &y.strans) { d!(format!("text.{}", w), at); }
                }
                (GdsNode(x), GdsNode(y)) => {
                    common!("node", x, y);
                    if x.layer != y.layer { d!("node.layer", at); }
                    if x.nodetype != y.nodetype { d!("node.nodetype", at); }
                    if x.xy != y.xy { d!("node.xy", at); }
                }
                (GdsBox(x), GdsBox(y)) => {
                    common!("box", x, y);
                    if x.layer != y.layer { d!("box.layer", at); }
                    if x.boxtype != y.boxtype { d!("box.boxtype", at); }
                    if x.xy != y.xy { d!("box.xy", at); }
                }
                _ => d!("elem.kind", at),
            }
        }
    }
    // Anything the field-wise walk missed (e.g. the Unsupported markers)
    if a != b && !has_nan(a) {
        d!("lib.other", "derived PartialEq differs");
    }
    None
}
fn has_nan(l: &GdsLibrary) -> bool {
    l.units.0.is_nan() || l.units.1.is_nan()
}

/// First difference between two neutral ASTs, as (class, path)
pub fn ast_diff(a: &NLib, b: &NLib) -> Option<(String, String)> {
    macro_rules! d {
        ($class:expr, $path:expr) => {
            return Some(($class.to_string(), $path.to_string()))
        };
    }
    if a.version != b.version { d!("lib.version", "version"); }
    if a.dates != b.dates { d!("lib.dates", "dates"); }
    if a.name != b.name { d!("lib.name", "name"); }
    if a.units != b.units { d!("lib.units", format!("units {:016x?} vs {:016x?}", a.units, b.units)); }
    if a.opts != b.opts { d!("lib.opts", "opts"); }
    if a.structs.len() != b.structs.len() { d!("lib.structs.len", "structs.len"); }
    for (i, (s, t)) in a.structs.iter().zip(b.structs.iter()).enumerate() {
        if s.name != t.name { d!("struct.name", format!("structs[{}].name", i)); }
        if s.dates != t.dates { d!("struct.dates", format!("structs[{}].dates", i)); }
        if s.elems.len() != t.elems.len() { d!("struct.elems.len", format!("structs[{}].elems.len", i)); }
        for (j, (e, f)) in s.elems.iter().zip(t.elems.iter()).enumerate() {
            if e != f {
                let k = e.kind.name();
                let field = if e.kind.name() != f.kind.name() { "kind".to_string() }
                    else if e.elflags != f.elflags { "elflags".into() }
                    else if e.plex != f.plex { "plex".into() }
                    else if e.props != f.props { "properties".into() }
                    else { kind_field_diff(&e.kind, &f.kind) };
                d!(format!("{}.{}", k, field), format!("structs[{}].elems[{}]: {:?} vs {:?}", i, j, e, f));
            }
        }
    }
    None
}
fn kind_field_diff(a: &NKind, b: &NKind) -> String {
    use NKind::*;
    fn st(a: &Option<NStrans>, b: &Option<NStrans>) -> Option<&'static str> {
        match (a, b) {
            (Some(x), Some(y)) => {
                if x.flags != y.flags { Some("strans.flags") } else if x.mag != y.mag { Some("strans.mag") } else if x.angle != y.angle { Some("strans.angle") } else { None }
            }
            (None, None) => None,
            _ => Some("strans.presence"),
        }
    }
    let r: &str = match (a, b) {
        (Boundary { layer: l1, datatype: d1, xy: x1 }, Boundary { layer: l2, datatype: d2, xy: x2 }) => if l1 != l2 { "layer" } else if d1 != d2 { "datatype" } else if x1 != x2 { "xy" } else { "?" },
        (Path { layer: l1, datatype: d1, pathtype: p1, width: w1, bgnextn: b1, endextn: e1, xy: x1 }, Path { layer: l2, datatype: d2, pathtype: p2, width: w2, bgnextn: b2, endextn: e2, xy: x2 }) =>
            if l1 != l2 { "layer" } else if d1 != d2 { "datatype" } else if p1 != p2 { "pathtype" } else if w1 != w2 { "width" } else if b1 != b2 { "bgnextn" } else if e1 != e2 { "endextn" } else if x1 != x2 { "xy" } else { "?" },
        (Sref { sname: n1, strans: s1, xy: x1 }, Sref { sname: n2, strans: s2, xy: x2 }) => if n1 != n2 { "sname" } else if let Some(w) = st(s1, s2) { w } else if x1 != x2 { "xy" } else { "?" },
        (Aref { sname: n1, strans: s1, cols: c1, rows: r1, xy: x1 }, Aref { sname: n2, strans: s2, cols: c2, rows: r2, xy: x2 }) =>
            if n1 != n2 { "sname" } else if let Some(w) = st(s1, s2) { w } else if c1 != c2 || r1 != r2 { "colrow" } else if x1 != x2 { "xy" } else { "?" },
        (Text { layer: l1, texttype: t1, presentation: p1, pathtype: pt1, width: w1, strans: s1, xy: x1, string: g1 }, Text { layer: l2, texttype: t2, presentation: p2, pathtype: pt2, width: w2, strans: s2, xy: x2, string: g2 }) =>
            if l1 != l2 { "layer" } else if t1 != t2 { "texttype" } else if p1 != p2 { "presentation" } else if pt1 != pt2 { "pathtype" } else if w1 != w2 { "width" } else if let Some(w) = st(s1, s2) { w } else if x1 != x2 { "xy" } else if g1 != g2 { "string" } else { "?" },
        (Node { layer: l1, nodetype: d1, xy: x1 }, Node { layer: l2, nodetype: d2, xy: x2 }) => if l1 != l2 { "layer" } else if d1 != d2 { "nodetype" } else if x1 != x2 { "xy" } else { "?" },
        (Box { layer: l1, boxtype: d1, xy: x1 }, Box { layer: l2, boxtype: d2, xy: x2 }) => if l1 != l2 { "layer" } else if d1 != d2 { "boxtype" } else if x1 != x2 { "xy" } else { "?" },
        _ => "kind",
    };
    r.to_string()
}

/// Hash of a neutral AST (for distinct-case counting)
pub fn ast_hash(l: &NLib) -> u64 {
    crate::rt::prng::strhash(&format!("{:?}", l))
}
/// Error class of a GdsError: its variant name
pub fn err_class(e: &GdsError) -> String {
    let s = format!("{:?}", e);
    s.split(|c: char| !c.is_alphanumeric()).next().unwrap_or("").to_string()
}
/// Largest record payload (bytes) a conforming writer needs for this AST
pub fn max_payload(l: &NLib) -> usize {
    let even = |n: usize| n + n % 2;
    let mut m = even(l.name.len());
    for s in &l.structs {
        m = m.max(even(s.name.len()));
        for e in &s.elems {
            for (_, v) in &e.props {
                m = m.max(even(v.len()));
            }
            let n = match &e.kind {
                NKind::Boundary { xy, .. } | NKind::Path { xy, .. } | NKind::Node { xy, .. } | NKind::Box { xy, .. } => xy.len() * 4,
                NKind::Sref { sname, .. } | NKind::Aref { sname, .. } => even(sname.len()),
                NKind::Text { string, .. } => even(string.len()),
            };
            m = m.max(n);
        }
    }
    m
}

/// A library whose single element carries one record between 32 KiB and the 65534-byte record limit (legal for any writer):
/// an XY record of 4094..8190 points or a STRING of 32762..65530 bytes. Returns the library and "xy" / "string".
pub fn big_record_lib(rng: &mut Rng) -> (NLib, &'static str) {
    let mut ast = NLib { version: 600, dates: [1; 12], name: b"big".to_vec(), units: (encode_ref(1e-3).unwrap(), encode_ref(1e-9).unwrap()), ..Default::default() };
    let what = rng.below(3);
    let (elem, name) = if what < 2 {
        let npts = (*rng.pick(&[4094usize, 4095, 4096, 4097, 6000, 8189, 8190]) + if what == 1 { rng.usize(3) } else { 0 }).min(8190);
        let mut xy = Vec::with_capacity(npts * 2);
        for i in 0..npts {
            xy.push(i as i32 * 3);
            xy.push(((i * i) % 977) as i32);
        }
        let n2 = xy.len();
        xy[n2 - 2] = xy[0];
        xy[n2 - 1] = xy[1];
        (NElem { elflags: None, plex: None, kind: NKind::Boundary { layer: 1, datatype: 0, xy }, props: vec![] }, "xy")
    } else {
        let n = *rng.pick(&[32762usize, 32763, 32764, 32765, 32766, 40000, 65528, 65530]);
        (NElem { elflags: None, plex: None, kind: NKind::Text { layer: 1, texttype: 0, presentation: None, pathtype: None, width: None, strans: None, xy: vec![0, 0], string: vec![b'a' + (n % 26) as u8; n] }, props: vec![] }, "string")
    };
    ast.structs.push(NStruct { dates: [1; 12], name: b"s".to_vec(), elems: vec![elem] });
    (ast, name)
}

/// A UTF-8 string of about `target` bytes (never more) made mostly of 2-, 3- and 4-byte characters, with an ASCII lead-in of 0..3 bytes so that
/// character boundaries fall at every phase relative to any power-of-two block size. Never ends in NUL.
pub fn long_nonascii(rng: &mut Rng, target: usize) -> Vec<u8> {
    let mut s = String::with_capacity(target + 4);
    for _ in 0..rng.usize(4) {
        s.push('a');
    }
    let pool = ['é', 'ß', 'д', '中', '語', '€', '😀', '𠮷', 'x', '_'];
    loop {
        let c = *rng.pick(&pool);
        if s.len() + c.len_utf8() > target {
            break;
        }
        s.push(c);
    }
    while s.len() < target {
        s.push('z');
    }
    s.into_bytes()
}

/// A library with ONE long, mostly non-ASCII string (4 KiB .. 65530 bytes) in one of its string-valued fields; lengths cluster around
/// multiples of 4096 (+-3) and otherwise spread over the range. Returns the library and which field.
pub fn long_string_lib(rng: &mut Rng) -> (NLib, &'static str) {
    let len = if rng.bool() {
        let k = 1 + rng.usize(15);
        (4096 * k + rng.usize(7)).saturating_sub(3).min(65530)
    } else {
        rng.range(3000, 65530) as usize
    };
    let text = long_nonascii(rng, len);
    let mut ast = NLib { version: 600, dates: [1; 12], name: b"longstr".to_vec(), units: (encode_ref(1e-3).unwrap(), encode_ref(1e-9).unwrap()), ..Default::default() };
    let bnd = |props: Vec<(i16, Vec<u8>)>| NElem { elflags: None, plex: None, kind: NKind::Boundary { layer: 1, datatype: 0, xy: vec![0, 0, 4, 0, 4, 4, 0, 0] }, props };
    let mut st = NStruct { dates: [1; 12], name: b"s".to_vec(), elems: vec![] };
    let which = match rng.below(5) {
        0 => {
            ast.name = text;
            st.elems.push(bnd(vec![]));
            "libname"
        }
        1 => {
            st.name = text;
            st.elems.push(bnd(vec![]));
            "strname"
        }
        2 => {
            st.elems.push(NElem { elflags: None, plex: None, kind: NKind::Sref { sname: text, strans: None, xy: vec![1, 2] }, props: vec![] });
            "sname"
        }
        3 => {
            st.elems.push(NElem { elflags: None, plex: None, kind: NKind::Text { layer: 1, texttype: 0, presentation: None, pathtype: None, width: None, strans: None, xy: vec![0, 0], string: text }, props: vec![] });
            "string"
        }
        _ => {
            st.elems.push(bnd(vec![(7, text)]));
            "propvalue"
        }
    };
    ast.structs.push(st);
    (ast, which)
}
