//! Shape generators: polyomino outlines, chamfered (45-degree) and star-shaped polygons, Manhattan paths.

use crate::refs::geom::*;
use crate::rt::Rng;
use std::collections::{HashMap, HashSet};

/// Random connected polyomino of `ncells` cells; returns its outer outline (CCW, unit grid) if that outline is a simple polygon.
pub fn polyomino_outline(rng: &mut Rng, ncells: usize, keep_collinear: bool) -> Option<Vec<P>> {
    let mut cells: HashSet<(i64, i64)> = HashSet::new();
    let mut list = vec![(0i64, 0i64)];
    cells.insert((0, 0));
    while list.len() < ncells {
        let (i, j) = *rng.pick(&list);
        let (di, dj) = *rng.pick(&[(1, 0), (-1, 0), (0, 1), (0, -1)]);
        let c = (i + di, j + dj);
        if cells.insert(c) {
            list.push(c);
        }
    }
    let mut out: HashMap<P, Vec<P>> = HashMap::new();
    let mut add = |a: P, b: P| out.entry(a).or_default().push(b);
    for &(i, j) in &cells {
        if !cells.contains(&(i, j - 1)) {
            add((i, j), (i + 1, j));
        }
        if !cells.contains(&(i + 1, j)) {
            add((i + 1, j), (i + 1, j + 1));
        }
        if !cells.contains(&(i, j + 1)) {
            add((i + 1, j + 1), (i, j + 1));
        }
        if !cells.contains(&(i - 1, j)) {
            add((i, j + 1), (i, j));
        }
    }
    let start = *out.keys().min()?;
    let mut poly = vec![start];
    let mut cur = start;
    loop {
        let nx = out.get(&cur)?;
        if nx.len() != 1 {
            return None; // corner-touching cells: outline not simple
        }
        cur = nx[0];
        if cur == start {
            break;
        }
        poly.push(cur);
        if poly.len() > 4 * ncells + 8 {
            return None;
        }
    }
    // drop collinear vertices (optionally keep some)
    let n = poly.len();
    let mut res = Vec::new();
    for k in 0..n {
        let (a, b, c) = (poly[(k + n - 1) % n], poly[k], poly[(k + 1) % n]);
        if cross(a, b, c) != 0 || (keep_collinear && rng.chance(1, 4)) {
            res.push(b);
        }
    }
    if is_simple(&res) {
        Some(res)
    } else {
        None
    }
}

/// Scale, translate, rotate the start vertex and optionally reverse the orientation.
pub fn dress(rng: &mut Rng, poly: &[P], max_scale: i64, max_off: i64) -> Vec<P> {
    let (sx, sy) = (rng.range(1, max_scale), rng.range(1, max_scale));
    let (ox, oy) = (rng.range(-max_off, max_off), rng.range(-max_off, max_off));
    let mut v: Vec<P> = poly.iter().map(|p| (p.0 * sx + ox, p.1 * sy + oy)).collect();
    let r = rng.usize(v.len());
    v.rotate_left(r);
    if rng.bool() {
        v.reverse();
    }
    v
}

/// Chamfer every corner of a rectilinear polygon (scaled by 4 first) with a 45-degree cut of length 1: all edges axis-parallel or diagonal.
pub fn chamfer45(poly: &[P]) -> Vec<P> {
    let n = poly.len();
    let big: Vec<P> = poly.iter().map(|p| (p.0 * 4, p.1 * 4)).collect();
    let mut out = Vec::new();
    for k in 0..n {
        let (a, b, c) = (big[(k + n - 1) % n], big[k], big[(k + 1) % n]);
        if cross(a, b, c) == 0 {
            out.push(b);
            continue;
        }
        let ua = ((a.0 - b.0).signum(), (a.1 - b.1).signum());
        let uc = ((c.0 - b.0).signum(), (c.1 - b.1).signum());
        out.push((b.0 + ua.0, b.1 + ua.1));
        out.push((b.0 + uc.0, b.1 + uc.1));
    }
    out
}

/// Star-shaped simple polygon around a centre: vertices at strictly increasing directions taken from a fixed fan of lattice directions.
pub fn star_polygon(rng: &mut Rng, nverts: usize, radius: i64, centre: P) -> Option<Vec<P>> {
    // directions sorted by angle: use many lattice directions, sort by atan2 via exact cross-product comparison within half-planes
    let mut dirs: Vec<P> = Vec::new();
    for dx in -6i64..=6 {
        for dy in -6i64..=6 {
            if (dx, dy) != (0, 0) && gcd(dx.abs(), dy.abs()) == 1 {
                dirs.push((dx, dy));
            }
        }
    }
    let half = |d: &P| if d.1 > 0 || (d.1 == 0 && d.0 > 0) { 0 } else { 1 };
    dirs.sort_by(|a, b| half(a).cmp(&half(b)).then_with(|| (b.0 as i128 * a.1 as i128).cmp(&(a.0 as i128 * b.1 as i128))));
    if nverts > dirs.len() {
        return None;
    }
    // choose nverts directions, keeping order
    let mut idx: Vec<usize> = (0..dirs.len()).collect();
    rng.shuffle(&mut idx);
    let mut chosen: Vec<usize> = idx[..nverts].to_vec();
    chosen.sort();
    let mut v = Vec::new();
    for i in chosen {
        let d = dirs[i];
        let k = rng.range(1, (radius / 6).max(1));
        v.push((centre.0 + d.0 * k, centre.1 + d.1 * k));
    }
    if is_simple(&v) && poly_contains(&v, centre) {
        Some(v)
    } else {
        None
    }
}
fn gcd(a: i64, b: i64) -> i64 {
    if b == 0 {
        a
    } else {
        gcd(b, a % b)
    }
}

/// Random Manhattan path (consecutive points differ in exactly one coordinate)
pub fn manhattan_path(rng: &mut Rng, npts: usize, max_step: i64, origin: P) -> Vec<P> {
    let mut v = vec![origin];
    let mut horiz = rng.bool();
    for _ in 1..npts {
        let last = *v.last().unwrap();
        let mut step = rng.range(1, max_step);
        if rng.bool() {
            step = -step;
        }
        v.push(if horiz { (last.0 + step, last.1) } else { (last.0, last.1 + step) });
        if rng.chance(4, 5) {
            horiz = !horiz;
        }
    }
    v
}

/// Probe points around a polygon: vertices, neighbours, edge midpoints, vertex-height points left and right, interior/far points
pub fn probe_points(rng: &mut Rng, poly: &[P], extra_random: usize) -> Vec<P> {
    let mut q = Vec::new();
    let (minx, maxx) = (poly.iter().map(|p| p.0).min().unwrap(), poly.iter().map(|p| p.0).max().unwrap());
    let (miny, maxy) = (poly.iter().map(|p| p.1).min().unwrap(), poly.iter().map(|p| p.1).max().unwrap());
    let n = poly.len();
    for k in 0..n {
        let (a, b) = (poly[k], poly[(k + 1) % n]);
        for dx in -1..=1 {
            for dy in -1..=1 {
                q.push((a.0 + dx, a.1 + dy));
            }
        }
        let m = ((a.0 + b.0).div_euclid(2), (a.1 + b.1).div_euclid(2));
        q.push(m);
        q.push((m.0 + 1, m.1));
        q.push((m.0 - 1, m.1));
        q.push((m.0, m.1 + 1));
        q.push((m.0, m.1 - 1));
        // same height as the vertex, left and right of everything, and just inside the bbox
        q.push((minx - 1 - rng.range(0, 5), a.1));
        q.push((maxx + 1 + rng.range(0, 5), a.1));
        q.push((minx, a.1));
        q.push((maxx, a.1));
        q.push((rng.range(minx, maxx), a.1));
    }
    for _ in 0..extra_random {
        q.push((rng.range(minx - 2, maxx + 2), rng.range(miny - 2, maxy + 2)));
    }
    q.push((minx - 1000, miny - 1000));
    q.push((maxx + 1000, maxy + 7));
    q
}
