//! Exact integer geometry reference: closed point-in-polygon, segment predicates, path distance classes,
//! the eight right-angle orientations as integer matrices.

pub type P = (i64, i64);

pub fn cross(o: P, a: P, b: P) -> i128 {
    (a.0 as i128 - o.0 as i128) * (b.1 as i128 - o.1 as i128) - (a.1 as i128 - o.1 as i128) * (b.0 as i128 - o.0 as i128)
}
fn dot(o: P, a: P, b: P) -> i128 {
    (a.0 as i128 - o.0 as i128) * (b.0 as i128 - o.0 as i128) + (a.1 as i128 - o.1 as i128) * (b.1 as i128 - o.1 as i128)
}
/// p lies on the closed segment ab (a may equal b)
pub fn on_segment(p: P, a: P, b: P) -> bool {
    cross(a, b, p) == 0 && p.0 >= a.0.min(b.0) && p.0 <= a.0.max(b.0) && p.1 >= a.1.min(b.1) && p.1 <= a.1.max(b.1)
}
/// closed segments ab and cd share at least one point
pub fn segments_touch(a: P, b: P, c: P, d: P) -> bool {
    let d1 = cross(c, d, a).signum();
    let d2 = cross(c, d, b).signum();
    let d3 = cross(a, b, c).signum();
    let d4 = cross(a, b, d).signum();
    if d1 * d2 < 0 && d3 * d4 < 0 {
        return true;
    }
    on_segment(a, c, d) || on_segment(b, c, d) || on_segment(c, a, b) || on_segment(d, a, b)
}
pub fn area2(poly: &[P]) -> i128 {
    let n = poly.len();
    let mut s: i128 = 0;
    for i in 0..n {
        let (a, b) = (poly[i], poly[(i + 1) % n]);
        s += a.0 as i128 * b.1 as i128 - b.0 as i128 * a.1 as i128;
    }
    s
}
/// Simple polygon: >= 3 distinct vertices, non-zero area, non-adjacent edges disjoint,
/// adjacent edges meeting only at their shared vertex (collinear continuation allowed, folding back not).
pub fn is_simple(poly: &[P]) -> bool {
    let n = poly.len();
    if n < 3 || area2(poly) == 0 {
        return false;
    }
    for i in 0..n {
        for j in (i + 1)..n {
            if poly[i] == poly[j] {
                return false;
            }
        }
    }
    for i in 0..n {
        let (a, b) = (poly[i], poly[(i + 1) % n]);
        let c = poly[(i + 2) % n];
        // adjacent edges ab, bc must not fold back onto each other
        if cross(b, a, c) == 0 && dot(b, a, c) > 0 {
            return false;
        }
        for j in (i + 2)..n {
            if (j + 1) % n == i {
                continue; // adjacent (wrap-around)
            }
            let (c, d) = (poly[j], poly[(j + 1) % n]);
            if segments_touch(a, b, c, d) {
                return false;
            }
        }
    }
    true
}
/// Closed-region membership (boundary and vertices included) for a simple polygon,
/// tolerant of repeated and collinear vertices.
pub fn poly_contains(poly: &[P], p: P) -> bool {
    let n = poly.len();
    let mut inside = false;
    for i in 0..n {
        let (a, b) = (poly[i], poly[(i + 1) % n]);
        if on_segment(p, a, b) {
            return true;
        }
        if (a.1 > p.1) != (b.1 > p.1) {
            // edge straddles the horizontal line through p (half-open rule). Is the crossing strictly to the right of p?
            let c = cross(a, b, p);
            let up = b.1 > a.1;
            if (c > 0) == up {
                inside = !inside;
            }
        }
    }
    inside
}
pub fn rect_contains(p0: P, p1: P, p: P) -> bool {
    p.0 >= p0.0.min(p1.0) && p.0 <= p0.0.max(p1.0) && p.1 >= p0.1.min(p1.1) && p.1 <= p0.1.max(p1.1)
}

#[derive(Debug, Clone, Copy, PartialEq, Eq)]
pub enum PathClass {
    /// inside some segment's own rectangle: perpendicular offset <= w/2 and projection within the segment
    MustBeInside,
    /// farther than w/2 (Euclidean) from every segment
    MustBeOutside,
    /// within w/2 of a segment only through an end cap / outer corner: not implied either way by the statement
    CapBand,
}
/// Classification of a point against a Manhattan path of width w. All comparisons on doubled integers (exact).
pub fn path_class(points: &[P], w: i64, p: P) -> PathClass {
    // (all arithmetic in 128 bits: query points may be anywhere in the 64-bit plane)
    let w = w as i128;
    let p = (p.0 as i128, p.1 as i128);
    let mut near = false;
    for k in 0..points.len().saturating_sub(1) {
        let (a, b) = ((points[k].0 as i128, points[k].1 as i128), (points[k + 1].0 as i128, points[k + 1].1 as i128));
        let (perp2, along_in, dist2_x4): (i128, bool, i128);
        if a.0 == b.0 {
            // vertical (or zero-length)
            perp2 = 2 * (p.0 - a.0).abs();
            let (lo, hi) = (a.1.min(b.1), a.1.max(b.1));
            along_in = p.1 >= lo && p.1 <= hi;
            let dy = if p.1 < lo { lo - p.1 } else if p.1 > hi { p.1 - hi } else { 0 };
            let dx = (p.0 - a.0).abs();
            dist2_x4 = (4 * (dx * dx)).saturating_add(4 * (dy * dy));
        } else {
            perp2 = 2 * (p.1 - a.1).abs();
            let (lo, hi) = (a.0.min(b.0), a.0.max(b.0));
            along_in = p.0 >= lo && p.0 <= hi;
            let dx = if p.0 < lo { lo - p.0 } else if p.0 > hi { p.0 - hi } else { 0 };
            let dy = (p.1 - a.1).abs();
            dist2_x4 = (4 * (dx * dx)).saturating_add(4 * (dy * dy));
        }
        if along_in && perp2 <= w {
            return PathClass::MustBeInside;
        }
        if dist2_x4 <= w * w {
            near = true;
        }
    }
    if near {
        PathClass::CapBand
    } else {
        PathClass::MustBeOutside
    }
}

// ---------------------------------------------------------------- orientations

/// Integer 2x2 matrix + translation: p -> M p + t
#[derive(Debug, Clone, Copy, PartialEq, Eq)]
pub struct IMap {
    pub m: [[i64; 2]; 2],
    pub t: P,
}
impl IMap {
    pub fn identity() -> Self {
        IMap { m: [[1, 0], [0, 1]], t: (0, 0) }
    }
    /// GDSII / Layout21 instance semantics: reflect about the x-axis first, then rotate CCW by quarter*90 degrees, then translate
    pub fn instance(loc: P, reflect: bool, quarter: i64) -> Self {
        let (c, s) = match quarter.rem_euclid(4) {
            0 => (1, 0),
            1 => (0, 1),
            2 => (-1, 0),
            _ => (0, -1),
        };
        // R = [[c,-s],[s,c]], F = diag(1,-1);  R*F = [[c, s],[s,-c]]
        let m = if reflect { [[c, s], [s, -c]] } else { [[c, -s], [s, c]] };
        IMap { m, t: loc }
    }
    pub fn apply(&self, p: P) -> P {
        (self.m[0][0] * p.0 + self.m[0][1] * p.1 + self.t.0, self.m[1][0] * p.0 + self.m[1][1] * p.1 + self.t.1)
    }
    /// parent after child: p -> parent(child(p))
    pub fn compose(parent: &IMap, child: &IMap) -> IMap {
        let a = &parent.m;
        let b = &child.m;
        let m = [
            [a[0][0] * b[0][0] + a[0][1] * b[1][0], a[0][0] * b[0][1] + a[0][1] * b[1][1]],
            [a[1][0] * b[0][0] + a[1][1] * b[1][0], a[1][0] * b[0][1] + a[1][1] * b[1][1]],
        ];
        let t = parent.apply(child.t);
        IMap { m, t }
    }
    pub fn det(&self) -> i64 {
        self.m[0][0] * self.m[1][1] - self.m[0][1] * self.m[1][0]
    }
}

#[cfg(test)]
mod tests {
    use super::*;
    #[test]
    fn poly_basics() {
        let sq = [(0, 0), (4, 0), (4, 4), (0, 4)];
        assert!(is_simple(&sq));
        assert!(poly_contains(&sq, (2, 2)) && poly_contains(&sq, (0, 0)) && poly_contains(&sq, (4, 2)));
        assert!(!poly_contains(&sq, (5, 2)) && !poly_contains(&sq, (-1, 4)));
        let bow = [(0, 0), (4, 4), (4, 0), (0, 4)];
        assert!(!is_simple(&bow));
        // ray through a pass-through vertex
        let dia = [(2, 0), (4, 2), (2, 4), (0, 2)];
        assert!(!poly_contains(&dia, (-1, 2)) && poly_contains(&dia, (1, 2)) && !poly_contains(&dia, (5, 2)));
        let tri = [(0, 0), (3, 1), (0, 2)];
        assert!(!poly_contains(&tri, (2, 0)) && poly_contains(&tri, (2, 1)) && poly_contains(&tri, (3, 1)) && !poly_contains(&tri, (3, 0)));
    }
    #[test]
    fn maps() {
        let m = IMap::instance((10, 20), true, 1);
        // reflect (1,2)->(1,-2); rotate 90 CCW -> (2,1); translate -> (12,21)
        assert_eq!(m.apply((1, 2)), (12, 21));
        assert_eq!(m.det(), -1);
    }
}
