//! Exact reference codec for the GDSII 8-byte real (sign, excess-64 base-16 exponent, 56-bit mantissa),
//! written from the format definition using integer arithmetic only.

/// Decompose a finite, non-zero, normal f64 into (negative, m, e) with |x| = m * 2^e and 2^52 <= m < 2^53.
pub fn decompose(x: f64) -> Option<(bool, u64, i32)> {
    let bits = x.to_bits();
    let neg = bits >> 63 == 1;
    let be = ((bits >> 52) & 0x7FF) as i32;
    let frac = bits & ((1u64 << 52) - 1);
    if be == 0 || be == 0x7FF {
        return None; // zero, subnormal, inf, nan
    }
    Some((neg, frac | (1u64 << 52), be - 1023 - 52))
}

/// Is `x` inside the range the property quantifies over: 16^-64 <= |x| < 16^63 ?
pub fn in_claimed_range(x: f64) -> bool {
    match decompose(x) {
        None => false,
        Some((_, _m, e)) => {
            // |x| in [2^(e+52), 2^(e+53)); need 2^-256 <= |x| < 2^252
            let p = e + 52; // floor(log2 |x|)
            p >= -256 && p < 252
        }
    }
}

/// Exact normalised encoding. `None` if x is not representable (out of exponent range / non-finite / subnormal).
/// Zero (either sign) encodes as all-zero bytes.
pub fn encode_ref(x: f64) -> Option<u64> {
    if x == 0.0 {
        return Some(0);
    }
    let (neg, m, e) = decompose(x)?;
    // |x| = M * 2^(4E-56), M = m << s, 0 <= s <= 3
    let t = e + 56;
    let s = t.rem_euclid(4);
    let big_e = (t - s) / 4;
    let field = big_e + 64;
    if !(0..=127).contains(&field) {
        return None;
    }
    let mant = m << s;
    debug_assert!(mant >= 1 << 52 && mant < 1 << 56);
    Some(((neg as u64) << 63) | ((field as u64) << 56) | mant)
}

/// Build an f64 from q * 2^exp2 where q < 2^54, exactly (caller guarantees representability in the normal range)
fn from_int_exp(neg: bool, q: u64, exp2: i32) -> f64 {
    if q == 0 {
        return if neg { -0.0 } else { 0.0 };
    }
    let p = 63 - q.leading_zeros() as i32; // top bit position
    let mant = if p <= 52 { q << (52 - p) } else { q >> (p - 52) };
    let be = p + exp2 + 1023;
    assert!((1..=2046).contains(&be), "reference decode outside normal range");
    let bits = ((neg as u64) << 63) | ((be as u64) << 52) | (mant & ((1u64 << 52) - 1));
    f64::from_bits(bits)
}

/// Correctly rounded (nearest, ties to even) value of an 8-byte GDS real.
pub fn decode_ref(bits: u64) -> f64 {
    let neg = bits >> 63 == 1;
    let big_e = ((bits >> 56) & 0x7F) as i32 - 64;
    let m = bits & 0x00FF_FFFF_FFFF_FFFF;
    if m == 0 {
        return if neg { -0.0 } else { 0.0 };
    }
    let k = 4 * big_e - 56;
    let nbits = 64 - m.leading_zeros() as i32;
    if nbits <= 53 {
        return from_int_exp(neg, m, k);
    }
    let shift = nbits - 53;
    let mut q = m >> shift;
    let rem = m & ((1u64 << shift) - 1);
    let half = 1u64 << (shift - 1);
    if rem > half || (rem == half && q & 1 == 1) {
        q += 1;
    }
    from_int_exp(neg, q, k + shift)
}

pub fn is_normalised(bits: u64) -> bool {
    (bits >> 52) & 0xF != 0
}
/// Number of significant bits of the mantissa (top set bit to lowest set bit, inclusive)
pub fn sig_bits(bits: u64) -> u32 {
    let m = bits & 0x00FF_FFFF_FFFF_FFFF;
    if m == 0 {
        return 0;
    }
    (64 - m.leading_zeros()) - m.trailing_zeros()
}

/// Witness classifier for encoding defects: is |x| just below a power of 16 (within a relative 2^-40)?
pub fn just_below_pow16(x: f64) -> bool {
    if let Some((_, m, e)) = decompose(x) {
        // |x| = m*2^e, next power of two above is 2^(e+53); it is a power of 16 iff (e+53)%4==0
        if (e + 53).rem_euclid(4) != 0 {
            return false;
        }
        // distance to 2^53 in units of the mantissa
        let d = (1u64 << 53) - m;
        d <= (1 << 13)
    } else {
        false
    }
}

#[cfg(test)]
mod tests {
    use super::*;
    #[test]
    fn self_consistent() {
        for x in [1.0, 0.5, 16.0, 1e-3, 1e-9, 255.99999, 123456789.12345679, -90.0] {
            let b = encode_ref(x).unwrap();
            assert!(is_normalised(b));
            assert_eq!(decode_ref(b).to_bits(), (x as f64).to_bits());
        }
        assert_eq!(encode_ref(1.0).unwrap(), 0x4110_0000_0000_0000);
        assert_eq!(encode_ref(-2.0).unwrap(), 0xC120_0000_0000_0000);
        assert_eq!(encode_ref(1e-3).unwrap(), 0x3E41_8937_4BC6_A7F0);
    }
}
