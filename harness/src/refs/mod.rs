pub mod gdsreal;
pub mod geom;
pub mod gdsstream;
