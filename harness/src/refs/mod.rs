pub mod gdsreal;
pub mod gdsstream;
