pub mod gdsreal;
pub mod geom;
pub mod hier;
pub mod order;
pub mod gdsstream;
