pub mod gdsreal;
pub mod geom;
pub mod order;
pub mod gdsstream;
