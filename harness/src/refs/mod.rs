pub mod gdsreal;
