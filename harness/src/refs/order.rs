//! Dependency-order validator and digraph helpers. adj[i] bit j set  <=>  i depends on j.

pub type Graph = Vec<Vec<usize>>; // adjacency lists: g[i] = dependencies of i

pub fn from_masks(n: usize, masks: &[u32]) -> Graph {
    (0..n).map(|i| (0..n).filter(|j| masks[i] & (1 << j) != 0).collect()).collect()
}
/// Nodes reachable from `listed` (including them)
pub fn reachable(g: &Graph, listed: &[usize]) -> Vec<bool> {
    let mut seen = vec![false; g.len()];
    let mut stack: Vec<usize> = listed.to_vec();
    while let Some(u) = stack.pop() {
        if seen[u] {
            continue;
        }
        seen[u] = true;
        for &v in &g[u] {
            if !seen[v] {
                stack.push(v);
            }
        }
    }
    seen
}
/// Is there a cycle (incl. self-loop) within the sub-graph induced by `within`? Iterative three-colour DFS.
pub fn has_cycle(g: &Graph, within: &[bool]) -> bool {
    let n = g.len();
    let mut colour = vec![0u8; n];
    for s in 0..n {
        if !within[s] || colour[s] != 0 {
            continue;
        }
        let mut stack: Vec<(usize, usize)> = vec![(s, 0)];
        colour[s] = 1;
        while let Some(&mut (u, ref mut k)) = stack.last_mut() {
            if *k < g[u].len() {
                let v = g[u][*k];
                *k += 1;
                if !within[v] {
                    continue;
                }
                if colour[v] == 1 {
                    return true;
                }
                if colour[v] == 0 {
                    colour[v] = 1;
                    stack.push((v, 0));
                }
            } else {
                colour[u] = 2;
                stack.pop();
            }
        }
    }
    false
}
/// Validate an orderer's outcome. `result` = Some(sequence) for Ok, None for Err. Returns the violated clause, if any.
pub fn judge(g: &Graph, listed: &[usize], result: Option<&[usize]>) -> Result<(), &'static str> {
    let reach = reachable(g, listed);
    let cyclic = has_cycle(g, &reach);
    match result {
        None => {
            if cyclic {
                Ok(())
            } else {
                Err("acyclic-graph-rejected")
            }
        }
        Some(seq) => {
            if cyclic {
                return Err("cyclic-graph-ordered");
            }
            let mut pos = vec![usize::MAX; g.len()];
            for (k, &u) in seq.iter().enumerate() {
                if u >= g.len() {
                    return Err("unknown-item");
                }
                if pos[u] != usize::MAX {
                    return Err("duplicate-item");
                }
                pos[u] = k;
            }
            for u in 0..g.len() {
                if reach[u] && pos[u] == usize::MAX {
                    return Err("missing-item");
                }
                if !reach[u] && pos[u] != usize::MAX {
                    return Err("unreachable-item-listed");
                }
            }
            for u in 0..g.len() {
                if reach[u] {
                    for &v in &g[u] {
                        if pos[v] > pos[u] {
                            return Err("dependency-after-user");
                        }
                    }
                }
            }
            Ok(())
        }
    }
}
