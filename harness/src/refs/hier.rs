//! GDSII-semantics hierarchy flattener over gds21 data, and canonical shape forms shared with the raw-model side.
//! SREF: reflect about the x-axis, rotate counter-clockwise, translate. AREF: the three points are the array origin,
//! origin + cols * column-vector and origin + rows * row-vector as placed; placement (i, j) sits at
//! p0 + i*(p1-p0)/cols + j*(p2-p0)/rows and carries the STRANS (Calma GDSII Stream Format, as implemented by KLayout/gdstk).

use super::geom::{IMap, P};
use gds21::*;
use std::collections::HashMap;

#[derive(Debug, Clone, PartialEq, Eq, Hash, PartialOrd, Ord)]
pub enum CShape {
    /// closed polygon as a canonical vertex cycle (smallest rotation over both directions)
    Poly(Vec<P>),
    /// open path: points in order, width
    Path(Vec<P>, i64),
}
#[derive(Debug, Clone, PartialEq, Eq, Hash, PartialOrd, Ord)]
pub struct FlatShape {
    pub layer: i16,
    pub dtype: i16,
    pub shape: CShape,
}

pub fn canon_cycle(pts: &[P]) -> Vec<P> {
    let n = pts.len();
    if n == 0 {
        return vec![];
    }
    let mut best: Option<Vec<P>> = None;
    for dir in 0..2 {
        for s in 0..n {
            let cand: Vec<P> = (0..n).map(|k| if dir == 0 { pts[(s + k) % n] } else { pts[(s + n - k) % n] }).collect();
            if best.as_ref().map_or(true, |b| cand < *b) {
                best = Some(cand);
            }
        }
    }
    best.unwrap()
}
pub fn rect_cycle(a: P, b: P) -> Vec<P> {
    canon_cycle(&[(a.0, a.1), (b.0, a.1), (b.0, b.1), (a.0, b.1)])
}

#[derive(Debug)]
pub enum HierError {
    Dangling(String),
    Cyclic(String),
    Malformed(String),
    /// outside what this reference models (non-right angles, magnification)
    Unsupported(String),
}

fn quarter_of(angle: Option<f64>) -> Result<i64, HierError> {
    match angle {
        None => Ok(0),
        Some(a) => {
            if a.is_finite() && a % 90.0 == 0.0 {
                Ok(((a / 90.0) as i64).rem_euclid(4))
            } else {
                Err(HierError::Unsupported(format!("angle {}", a)))
            }
        }
    }
}
fn strans_map(st: &Option<GdsStrans>, loc: P) -> Result<IMap, HierError> {
    match st {
        None => Ok(IMap::instance(loc, false, 0)),
        Some(s) => {
            if s.abs_mag || s.abs_angle {
                return Err(HierError::Unsupported("absolute magnification/angle".into()));
            }
            if let Some(m) = s.mag {
                if m != 1.0 {
                    return Err(HierError::Unsupported(format!("magnification {}", m)));
                }
            }
            Ok(IMap::instance(loc, s.reflected, quarter_of(s.angle)?))
        }
    }
}
fn gp(p: &GdsPoint) -> P {
    (p.x as i64, p.y as i64)
}

pub struct Flattener<'a> {
    pub structs: HashMap<&'a str, &'a GdsStruct>,
    /// budget on produced shapes, to keep cases bounded
    pub max_shapes: usize,
}
impl<'a> Flattener<'a> {
    pub fn new(lib: &'a GdsLibrary) -> Self {
        let mut structs = HashMap::new();
        for s in &lib.structs {
            structs.insert(s.name.as_str(), s);
        }
        Flattener { structs, max_shapes: 400_000 }
    }
    pub fn flatten(&self, name: &str) -> Result<Vec<FlatShape>, HierError> {
        let mut out = Vec::new();
        let mut path = Vec::new();
        self.rec(name, &IMap::identity(), &mut out, &mut path)?;
        Ok(out)
    }
    fn rec(&self, name: &str, map: &IMap, out: &mut Vec<FlatShape>, path: &mut Vec<String>) -> Result<(), HierError> {
        let s = self.structs.get(name).ok_or_else(|| HierError::Dangling(name.to_string()))?;
        if path.iter().any(|p| p == name) {
            return Err(HierError::Cyclic(name.to_string()));
        }
        path.push(name.to_string());
        for e in &s.elems {
            match e {
                GdsElement::GdsBoundary(b) => {
                    if b.xy.len() < 2 || b.xy.first() != b.xy.last() {
                        return Err(HierError::Malformed("boundary not closed / empty".into()));
                    }
                    let pts: Vec<P> = b.xy[..b.xy.len() - 1].iter().map(|p| map.apply(gp(p))).collect();
                    out.push(FlatShape { layer: b.layer, dtype: b.datatype, shape: CShape::Poly(canon_cycle(&pts)) });
                }
                GdsElement::GdsBox(b) => {
                    let pts: Vec<P> = b.xy[..4].iter().map(|p| map.apply(gp(p))).collect();
                    out.push(FlatShape { layer: b.layer, dtype: b.boxtype, shape: CShape::Poly(canon_cycle(&pts)) });
                }
                GdsElement::GdsPath(p) => {
                    if p.xy.is_empty() {
                        return Err(HierError::Malformed("empty path".into()));
                    }
                    let w = p.width.ok_or_else(|| HierError::Malformed("path without width".into()))?;
                    let pts: Vec<P> = p.xy.iter().map(|q| map.apply(gp(q))).collect();
                    out.push(FlatShape { layer: p.layer, dtype: p.datatype, shape: CShape::Path(pts, w as i64) });
                }
                GdsElement::GdsStructRef(r) => {
                    let m = IMap::compose(map, &strans_map(&r.strans, gp(&r.xy))?);
                    self.rec(&r.name, &m, out, path)?;
                }
                GdsElement::GdsArrayRef(a) => {
                    if a.cols <= 0 || a.rows <= 0 {
                        return Err(HierError::Malformed(format!("array with {} cols {} rows", a.cols, a.rows)));
                    }
                    let (c, r) = (a.cols as i64, a.rows as i64);
                    let (p0, p1, p2) = (gp(&a.xy[0]), gp(&a.xy[1]), gp(&a.xy[2]));
                    let (cv, rv) = ((p1.0 - p0.0, p1.1 - p0.1), (p2.0 - p0.0, p2.1 - p0.1));
                    if cv.0 % c != 0 || cv.1 % c != 0 || rv.0 % r != 0 || rv.1 % r != 0 {
                        return Err(HierError::Unsupported("array pitch not integral".into()));
                    }
                    let (cv, rv) = ((cv.0 / c, cv.1 / c), (rv.0 / r, rv.1 / r));
                    for i in 0..c {
                        for j in 0..r {
                            let loc = (p0.0 + i * cv.0 + j * rv.0, p0.1 + i * cv.1 + j * rv.1);
                            let m = IMap::compose(map, &strans_map(&a.strans, loc)?);
                            self.rec(&a.name, &m, out, path)?;
                            if out.len() > self.max_shapes {
                                return Err(HierError::Unsupported("too many shapes for the reference budget".into()));
                            }
                        }
                    }
                }
                GdsElement::GdsTextElem(_) | GdsElement::GdsNode(_) => {}
            }
        }
        path.pop();
        Ok(())
    }
}
