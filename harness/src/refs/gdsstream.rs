//! Independent GDSII stream reference: neutral AST, BNF-driven encoder and strict BNF decoder.
//! Record numbers and data types are taken from the GDSII Stream Format specification (release 6),
//! not from gds21's tables.

#[derive(Debug, Clone, PartialEq, Eq, Default)]
pub struct NStrans {
    /// bit 15 (0x8000) reflect, bit 2 (0x0004) absolute mag, bit 1 (0x0002) absolute angle
    pub flags: u16,
    /// raw 8-byte reals
    pub mag: Option<u64>,
    pub angle: Option<u64>,
}

#[derive(Debug, Clone, PartialEq, Eq)]
pub enum NKind {
    Boundary { layer: i16, datatype: i16, xy: Vec<i32> },
    Path { layer: i16, datatype: i16, pathtype: Option<i16>, width: Option<i32>, bgnextn: Option<i32>, endextn: Option<i32>, xy: Vec<i32> },
    Sref { sname: Vec<u8>, strans: Option<NStrans>, xy: Vec<i32> },
    Aref { sname: Vec<u8>, strans: Option<NStrans>, cols: i16, rows: i16, xy: Vec<i32> },
    Text { layer: i16, texttype: i16, presentation: Option<[u8; 2]>, pathtype: Option<i16>, width: Option<i32>, strans: Option<NStrans>, xy: Vec<i32>, string: Vec<u8> },
    Node { layer: i16, nodetype: i16, xy: Vec<i32> },
    Box { layer: i16, boxtype: i16, xy: Vec<i32> },
}
impl NKind {
    pub fn name(&self) -> &'static str {
        match self {
            NKind::Boundary { .. } => "boundary",
            NKind::Path { .. } => "path",
            NKind::Sref { .. } => "sref",
            NKind::Aref { .. } => "aref",
            NKind::Text { .. } => "text",
            NKind::Node { .. } => "node",
            NKind::Box { .. } => "box",
        }
    }
}

#[derive(Debug, Clone, PartialEq, Eq)]
pub struct NElem {
    pub elflags: Option<[u8; 2]>,
    pub plex: Option<i32>,
    pub kind: NKind,
    pub props: Vec<(i16, Vec<u8>)>,
}

#[derive(Debug, Clone, PartialEq, Eq, Default)]
pub struct NStruct {
    pub dates: [i16; 12],
    pub name: Vec<u8>,
    pub elems: Vec<NElem>,
}

/// Library-level optional records that gds21 documents as unsupported
#[derive(Debug, Clone, PartialEq, Eq)]
pub enum NLibOpt {
    LibDirSize(i16),
    SrfName(Vec<u8>),
    LibSecur(Vec<i16>),
    RefLibs(Vec<u8>),
    Fonts(Vec<u8>),
    AttrTable(Vec<u8>),
    Generations(i16),
    Format(i16, Vec<Vec<u8>>),
}

#[derive(Debug, Clone, PartialEq, Eq, Default)]
pub struct NLib {
    pub version: i16,
    pub dates: [i16; 12],
    pub name: Vec<u8>,
    /// raw 8-byte reals
    pub units: (u64, u64),
    pub opts: Vec<NLibOpt>,
    pub structs: Vec<NStruct>,
}

// ---- record numbers (spec) ----
pub mod rt {
    pub const HEADER: u8 = 0x00;
    pub const BGNLIB: u8 = 0x01;
    pub const LIBNAME: u8 = 0x02;
    pub const UNITS: u8 = 0x03;
    pub const ENDLIB: u8 = 0x04;
    pub const BGNSTR: u8 = 0x05;
    pub const STRNAME: u8 = 0x06;
    pub const ENDSTR: u8 = 0x07;
    pub const BOUNDARY: u8 = 0x08;
    pub const PATH: u8 = 0x09;
    pub const SREF: u8 = 0x0A;
    pub const AREF: u8 = 0x0B;
    pub const TEXT: u8 = 0x0C;
    pub const LAYER: u8 = 0x0D;
    pub const DATATYPE: u8 = 0x0E;
    pub const WIDTH: u8 = 0x0F;
    pub const XY: u8 = 0x10;
    pub const ENDEL: u8 = 0x11;
    pub const SNAME: u8 = 0x12;
    pub const COLROW: u8 = 0x13;
    pub const NODE: u8 = 0x15;
    pub const TEXTTYPE: u8 = 0x16;
    pub const PRESENTATION: u8 = 0x17;
    pub const STRING: u8 = 0x19;
    pub const STRANS: u8 = 0x1A;
    pub const MAG: u8 = 0x1B;
    pub const ANGLE: u8 = 0x1C;
    pub const REFLIBS: u8 = 0x1F;
    pub const FONTS: u8 = 0x20;
    pub const PATHTYPE: u8 = 0x21;
    pub const GENERATIONS: u8 = 0x22;
    pub const ATTRTABLE: u8 = 0x23;
    pub const ELFLAGS: u8 = 0x26;
    pub const NODETYPE: u8 = 0x2A;
    pub const PROPATTR: u8 = 0x2B;
    pub const PROPVALUE: u8 = 0x2C;
    pub const BOX: u8 = 0x2D;
    pub const BOXTYPE: u8 = 0x2E;
    pub const PLEX: u8 = 0x2F;
    pub const BGNEXTN: u8 = 0x30;
    pub const ENDEXTN: u8 = 0x31;
    pub const FORMAT: u8 = 0x36;
    pub const MASK: u8 = 0x37;
    pub const ENDMASKS: u8 = 0x38;
    pub const LIBDIRSIZE: u8 = 0x39;
    pub const SRFNAME: u8 = 0x3A;
    pub const LIBSECUR: u8 = 0x3B;
}
// ---- data types (spec) ----
pub const DT_NONE: u8 = 0;
pub const DT_BITS: u8 = 1;
pub const DT_I16: u8 = 2;
pub const DT_I32: u8 = 3;
pub const DT_F64: u8 = 5;
pub const DT_STR: u8 = 6;

/// The data type the specification assigns to each record type (None = record type not used by this reference)
pub fn spec_dtype(rtype: u8) -> Option<u8> {
    use rt::*;
    Some(match rtype {
        HEADER | BGNLIB | BGNSTR | LAYER | DATATYPE | COLROW | TEXTTYPE | PATHTYPE | GENERATIONS | NODETYPE | PROPATTR | BOXTYPE | FORMAT | LIBDIRSIZE | LIBSECUR => DT_I16,
        LIBNAME | STRNAME | SNAME | STRING | REFLIBS | FONTS | ATTRTABLE | PROPVALUE | MASK | SRFNAME => DT_STR,
        UNITS | MAG | ANGLE => DT_F64,
        ENDLIB | ENDSTR | BOUNDARY | PATH | SREF | AREF | TEXT | ENDEL | NODE | BOX | ENDMASKS => DT_NONE,
        WIDTH | XY | PLEX | BGNEXTN | ENDEXTN => DT_I32,
        PRESENTATION | STRANS | ELFLAGS => DT_BITS,
        _ => return None,
    })
}

// ------------------------------------------------------------------ encoder

#[derive(Debug, Clone, Default)]
pub struct EncOpts {
    /// bytes appended after ENDLIB (tape-block padding)
    pub trailing: Vec<u8>,
}

pub struct Enc {
    pub out: Vec<u8>,
    /// byte offset of each record start (for fault injection)
    pub offsets: Vec<usize>,
}
impl Enc {
    pub fn new() -> Self {
        Enc { out: Vec::new(), offsets: Vec::new() }
    }
    pub fn rec(&mut self, rtype: u8, dtype: u8, payload: &[u8]) {
        assert!(payload.len() % 2 == 0 && payload.len() + 4 <= 0xFFFF, "reference encoder: record too long ({})", payload.len());
        self.offsets.push(self.out.len());
        let len = (payload.len() + 4) as u16;
        self.out.extend_from_slice(&len.to_be_bytes());
        self.out.push(rtype);
        self.out.push(dtype);
        self.out.extend_from_slice(payload);
    }
    fn none(&mut self, rtype: u8) {
        self.rec(rtype, DT_NONE, &[]);
    }
    fn i16s(&mut self, rtype: u8, v: &[i16]) {
        let mut p = Vec::with_capacity(v.len() * 2);
        for x in v {
            p.extend_from_slice(&x.to_be_bytes());
        }
        self.rec(rtype, DT_I16, &p);
    }
    fn i32s(&mut self, rtype: u8, v: &[i32]) {
        let mut p = Vec::with_capacity(v.len() * 4);
        for x in v {
            p.extend_from_slice(&x.to_be_bytes());
        }
        self.rec(rtype, DT_I32, &p);
    }
    fn reals(&mut self, rtype: u8, v: &[u64]) {
        let mut p = Vec::with_capacity(v.len() * 8);
        for x in v {
            p.extend_from_slice(&x.to_be_bytes());
        }
        self.rec(rtype, DT_F64, &p);
    }
    fn bits(&mut self, rtype: u8, v: [u8; 2]) {
        self.rec(rtype, DT_BITS, &v);
    }
    fn string(&mut self, rtype: u8, s: &[u8]) {
        let mut p = s.to_vec();
        if p.len() % 2 == 1 {
            p.push(0);
        }
        self.rec(rtype, DT_STR, &p);
    }
    fn strans(&mut self, s: &Option<NStrans>) {
        if let Some(s) = s {
            self.bits(rt::STRANS, s.flags.to_be_bytes());
            if let Some(m) = s.mag {
                self.reals(rt::MAG, &[m]);
            }
            if let Some(a) = s.angle {
                self.reals(rt::ANGLE, &[a]);
            }
        }
    }
    fn elem(&mut self, e: &NElem) {
        let head = match &e.kind {
            NKind::Boundary { .. } => rt::BOUNDARY,
            NKind::Path { .. } => rt::PATH,
            NKind::Sref { .. } => rt::SREF,
            NKind::Aref { .. } => rt::AREF,
            NKind::Text { .. } => rt::TEXT,
            NKind::Node { .. } => rt::NODE,
            NKind::Box { .. } => rt::BOX,
        };
        self.none(head);
        if let Some(f) = e.elflags {
            self.bits(rt::ELFLAGS, f);
        }
        if let Some(p) = e.plex {
            self.i32s(rt::PLEX, &[p]);
        }
        match &e.kind {
            NKind::Boundary { layer, datatype, xy } => {
                self.i16s(rt::LAYER, &[*layer]);
                self.i16s(rt::DATATYPE, &[*datatype]);
                self.i32s(rt::XY, xy);
            }
            NKind::Path { layer, datatype, pathtype, width, bgnextn, endextn, xy } => {
                self.i16s(rt::LAYER, &[*layer]);
                self.i16s(rt::DATATYPE, &[*datatype]);
                if let Some(v) = pathtype {
                    self.i16s(rt::PATHTYPE, &[*v]);
                }
                if let Some(v) = width {
                    self.i32s(rt::WIDTH, &[*v]);
                }
                if let Some(v) = bgnextn {
                    self.i32s(rt::BGNEXTN, &[*v]);
                }
                if let Some(v) = endextn {
                    self.i32s(rt::ENDEXTN, &[*v]);
                }
                self.i32s(rt::XY, xy);
            }
            NKind::Sref { sname, strans, xy } => {
                self.string(rt::SNAME, sname);
                self.strans(strans);
                self.i32s(rt::XY, xy);
            }
            NKind::Aref { sname, strans, cols, rows, xy } => {
                self.string(rt::SNAME, sname);
                self.strans(strans);
                self.i16s(rt::COLROW, &[*cols, *rows]);
                self.i32s(rt::XY, xy);
            }
            NKind::Text { layer, texttype, presentation, pathtype, width, strans, xy, string } => {
                self.i16s(rt::LAYER, &[*layer]);
                self.i16s(rt::TEXTTYPE, &[*texttype]);
                if let Some(v) = presentation {
                    self.bits(rt::PRESENTATION, *v);
                }
                if let Some(v) = pathtype {
                    self.i16s(rt::PATHTYPE, &[*v]);
                }
                if let Some(v) = width {
                    self.i32s(rt::WIDTH, &[*v]);
                }
                self.strans(strans);
                self.i32s(rt::XY, xy);
                self.string(rt::STRING, string);
            }
            NKind::Node { layer, nodetype, xy } => {
                self.i16s(rt::LAYER, &[*layer]);
                self.i16s(rt::NODETYPE, &[*nodetype]);
                self.i32s(rt::XY, xy);
            }
            NKind::Box { layer, boxtype, xy } => {
                self.i16s(rt::LAYER, &[*layer]);
                self.i16s(rt::BOXTYPE, &[*boxtype]);
                self.i32s(rt::XY, xy);
            }
        }
        for (a, v) in &e.props {
            self.i16s(rt::PROPATTR, &[*a]);
            self.string(rt::PROPVALUE, v);
        }
        self.none(rt::ENDEL);
    }
    pub fn lib(&mut self, l: &NLib, opts: &EncOpts) {
        self.i16s(rt::HEADER, &[l.version]);
        self.i16s(rt::BGNLIB, &l.dates);
        // BNF: [LIBDIRSIZE] [SRFNAME] [LIBSECUR] LIBNAME [REFLIBS] [FONTS] [ATTRTABLE] [GENERATIONS] [<FormatType>]
        for o in &l.opts {
            match o {
                NLibOpt::LibDirSize(v) => self.i16s(rt::LIBDIRSIZE, &[*v]),
                NLibOpt::SrfName(s) => self.string(rt::SRFNAME, s),
                NLibOpt::LibSecur(v) => self.i16s(rt::LIBSECUR, v),
                _ => {}
            }
        }
        self.string(rt::LIBNAME, &l.name);
        for o in &l.opts {
            match o {
                NLibOpt::RefLibs(s) => self.string(rt::REFLIBS, s),
                NLibOpt::Fonts(s) => self.string(rt::FONTS, s),
                NLibOpt::AttrTable(s) => self.string(rt::ATTRTABLE, s),
                NLibOpt::Generations(v) => self.i16s(rt::GENERATIONS, &[*v]),
                NLibOpt::Format(v, masks) => {
                    self.i16s(rt::FORMAT, &[*v]);
                    if !masks.is_empty() {
                        for m in masks {
                            self.string(rt::MASK, m);
                        }
                        self.none(rt::ENDMASKS);
                    }
                }
                _ => {}
            }
        }
        self.reals(rt::UNITS, &[l.units.0, l.units.1]);
        for s in &l.structs {
            self.i16s(rt::BGNSTR, &s.dates);
            self.string(rt::STRNAME, &s.name);
            for e in &s.elems {
                self.elem(e);
            }
            self.none(rt::ENDSTR);
        }
        self.none(rt::ENDLIB);
        self.out.extend_from_slice(&opts.trailing);
    }
}
pub fn encode(l: &NLib, opts: &EncOpts) -> Enc {
    let mut e = Enc::new();
    e.lib(l, opts);
    e
}

// ------------------------------------------------------------------ strict decoder

#[derive(Debug, Clone)]
pub struct RawRec {
    pub rtype: u8,
    pub dtype: u8,
    pub payload: Vec<u8>,
    pub offset: usize,
}

/// Split bytes into records, checking the framing rules the specification states:
/// length even, >= 4, not running past the end; data type the one the spec assigns.
/// Stops after ENDLIB; returns the records and the number of bytes consumed.
pub fn split_records(bytes: &[u8]) -> Result<(Vec<RawRec>, usize), String> {
    let mut recs = Vec::new();
    let mut pos = 0usize;
    loop {
        if pos + 4 > bytes.len() {
            return Err(format!("stream ends at byte {} without ENDLIB", pos));
        }
        let len = u16::from_be_bytes([bytes[pos], bytes[pos + 1]]) as usize;
        if len < 4 {
            return Err(format!("record at {}: length {} < 4", pos, len));
        }
        if len % 2 != 0 {
            return Err(format!("record at {}: odd length {}", pos, len));
        }
        if pos + len > bytes.len() {
            return Err(format!("record at {}: length {} runs past end of stream ({})", pos, len, bytes.len()));
        }
        let (rtype, dtype) = (bytes[pos + 2], bytes[pos + 3]);
        match spec_dtype(rtype) {
            None => return Err(format!("record at {}: record type 0x{:02X} not valid here", pos, rtype)),
            Some(d) if d != dtype => return Err(format!("record at {}: type 0x{:02X} has data type {} but the spec assigns {}", pos, rtype, dtype, d)),
            _ => {}
        }
        recs.push(RawRec { rtype, dtype, payload: bytes[pos + 4..pos + len].to_vec(), offset: pos });
        pos += len;
        if rtype == rt::ENDLIB {
            return Ok((recs, pos));
        }
    }
}

struct P<'a> {
    recs: &'a [RawRec],
    i: usize,
}
impl<'a> P<'a> {
    fn peek(&self) -> Option<u8> {
        self.recs.get(self.i).map(|r| r.rtype)
    }
    fn take(&mut self, rtype: u8, what: &str) -> Result<&'a RawRec, String> {
        match self.recs.get(self.i) {
            Some(r) if r.rtype == rtype => {
                self.i += 1;
                Ok(r)
            }
            Some(r) => Err(format!("expected {} (0x{:02X}) at byte {}, found 0x{:02X}", what, rtype, r.offset, r.rtype)),
            None => Err(format!("expected {} but records ended", what)),
        }
    }
    fn opt(&mut self, rtype: u8) -> Option<&'a RawRec> {
        match self.recs.get(self.i) {
            Some(r) if r.rtype == rtype => {
                self.i += 1;
                Some(r)
            }
            _ => None,
        }
    }
}
fn i16s(r: &RawRec, n: Option<usize>) -> Result<Vec<i16>, String> {
    if r.payload.len() % 2 != 0 || n.map_or(false, |n| r.payload.len() != 2 * n) {
        return Err(format!("record 0x{:02X} at {}: bad payload length {}", r.rtype, r.offset, r.payload.len()));
    }
    Ok(r.payload.chunks(2).map(|c| i16::from_be_bytes([c[0], c[1]])).collect())
}
fn i32s(r: &RawRec, n: Option<usize>) -> Result<Vec<i32>, String> {
    if r.payload.len() % 4 != 0 || n.map_or(false, |n| r.payload.len() != 4 * n) {
        return Err(format!("record 0x{:02X} at {}: bad payload length {}", r.rtype, r.offset, r.payload.len()));
    }
    Ok(r.payload.chunks(4).map(|c| i32::from_be_bytes([c[0], c[1], c[2], c[3]])).collect())
}
fn reals(r: &RawRec, n: usize) -> Result<Vec<u64>, String> {
    if r.payload.len() != 8 * n {
        return Err(format!("record 0x{:02X} at {}: bad payload length {}", r.rtype, r.offset, r.payload.len()));
    }
    Ok(r.payload.chunks(8).map(|c| u64::from_be_bytes(c.try_into().unwrap())).collect())
}
fn bits2(r: &RawRec) -> Result<[u8; 2], String> {
    if r.payload.len() != 2 {
        return Err(format!("record 0x{:02X} at {}: bad payload length {}", r.rtype, r.offset, r.payload.len()));
    }
    Ok([r.payload[0], r.payload[1]])
}
fn none(r: &RawRec) -> Result<(), String> {
    if !r.payload.is_empty() {
        return Err(format!("record 0x{:02X} at {}: no-data record with payload", r.rtype, r.offset));
    }
    Ok(())
}
/// Logical string: payload minus one trailing NUL pad, if present
fn string(r: &RawRec) -> Vec<u8> {
    let mut s = r.payload.clone();
    if s.last() == Some(&0) {
        s.pop();
    }
    s
}

fn strans(p: &mut P) -> Result<Option<NStrans>, String> {
    if let Some(r) = p.opt(rt::STRANS) {
        let b = bits2(r)?;
        let mut s = NStrans { flags: u16::from_be_bytes(b), mag: None, angle: None };
        if let Some(r) = p.opt(rt::MAG) {
            s.mag = Some(reals(r, 1)?[0]);
        }
        if let Some(r) = p.opt(rt::ANGLE) {
            s.angle = Some(reals(r, 1)?[0]);
        }
        Ok(Some(s))
    } else {
        Ok(None)
    }
}

fn element(p: &mut P) -> Result<NElem, String> {
    let head = p.recs[p.i].rtype;
    none(&p.recs[p.i])?;
    p.i += 1;
    let elflags = match p.opt(rt::ELFLAGS) {
        Some(r) => Some(bits2(r)?),
        None => None,
    };
    let plex = match p.opt(rt::PLEX) {
        Some(r) => Some(i32s(r, Some(1))?[0]),
        None => None,
    };
    let o16 = |p: &mut P, t: u8| -> Result<Option<i16>, String> {
        match p.opt(t) {
            Some(r) => Ok(Some(i16s(r, Some(1))?[0])),
            None => Ok(None),
        }
    };
    let o32 = |p: &mut P, t: u8| -> Result<Option<i32>, String> {
        match p.opt(t) {
            Some(r) => Ok(Some(i32s(r, Some(1))?[0])),
            None => Ok(None),
        }
    };
    let kind = match head {
        rt::BOUNDARY => {
            let layer = i16s(p.take(rt::LAYER, "LAYER")?, Some(1))?[0];
            let datatype = i16s(p.take(rt::DATATYPE, "DATATYPE")?, Some(1))?[0];
            let xy = i32s(p.take(rt::XY, "XY")?, None)?;
            NKind::Boundary { layer, datatype, xy }
        }
        rt::PATH => {
            let layer = i16s(p.take(rt::LAYER, "LAYER")?, Some(1))?[0];
            let datatype = i16s(p.take(rt::DATATYPE, "DATATYPE")?, Some(1))?[0];
            let pathtype = o16(p, rt::PATHTYPE)?;
            let width = o32(p, rt::WIDTH)?;
            let bgnextn = o32(p, rt::BGNEXTN)?;
            let endextn = o32(p, rt::ENDEXTN)?;
            let xy = i32s(p.take(rt::XY, "XY")?, None)?;
            NKind::Path { layer, datatype, pathtype, width, bgnextn, endextn, xy }
        }
        rt::SREF => {
            let sname = string(p.take(rt::SNAME, "SNAME")?);
            let st = strans(p)?;
            let xy = i32s(p.take(rt::XY, "XY")?, None)?;
            NKind::Sref { sname, strans: st, xy }
        }
        rt::AREF => {
            let sname = string(p.take(rt::SNAME, "SNAME")?);
            let st = strans(p)?;
            let cr = i16s(p.take(rt::COLROW, "COLROW")?, Some(2))?;
            let xy = i32s(p.take(rt::XY, "XY")?, None)?;
            NKind::Aref { sname, strans: st, cols: cr[0], rows: cr[1], xy }
        }
        rt::TEXT => {
            let layer = i16s(p.take(rt::LAYER, "LAYER")?, Some(1))?[0];
            let texttype = i16s(p.take(rt::TEXTTYPE, "TEXTTYPE")?, Some(1))?[0];
            let presentation = match p.opt(rt::PRESENTATION) {
                Some(r) => Some(bits2(r)?),
                None => None,
            };
            let pathtype = o16(p, rt::PATHTYPE)?;
            let width = o32(p, rt::WIDTH)?;
            let st = strans(p)?;
            let xy = i32s(p.take(rt::XY, "XY")?, None)?;
            let s = string(p.take(rt::STRING, "STRING")?);
            NKind::Text { layer, texttype, presentation, pathtype, width, strans: st, xy, string: s }
        }
        rt::NODE => {
            let layer = i16s(p.take(rt::LAYER, "LAYER")?, Some(1))?[0];
            let nodetype = i16s(p.take(rt::NODETYPE, "NODETYPE")?, Some(1))?[0];
            let xy = i32s(p.take(rt::XY, "XY")?, None)?;
            NKind::Node { layer, nodetype, xy }
        }
        rt::BOX => {
            let layer = i16s(p.take(rt::LAYER, "LAYER")?, Some(1))?[0];
            let boxtype = i16s(p.take(rt::BOXTYPE, "BOXTYPE")?, Some(1))?[0];
            let xy = i32s(p.take(rt::XY, "XY")?, None)?;
            NKind::Box { layer, boxtype, xy }
        }
        other => return Err(format!("record 0x{:02X} cannot start an element", other)),
    };
    let mut props = Vec::new();
    while let Some(r) = p.opt(rt::PROPATTR) {
        let a = i16s(r, Some(1))?[0];
        let v = string(p.take(rt::PROPVALUE, "PROPVALUE")?);
        props.push((a, v));
    }
    none(p.take(rt::ENDEL, "ENDEL")?)?;
    Ok(NElem { elflags, plex, kind, props })
}

/// Strict BNF decode. `allow_trailing`: whether bytes after ENDLIB are acceptable (tape padding).
pub fn decode(bytes: &[u8], allow_trailing: bool) -> Result<NLib, String> {
    let (recs, used) = split_records(bytes)?;
    if !allow_trailing && used != bytes.len() {
        return Err(format!("{} bytes after ENDLIB", bytes.len() - used));
    }
    let mut p = P { recs: &recs, i: 0 };
    let mut lib = NLib::default();
    lib.version = i16s(p.take(rt::HEADER, "HEADER")?, Some(1))?[0];
    lib.dates = i16s(p.take(rt::BGNLIB, "BGNLIB")?, Some(12))?.try_into().unwrap();
    if let Some(r) = p.opt(rt::LIBDIRSIZE) {
        lib.opts.push(NLibOpt::LibDirSize(i16s(r, Some(1))?[0]));
    }
    if let Some(r) = p.opt(rt::SRFNAME) {
        lib.opts.push(NLibOpt::SrfName(string(r)));
    }
    if let Some(r) = p.opt(rt::LIBSECUR) {
        lib.opts.push(NLibOpt::LibSecur(i16s(r, None)?));
    }
    lib.name = string(p.take(rt::LIBNAME, "LIBNAME")?);
    if let Some(r) = p.opt(rt::REFLIBS) {
        lib.opts.push(NLibOpt::RefLibs(string(r)));
    }
    if let Some(r) = p.opt(rt::FONTS) {
        lib.opts.push(NLibOpt::Fonts(string(r)));
    }
    if let Some(r) = p.opt(rt::ATTRTABLE) {
        lib.opts.push(NLibOpt::AttrTable(string(r)));
    }
    if let Some(r) = p.opt(rt::GENERATIONS) {
        lib.opts.push(NLibOpt::Generations(i16s(r, Some(1))?[0]));
    }
    if let Some(r) = p.opt(rt::FORMAT) {
        let f = i16s(r, Some(1))?[0];
        let mut masks = Vec::new();
        while let Some(m) = p.opt(rt::MASK) {
            masks.push(string(m));
        }
        if !masks.is_empty() {
            none(p.take(rt::ENDMASKS, "ENDMASKS")?)?;
        }
        lib.opts.push(NLibOpt::Format(f, masks));
    }
    let u = reals(p.take(rt::UNITS, "UNITS")?, 2)?;
    lib.units = (u[0], u[1]);
    while let Some(r) = p.opt(rt::BGNSTR) {
        let mut s = NStruct { dates: i16s(r, Some(12))?.try_into().unwrap(), ..Default::default() };
        s.name = string(p.take(rt::STRNAME, "STRNAME")?);
        loop {
            match p.peek() {
                Some(rt::ENDSTR) => break,
                Some(_) => s.elems.push(element(&mut p)?),
                None => return Err("records ended inside a structure".into()),
            }
        }
        none(p.take(rt::ENDSTR, "ENDSTR")?)?;
        lib.structs.push(s);
    }
    none(p.take(rt::ENDLIB, "ENDLIB")?)?;
    if p.i != recs.len() {
        return Err("records after ENDLIB".into());
    }
    Ok(lib)
}

#[cfg(test)]
mod tests {
    use super::*;
    #[test]
    fn enc_dec_identity() {
        let lib = NLib {
            version: 600,
            dates: [1; 12],
            name: b"abc".to_vec(),
            units: (0x3E41_8937_4BC6_A7F0, 0x3944_B82F_A09B_5A54),
            opts: vec![],
            structs: vec![NStruct {
                dates: [2; 12],
                name: b"top".to_vec(),
                elems: vec![NElem {
                    elflags: Some([0, 1]),
                    plex: Some(7),
                    kind: NKind::Text { layer: 1, texttype: 2, presentation: Some([0, 5]), pathtype: Some(1), width: Some(-3),
                        strans: Some(NStrans { flags: 0x8006, mag: Some(0x4120_0000_0000_0000), angle: None }), xy: vec![1, -2], string: b"x".to_vec() },
                    props: vec![(1, b"v".to_vec()), (2, vec![])],
                }],
            }],
        };
        let e = encode(&lib, &EncOpts::default());
        assert_eq!(decode(&e.out, false).unwrap(), lib);
    }
}
