//! Dispatcher / worker / single-case child / replay entry points, evidence and findings.

use serde::{Deserialize, Serialize};
use serde_json::{json, Value};
use std::collections::BTreeMap;
use std::io::{Read, Write};
use std::os::unix::fs::FileExt;
use std::os::unix::process::ExitStatusExt;
use std::path::{Path, PathBuf};
use std::process::{Child, Command, Stdio};
use std::time::{Duration, Instant};

use super::guard::guard;
use super::prng::{mix, strhash, Rng};
use super::rec::*;

pub const VERIF_ROOT: &str = "/verif";

#[derive(Serialize, Deserialize, Debug, Clone)]
pub struct Finding {
    pub property: String,
    pub signature: String,
    pub status: String, // "open" | "fixed"
    #[serde(default)]
    pub commit: Option<String>,
    pub what: String,
}

pub fn load_findings() -> Vec<Finding> {
    let p = Path::new(VERIF_ROOT).join("known_findings.json");
    match std::fs::read_to_string(&p) {
        Ok(s) => serde_json::from_str(&s).unwrap_or_else(|e| {
            eprintln!("known_findings.json unreadable: {}", e);
            Vec::new()
        }),
        Err(_) => Vec::new(),
    }
}

fn case_seed(seed: u64, prop: &str, gen: &str, n: u64) -> u64 {
    mix(&[seed, strhash(prop), strhash(gen), n])
}

fn scratch_dir() -> PathBuf {
    let base = if Path::new("/dev/shm").is_dir() {
        PathBuf::from("/dev/shm")
    } else {
        std::env::temp_dir()
    };
    base.join(format!("lvh-{}", std::process::id()))
}

/// Run one case in this process, with a default panic net.
fn run_one_case(
    prop: &'static dyn Prop,
    rec: &mut Rec,
    tier: Tier,
    seed: u64,
    gen: &str,
    n: u64,
    scratch: &Path,
    is_child: bool,
) {
    let mut cx = Cx {
        rec,
        prop: prop.id(),
        tier,
        seed,
        gen: gen.to_string(),
        n,
        rng: Rng::new(case_seed(seed, prop.id(), gen, n)),
        scratch: scratch.to_path_buf(),
        is_child,
    };
    layout21utils::verif::reset();
    layout21utils::verif::set_logging(false);
    let _ = layout21utils::verif::take_events();
    let r = guard(|| prop.run_case(&mut cx));
    layout21utils::verif::reset();
    if let Err(c) = r {
        if c.in_harness() {
            cx.inconclusive(format!("harness panic at {}:{}: {}", c.file, c.line, c.msg));
            eprintln!(
                "HARNESS-PANIC {} {}:{} at {}:{}: {}",
                prop.id(),
                gen,
                n,
                c.file,
                c.line,
                c.msg
            );
        } else {
            let class = format!("uncaught-panic|{}|{}", c.site(), c.norm_msg());
            cx.violation(
                &class,
                json!({"panic": c.msg, "at": format!("{}:{}", c.file, c.line)}),
            );
        }
    }
    *cx.rec.cases_run.entry(gen.to_string()).or_insert(0) += 1;
}

// ---------------------------------------------------------------- child: one case

pub fn main_one(prop: &'static dyn Prop, tier: Tier, seed: u64, gen: &str, n: u64, out: &str) -> i32 {
    let scratch = scratch_dir();
    let _ = std::fs::create_dir_all(&scratch);
    let mut rec = Rec::default();
    // `miri-sample` is an alias of the property's interpreter-sized generator, unless the property has a generator of that name itself
    let gen = match (gen, prop.miri_gen()) {
        ("miri-sample", Some(g)) => g,
        _ => gen,
    };
    run_one_case(prop, &mut rec, tier, seed, gen, n, &scratch, true);
    write_rec(&rec, Path::new(out));
    let _ = std::fs::remove_dir_all(&scratch);
    0
}

fn write_rec(rec: &Rec, path: &Path) {
    let s = serde_json::to_vec(rec).unwrap();
    std::fs::write(path, s).unwrap();
    let mut bin = Vec::with_capacity(rec.nontrivial.len() * 8);
    for h in &rec.nontrivial {
        bin.extend_from_slice(&h.to_le_bytes());
    }
    std::fs::write(path.with_extension("nt"), bin).unwrap();
}
fn read_rec(path: &Path) -> Option<Rec> {
    let s = std::fs::read(path).ok()?;
    let mut rec: Rec = serde_json::from_slice(&s).ok()?;
    if let Ok(bin) = std::fs::read(path.with_extension("nt")) {
        for ch in bin.chunks_exact(8) {
            rec.nontrivial.insert(u64::from_le_bytes(ch.try_into().unwrap()));
        }
    }
    Some(rec)
}

#[derive(Debug)]
pub enum ChildEnd {
    Ok(Rec),
    Signal(i32, String),
    ExitCode(i32, String),
    Timeout,
}

/// Spawn `lvh one ...` for a single case and wait with a timeout.
pub fn spawn_one(prop_id: &str, tier: Tier, seed: u64, gen: &str, n: u64, scratch: &Path, timeout: Duration) -> ChildEnd {
    spawn_one_env(prop_id, tier, seed, gen, n, scratch, timeout, &[])
}
/// The same with extra environment variables for the child (time zone, locale, ...).
#[allow(clippy::too_many_arguments)]
pub fn spawn_one_env(
    prop_id: &str,
    tier: Tier,
    seed: u64,
    gen: &str,
    n: u64,
    scratch: &Path,
    timeout: Duration,
    env: &[(&str, &str)],
) -> ChildEnd {
    let out = scratch.join(format!("one-{}-{}-{}.json", std::process::id(), strhash(gen) % 100000, n));
    let exe = std::env::current_exe().unwrap();
    let mut child = Command::new(exe)
        .args([
            "one",
            prop_id,
            "--tier",
            tier.name(),
            "--seed",
            &seed.to_string(),
            "--gen",
            gen,
            "--n",
            &n.to_string(),
            "--out",
            out.to_str().unwrap(),
        ])
        .envs(env.iter().map(|(k, v)| (k.to_string(), v.to_string())))
        .stdin(Stdio::null())
        .stdout(Stdio::null())
        .stderr(Stdio::piped())
        .spawn()
        .expect("spawn child");
    let start = Instant::now();
    let status = loop {
        match child.try_wait() {
            Ok(Some(st)) => break Some(st),
            Ok(None) => {
                if start.elapsed() > timeout {
                    let _ = child.kill();
                    let _ = child.wait();
                    break None;
                }
                std::thread::sleep(Duration::from_millis(2));
            }
            Err(_) => break None,
        }
    };
    let mut err = String::new();
    if let Some(mut e) = child.stderr.take() {
        let mut buf = Vec::new();
        let _ = e.read_to_end(&mut buf);
        err = String::from_utf8_lossy(&buf).chars().take(600).collect();
    }
    let res = match status {
        None => ChildEnd::Timeout,
        Some(st) => {
            if let Some(sig) = st.signal() {
                ChildEnd::Signal(sig, err)
            } else if st.success() {
                match read_rec(&out) {
                    Some(r) => ChildEnd::Ok(r),
                    None => ChildEnd::ExitCode(0, "no result file".into()),
                }
            } else {
                ChildEnd::ExitCode(st.code().unwrap_or(-1), err)
            }
        }
    };
    let _ = std::fs::remove_file(&out);
    let _ = std::fs::remove_file(out.with_extension("nt"));
    res
}

fn crash_class(sig: i32, stderr: &str) -> String {
    // (under AddressSanitizer a stack overflow is reported by the sanitizer runtime, as "AddressSanitizer: stack-overflow", and ends in SIGABRT)
    if stderr.contains("overflowed its stack") || stderr.contains("AddressSanitizer: stack-overflow") {
        "crash|stack-overflow".to_string()
    } else if stderr.contains("memory allocation of") {
        "crash|alloc-failure".to_string()
    } else {
        format!("crash|signal-{}", sig)
    }
}

/// Run one case isolated in a child process, folding the outcome into `rec`.
pub fn run_isolated(
    prop: &'static dyn Prop,
    rec: &mut Rec,
    tier: Tier,
    seed: u64,
    gen: &str,
    n: u64,
    scratch: &Path,
) {
    let timeout = Duration::from_secs(prop.case_timeout_secs());
    let mut timeouts = 0;
    loop {
        match spawn_one(prop.id(), tier, seed, gen, n, scratch, timeout) {
            ChildEnd::Ok(r) => {
                rec.merge(r);
                return;
            }
            ChildEnd::Signal(sig, err) => {
                rec.evaluations += 1;
                *rec.cases_run.entry(gen.to_string()).or_insert(0) += 1;
                rec.add_violation(Violation {
                    signature: format!("{}|{}", gen, crash_class(sig, &err)),
                    gen: gen.to_string(),
                    n,
                    detail: json!({"signal": sig, "stderr": err}),
                });
                return;
            }
            ChildEnd::ExitCode(code, err) => {
                rec.inconclusive
                    .push(format!("{}:{}: child exit code {} {}", gen, n, code, err));
                return;
            }
            ChildEnd::Timeout => {
                timeouts += 1;
                if timeouts >= 3 {
                    rec.evaluations += 1;
                    *rec.cases_run.entry(gen.to_string()).or_insert(0) += 1;
                    rec.add_violation(Violation {
                        signature: format!("{}|hang", gen),
                        gen: gen.to_string(),
                        n,
                        detail: json!({"timeout_s": timeout.as_secs(), "reproduced": 3}),
                    });
                    return;
                }
            }
        }
    }
}

// ---------------------------------------------------------------- worker

pub fn main_worker(
    prop: &'static dyn Prop,
    tier: Tier,
    seed: u64,
    shard: u64,
    nshards: u64,
    outdir: &str,
    skip: &[(String, u64)],
) -> i32 {
    let scratch = scratch_dir();
    let _ = std::fs::create_dir_all(&scratch);
    let outdir = PathBuf::from(outdir);
    let progress = std::fs::OpenOptions::new()
        .create(true)
        .write(true)
        .open(outdir.join(format!("progress-{}", shard)))
        .unwrap();
    let mut rec = Rec::default();
    for g in prop.plan(tier) {
        let mut n = shard;
        while n < g.count {
            if skip.iter().any(|(sg, sn)| sg == g.name && (*sn == n || *sn == u64::MAX)) {
                n += nshards;
                continue;
            }
            let line = format!("{:<40} {:>20}\n", g.name, n);
            let _ = progress.write_at(line.as_bytes(), 0);
            if g.isolate {
                run_isolated(prop, &mut rec, tier, seed, g.name, n, &scratch);
            } else {
                run_one_case(prop, &mut rec, tier, seed, g.name, n, &scratch, false);
            }
            n += nshards;
        }
    }
    write_rec(&rec, &outdir.join(format!("shard-{}.json", shard)));
    let _ = std::fs::remove_dir_all(&scratch);
    0
}

// ---------------------------------------------------------------- dispatcher

struct Shard {
    idx: u64,
    child: Option<Child>,
    skip: Vec<(String, u64)>,
    crashes: u32,
    done: bool,
    /// last progress seen and when it last changed (stall detection)
    at: Option<(String, u64)>,
    since: Instant,
}

fn spawn_worker(
    prop_id: &str,
    tier: Tier,
    seed: u64,
    shard: u64,
    nshards: u64,
    outdir: &Path,
    skip: &[(String, u64)],
) -> Child {
    let exe = std::env::current_exe().unwrap();
    let mut cmd = Command::new(exe);
    cmd.args([
        "worker",
        prop_id,
        "--tier",
        tier.name(),
        "--seed",
        &seed.to_string(),
        "--shard",
        &format!("{}/{}", shard, nshards),
        "--outdir",
        outdir.to_str().unwrap(),
    ]);
    if !skip.is_empty() {
        let s: Vec<String> = skip.iter().map(|(g, n)| format!("{}:{}", g, n)).collect();
        cmd.args(["--skip", &s.join(",")]);
    }
    let log = std::fs::OpenOptions::new()
        .create(true)
        .append(true)
        .open(outdir.join(format!("worker-{}.log", shard)))
        .unwrap();
    let log2 = log.try_clone().unwrap();
    cmd.stdin(Stdio::null()).stdout(log).stderr(log2);
    cmd.spawn().expect("spawn worker")
}

fn read_progress(outdir: &Path, shard: u64) -> Option<(String, u64)> {
    let s = std::fs::read_to_string(outdir.join(format!("progress-{}", shard))).ok()?;
    let mut it = s.split_whitespace();
    let g = it.next()?.to_string();
    let n = it.next()?.parse().ok()?;
    Some((g, n))
}

pub fn main_run(prop: &'static dyn Prop, tier: Tier, seed: u64) -> i32 {
    let t0 = Instant::now();
    let outdir = scratch_dir();
    let _ = std::fs::remove_dir_all(&outdir);
    std::fs::create_dir_all(&outdir).unwrap();
    let plan = prop.plan(tier);
    let total_cases: u64 = plan.iter().map(|g| g.count).sum();
    let ncpu = std::thread::available_parallelism().map(|n| n.get()).unwrap_or(4) as u64;
    let nshards = std::env::var("VERIF_SHARDS")
        .ok()
        .and_then(|s| s.parse().ok())
        .unwrap_or(ncpu.min(16))
        .min(total_cases.max(1))
        .max(1);
    let mut shards: Vec<Shard> = (0..nshards)
        .map(|i| Shard {
            idx: i,
            child: Some(spawn_worker(prop.id(), tier, seed, i, nshards, &outdir, &[])),
            skip: vec![],
            crashes: 0,
            done: false,
            at: None,
            since: Instant::now(),
        })
        .collect();
    let mut total = Rec::default();
    let deadline = Duration::from_secs(
        std::env::var("VERIF_WATCHDOG_S")
            .ok()
            .and_then(|s| s.parse().ok())
            .unwrap_or(prop.watchdog_secs(tier)),
    );
    let mut watchdog_fired = false;
    let mut last_poll = Instant::now();
    loop {
        let mut all_done = true;
        for sh in shards.iter_mut() {
            if sh.done {
                continue;
            }
            all_done = false;
            let st = sh.child.as_mut().unwrap().try_wait().unwrap();
            if let Some(st) = st {
                if st.success() {
                    match read_rec(&outdir.join(format!("shard-{}.json", sh.idx))) {
                        Some(r) => total.merge(r),
                        None => total
                            .inconclusive
                            .push(format!("shard {}: no result file", sh.idx)),
                    }
                    sh.done = true;
                } else {
                    // Worker died: attribute to the case in its progress file, confirm isolated, re-run shard without it
                    let at = read_progress(&outdir, sh.idx);
                    sh.crashes += 1;
                    match at {
                        Some((g, n)) if sh.crashes <= 8 => {
                            eprintln!(
                                "worker {} died ({:?}) at {}:{}; confirming in isolation",
                                sh.idx, st, g, n
                            );
                            run_isolated(prop, &mut total, tier, seed, &g, n, &outdir);
                            sh.skip.push((g, n));
                            sh.child = Some(spawn_worker(
                                prop.id(),
                                tier,
                                seed,
                                sh.idx,
                                nshards,
                                &outdir,
                                &sh.skip,
                            ));
                        }
                        _ => {
                            total.inconclusive.push(format!(
                                "shard {}: worker died {:?} (crashes={}), results lost",
                                sh.idx, st, sh.crashes
                            ));
                            sh.done = true;
                        }
                    }
                }
            }
        }
        if all_done {
            break;
        }
        // Stall detection: a worker sitting on one case for too long is killed; the case is confirmed in isolation
        if last_poll.elapsed() > Duration::from_millis(500) {
            last_poll = Instant::now();
            for sh in shards.iter_mut() {
                if sh.done {
                    continue;
                }
                let cur = read_progress(&outdir, sh.idx);
                if cur != sh.at {
                    sh.at = cur;
                    sh.since = Instant::now();
                    continue;
                }
                let (g, n) = match &sh.at {
                    Some(x) => x.clone(),
                    None => continue,
                };
                let isolated = plan.iter().any(|p| p.name == g && p.isolate);
                let limit = if isolated { 3 * prop.case_timeout_secs() + 30 } else { prop.stall_secs(tier) };
                if sh.since.elapsed() < Duration::from_secs(limit) {
                    continue;
                }
                if let Some(c) = sh.child.as_mut() {
                    let _ = c.kill();
                    let _ = c.wait();
                }
                sh.crashes += 1;
                let hang_sig = format!("{}|hang", g);
                let already = total.violation_counts.contains_key(&hang_sig);
                eprintln!("worker {} stalled {}s at {}:{}; {}", sh.idx, limit, g, n, if already { "generator already has a confirmed hang, skipping its remaining cases in this shard" } else { "confirming in isolation" });
                if already {
                    *total.violation_counts.entry(hang_sig).or_insert(0) += 1;
                    sh.skip.push((g.clone(), u64::MAX));
                } else {
                    run_isolated(prop, &mut total, tier, seed, &g, n, &outdir);
                    sh.skip.push((g.clone(), n));
                }
                if sh.crashes <= 8 {
                    sh.child = Some(spawn_worker(prop.id(), tier, seed, sh.idx, nshards, &outdir, &sh.skip));
                    sh.at = None;
                    sh.since = Instant::now();
                } else {
                    total.inconclusive.push(format!("shard {}: stalled/crashed {} times, results lost", sh.idx, sh.crashes));
                    sh.done = true;
                }
            }
        }
        if t0.elapsed() > deadline {
            watchdog_fired = true;
            for sh in shards.iter_mut() {
                if !sh.done {
                    if let Some(c) = sh.child.as_mut() {
                        let _ = c.kill();
                        let _ = c.wait();
                    }
                    let at = read_progress(&outdir, sh.idx);
                    total.inconclusive.push(format!(
                        "watchdog {}s fired; shard {} was at {:?}",
                        deadline.as_secs(),
                        sh.idx,
                        at
                    ));
                    sh.done = true;
                }
            }
            break;
        }
        std::thread::sleep(Duration::from_millis(20));
    }
    // Surface harness panics logged by workers
    for sh in &shards {
        if let Ok(s) = std::fs::read_to_string(outdir.join(format!("worker-{}.log", sh.idx))) {
            for l in s.lines().filter(|l| l.starts_with("HARNESS-PANIC")).take(3) {
                eprintln!("{}", l);
            }
        }
    }
    // Non-vacuity: every planned generator must have run all its cases (unless the watchdog fired)
    if !watchdog_fired {
        for g in &plan {
            let ran = total.cases_run.get(g.name).copied().unwrap_or(0);
            if ran < g.count {
                total.inconclusive.push(format!(
                    "generator {} ran {} of {} cases",
                    g.name, ran, g.count
                ));
            }
        }
    }
    prop.finish(&mut total, tier);
    let code = conclude(prop, tier, seed, &plan, total, t0.elapsed().as_secs_f64());
    let _ = std::fs::remove_dir_all(&outdir);
    code
}

/// Apply known findings, write evidence + replay files, print verdict lines. Returns the exit code.
fn conclude(
    prop: &'static dyn Prop,
    tier: Tier,
    seed: u64,
    plan: &[GenSpec],
    total: Rec,
    wall: f64,
) -> i32 {
    let id = prop.id();
    let findings: Vec<Finding> = load_findings()
        .into_iter()
        .filter(|f| f.property == id)
        .collect();
    let mut unlisted: BTreeMap<String, Vec<&Violation>> = BTreeMap::new();
    let mut known: BTreeMap<String, (String, u64)> = BTreeMap::new();
    for v in &total.violations {
        let open = findings
            .iter()
            .find(|f| f.status == "open" && f.signature == v.signature);
        match open {
            Some(f) => {
                let cnt = total.violation_counts.get(&v.signature).copied().unwrap_or(1);
                known.insert(v.signature.clone(), (f.what.clone(), cnt));
            }
            None => unlisted.entry(v.signature.clone()).or_default().push(v),
        }
    }
    let replay_dir = Path::new(VERIF_ROOT).join("replay");
    let _ = std::fs::create_dir_all(&replay_dir);
    let mut viol_lines = Vec::new();
    for (sig, vs) in &unlisted {
        let v = vs[0];
        let h = strhash(sig) % 0xFFFF_FFFF;
        let path = replay_dir.join(format!("{}-{:08x}.json", id, h));
        let doc = json!({
            "property": id, "signature": sig, "gen": v.gen, "n": v.n, "seed": seed,
            "tier": tier.name(), "count": total.violation_counts.get(sig).copied().unwrap_or(1),
            "detail": v.detail,
        });
        let _ = std::fs::write(&path, serde_json::to_string_pretty(&doc).unwrap());
        viol_lines.push(format!(
            "VIOLATION property={} replay={}",
            id,
            path.to_string_lossy()
        ));
    }
    for (sig, (what, cnt)) in &known {
        println!(
            "KNOWN-FINDING: property={} {} [signature={} occurrences={}]",
            id, what, sig, cnt
        );
    }
    for l in &viol_lines {
        println!("{}", l);
    }
    for (sig, vs) in unlisted.iter().take(12) {
        let d = serde_json::to_string(&vs[0].detail).unwrap_or_default();
        let d: String = d.chars().take(700).collect();
        println!("  witness signature={} gen={} n={} detail={}", sig, vs[0].gen, vs[0].n, d);
    }
    for why in total.inconclusive.iter().take(10) {
        println!("INCONCLUSIVE property={} reason={}", id, why);
    }
    // Evidence
    let distinct = total.nontrivial.len() as u64;
    let mut samples: Vec<Value> = total
        .samples
        .iter()
        .take(8)
        .map(|(g, v)| json!({"generator": g, "case": v}))
        .collect();
    if samples.is_empty() {
        samples.push(json!({"note": "no samples recorded"}));
    }
    let exhaustive = !plan.is_empty()
        && plan.iter().all(|g| g.exhaustive)
        && total.inconclusive.is_empty();
    let gens: Vec<Value> = plan
        .iter()
        .map(|g| {
            json!({"name": g.name, "planned": g.count, "ran": total.cases_run.get(g.name).copied().unwrap_or(0),
                   "exhaustive": g.exhaustive, "isolated": g.isolate})
        })
        .collect();
    let ev = json!({
        "property_id": id,
        "tier": tier.name(),
        "seed": seed as i64,
        "level": prop.level(),
        "coverage": {
            "evaluations": total.evaluations,
            "distinct_nontrivial": distinct,
            "distinct_dropped_after_cap": total.nontrivial_dropped,
            "rule": prop.rule(),
            "samples": samples,
            "exhaustive": exhaustive,
            "generators": gens,
            "observed": total.counters,
            "known_findings_matched": known.iter().map(|(s,(w,c))| json!({"signature": s, "what": w, "occurrences": c})).collect::<Vec<_>>(),
            "unlisted_violation_signatures": unlisted.keys().collect::<Vec<_>>(),
            "inconclusive": total.inconclusive.len(),
            "inconclusive_reasons": total.inconclusive.iter().take(10).collect::<Vec<_>>(),
        },
        "assumptions": prop.assumptions(),
        "wall_s": wall,
        "violations": unlisted.len(),
    });
    let evdir = Path::new(VERIF_ROOT).join("evidence");
    let _ = std::fs::create_dir_all(&evdir);
    let evpath = std::env::var("VERIF_EVIDENCE_OUT")
        .map(PathBuf::from)
        .unwrap_or(evdir.join(format!("{}.json", id)));
    std::fs::write(&evpath, serde_json::to_string_pretty(&ev).unwrap()).unwrap();
    let verdict = if !unlisted.is_empty() {
        "violated"
    } else if !total.inconclusive.is_empty() {
        "inconclusive"
    } else {
        "held"
    };
    println!(
        "SUMMARY property={} tier={} seed={} verdict={} evaluations={} distinct_nontrivial={} known_findings={} unlisted={} inconclusive={} wall_s={:.1}",
        id, tier.name(), seed, verdict, total.evaluations, distinct, known.len(), unlisted.len(), total.inconclusive.len(), wall
    );
    std::io::stdout().flush().ok();
    if unlisted.is_empty() {
        0
    } else {
        1
    }
}

// ---------------------------------------------------------------- replay

pub fn main_replay(prop: &'static dyn Prop, file: &str) -> i32 {
    let s = match std::fs::read_to_string(file) {
        Ok(s) => s,
        Err(e) => {
            eprintln!("cannot read {}: {}", file, e);
            return 2;
        }
    };
    let doc: Value = serde_json::from_str(&s).unwrap();
    let gen = doc["gen"].as_str().unwrap().to_string();
    let n = doc["n"].as_u64().unwrap();
    let seed = doc["seed"].as_u64().unwrap_or(1);
    let tier = Tier::parse(doc["tier"].as_str().unwrap_or("quick")).unwrap();
    let scratch = scratch_dir();
    let _ = std::fs::create_dir_all(&scratch);
    let mut rec = Rec::default();
    run_isolated(prop, &mut rec, tier, seed, &gen, n, &scratch);
    let _ = std::fs::remove_dir_all(&scratch);
    let want = doc["signature"].as_str().unwrap_or("");
    let mut hit = false;
    for v in &rec.violations {
        println!(
            "replayed violation signature={} detail={}",
            v.signature,
            serde_json::to_string(&v.detail).unwrap()
        );
        if v.signature == want {
            hit = true;
        }
    }
    if hit {
        println!("VIOLATION property={} replay={}", prop.id(), file);
        1
    } else {
        println!("replay of {}:{} did not reproduce signature {}", gen, n, want);
        0
    }
}
