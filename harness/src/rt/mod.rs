pub mod guard;
pub mod prng;
pub mod rec;
pub mod run;
pub use guard::{guard, Caught};
pub use prng::Rng;
pub use rec::*;

/// A destination that runs full: it takes `cap` bytes in all and answers every later `write` with an error (a full disk, a quota, a fixed
/// buffer, a closed pipe). A writer that reports success on it has lost data unless everything fitted.
pub struct FullDisk {
    pub inner: Vec<u8>,
    pub cap: usize,
}
impl std::io::Write for FullDisk {
    fn write(&mut self, buf: &[u8]) -> std::io::Result<usize> {
        let room = self.cap.saturating_sub(self.inner.len());
        if room == 0 && !buf.is_empty() {
            return Err(std::io::Error::new(std::io::ErrorKind::Other, "no space left on device"));
        }
        let n = buf.len().min(room);
        self.inner.extend_from_slice(&buf[..n]);
        Ok(n)
    }
    fn flush(&mut self) -> std::io::Result<()> {
        Ok(())
    }
}
/// A legal `std::io::Write` destination that accepts at most `max` bytes per call (as pipes, sockets and block-limited sinks do):
/// code that calls `write` where `write_all` is meant loses data on it.
pub struct ShortWriter {
    pub inner: Vec<u8>,
    pub max: usize,
}
impl std::io::Write for ShortWriter {
    fn write(&mut self, buf: &[u8]) -> std::io::Result<usize> {
        let n = buf.len().min(self.max.max(1));
        self.inner.extend_from_slice(&buf[..n]);
        Ok(n)
    }
    fn flush(&mut self) -> std::io::Result<()> {
        Ok(())
    }
}


/// Run `f(path)` with `path` a NAMED PIPE through which a second thread delivers `bytes`, cut at the (ascending) offsets `cuts` into chunks
/// written about 2 ms apart: a source that is not seekable, reports length 0, and hands out what it has (short reads) - `cat x | tool /dev/stdin`,
/// `<(zcat x.gz)`. Returns None if no pipe could be made (no `mkfifo`): the caller counts that, it is not a verdict.
pub fn with_fifo<T>(path: &std::path::Path, bytes: &[u8], cuts: &[usize], f: impl FnOnce(&std::path::Path) -> T) -> Option<T> {
    use std::io::Write;
    use std::os::unix::fs::OpenOptionsExt;
    let _ = std::fs::remove_file(path);
    let made = std::process::Command::new("mkfifo").arg(path).status().map(|s| s.success()).unwrap_or(false);
    if !made {
        return None;
    }
    let out = std::thread::scope(|sc| {
        let w = sc.spawn(|| {
            // blocks until a reader opens the pipe
            if let Ok(mut p) = std::fs::OpenOptions::new().write(true).open(path) {
                let mut at = 0;
                for &c in cuts.iter().chain(std::iter::once(&bytes.len())) {
                    let c = c.min(bytes.len());
                    if c > at {
                        if p.write_all(&bytes[at..c]).is_err() || p.flush().is_err() {
                            break; // the reader went away
                        }
                        at = c;
                        std::thread::sleep(std::time::Duration::from_millis(2));
                    }
                }
            }
        });
        let r = f(path);
        // if `f` never opened the pipe the writer is still waiting for a reader: be one, without blocking (O_NONBLOCK), then leave
        let _ = std::fs::OpenOptions::new().read(true).custom_flags(0o4000).open(path);
        let _ = w.join();
        r
    });
    let _ = std::fs::remove_file(path);
    Some(out)
}
