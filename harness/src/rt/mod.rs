pub mod guard;
pub mod prng;
pub mod rec;
pub mod run;
pub use guard::{guard, Caught};
pub use prng::Rng;
pub use rec::*;
