pub mod guard;
pub mod prng;
pub mod rec;
pub mod run;
pub use guard::{guard, Caught};
pub use prng::Rng;
pub use rec::*;

/// A legal `std::io::Write` destination that accepts at most `max` bytes per call (as pipes, sockets and block-limited sinks do):
/// code that calls `write` where `write_all` is meant loses data on it.
pub struct ShortWriter {
    pub inner: Vec<u8>,
    pub max: usize,
}
impl std::io::Write for ShortWriter {
    fn write(&mut self, buf: &[u8]) -> std::io::Result<usize> {
        let n = buf.len().min(self.max.max(1));
        self.inner.extend_from_slice(&buf[..n]);
        Ok(n)
    }
    fn flush(&mut self) -> std::io::Result<()> {
        Ok(())
    }
}
