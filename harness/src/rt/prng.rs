//! splitmix64 -> xoshiro256** PRNG. No external crates; fully determined by the seed.

pub fn splitmix64(state: &mut u64) -> u64 {
    *state = state.wrapping_add(0x9E37_79B9_7F4A_7C15);
    let mut z = *state;
    z = (z ^ (z >> 30)).wrapping_mul(0xBF58_476D_1CE4_E5B9);
    z = (z ^ (z >> 27)).wrapping_mul(0x94D0_49BB_1331_11EB);
    z ^ (z >> 31)
}
/// Mix several words into one seed
pub fn mix(words: &[u64]) -> u64 {
    let mut s = 0x1234_5678_9ABC_DEF0u64;
    for w in words {
        s ^= *w;
        splitmix64(&mut s);
        s = s.rotate_left(23) ^ splitmix64(&mut s);
    }
    s
}
/// FNV-1a of a string, for hashing generator names into seeds
pub fn strhash(s: &str) -> u64 {
    let mut h = 0xcbf2_9ce4_8422_2325u64;
    for b in s.as_bytes() {
        h ^= *b as u64;
        h = h.wrapping_mul(0x100_0000_01b3);
    }
    h
}
pub fn byteshash(s: &[u8]) -> u64 {
    let mut h = 0xcbf2_9ce4_8422_2325u64;
    for b in s {
        h ^= *b as u64;
        h = h.wrapping_mul(0x100_0000_01b3);
    }
    h
}

#[derive(Clone, Debug)]
pub struct Rng {
    s: [u64; 4],
}
impl Rng {
    pub fn new(seed: u64) -> Self {
        let mut st = seed;
        let s = [
            splitmix64(&mut st),
            splitmix64(&mut st),
            splitmix64(&mut st),
            splitmix64(&mut st),
        ];
        Rng { s }
    }
    pub fn u64(&mut self) -> u64 {
        let result = self.s[1].wrapping_mul(5).rotate_left(7).wrapping_mul(9);
        let t = self.s[1] << 17;
        self.s[2] ^= self.s[0];
        self.s[3] ^= self.s[1];
        self.s[1] ^= self.s[2];
        self.s[0] ^= self.s[3];
        self.s[2] ^= t;
        self.s[3] = self.s[3].rotate_left(45);
        result
    }
    pub fn u32(&mut self) -> u32 {
        (self.u64() >> 32) as u32
    }
    /// Uniform in [0, n)
    pub fn below(&mut self, n: u64) -> u64 {
        if n == 0 {
            return 0;
        }
        // Lemire-style, bias negligible for our n
        ((self.u64() as u128 * n as u128) >> 64) as u64
    }
    pub fn usize(&mut self, n: usize) -> usize {
        self.below(n as u64) as usize
    }
    /// Uniform in [lo, hi] inclusive
    pub fn range(&mut self, lo: i64, hi: i64) -> i64 {
        debug_assert!(lo <= hi);
        let span = (hi as i128 - lo as i128 + 1) as u128;
        let r = ((self.u64() as u128 * span) >> 64) as i128;
        (lo as i128 + r) as i64
    }
    pub fn bool(&mut self) -> bool {
        self.u64() & 1 == 1
    }
    /// True with probability num/den
    pub fn chance(&mut self, num: u64, den: u64) -> bool {
        self.below(den) < num
    }
    pub fn pick<'a, T>(&mut self, xs: &'a [T]) -> &'a T {
        &xs[self.usize(xs.len())]
    }
    pub fn shuffle<T>(&mut self, xs: &mut [T]) {
        for i in (1..xs.len()).rev() {
            let j = self.usize(i + 1);
            xs.swap(i, j);
        }
    }
    pub fn f64_unit(&mut self) -> f64 {
        (self.u64() >> 11) as f64 / (1u64 << 53) as f64
    }
}
