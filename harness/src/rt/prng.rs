//! splitmix64 -> xoshiro256** PRNG. No external crates; fully determined by the seed.

pub fn splitmix64(state: &mut u64) -> u64 {
    *state = state.wrapping_add(0x9E37_79B9_7F4A_7C15);
    let mut z = *state;
    z = (z ^ (z >> 30)).wrapping_mul(0xBF58_476D_1CE4_E5B9);
    z = (z ^ (z >> 27)).wrapping_mul(0x94D0_49BB_1331_11EB);
    z ^ (z >> 31)
}
/// Mix several words into one seed
pub fn mix(words: &[u64]) -> u64 {
    let mut s = 0x1234_5678_9ABC_DEF0u64;
    for w in words {
        s ^= *w;
        splitmix64(&mut s);
        s = s.rotate_left(23) ^ splitmix64(&mut s);
    }
    s
}
/// FNV-1a of a string, for hashing generator names into seeds
pub fn strhash(s: &str) -> u64 {
    let mut h = 0xcbf2_9ce4_8422_2325u64;
    for b in s.as_bytes() {
        h ^= *b as u64;
        h = h.wrapping_mul(0x100_0000_01b3);
    }
    h
}
pub fn byteshash(s: &[u8]) -> u64 {
    let mut h = 0xcbf2_9ce4_8422_2325u64;
    for b in s {
        h ^= *b as u64;
        h = h.wrapping_mul(0x100_0000_01b3);
    }
    h
}

#[derive(Clone, Debug)]
pub struct Rng {
    s: [u64; 4],
}
impl Rng {
    pub fn new(seed: u64) -> Self {
        let mut st = seed;
        let s = [
            splitmix64(&mut st),
            splitmix64(&mut st),
            splitmix64(&mut st),
            splitmix64(&mut st),
        ];
        Rng { s }
    }
    pub fn u64(&mut self) -> u64 {
        let result = self.s[1].wrapping_mul(5).rotate_left(7).wrapping_mul(9);
        let t = self.s[1] << 17;
        self.s[2] ^= self.s[0];
        self.s[3] ^= self.s[1];
        self.s[1] ^= self.s[2];
        self.s[0] ^= self.s[3];
        self.s[2] ^= t;
        self.s[3] = self.s[3].rotate_left(45);
        result
    }
    pub fn u32(&mut self) -> u32 {
        (self.u64() >> 32) as u32
    }
    /// Uniform in [0, n)
    pub fn below(&mut self, n: u64) -> u64 {
        if n == 0 {
            return 0;
        }
        // Lemire-style, bias negligible for our n
        ((self.u64() as u128 * n as u128) >> 64) as u64
    }
    pub fn usize(&mut self, n: usize) -> usize {
        self.below(n as u64) as usize
    }
    /// Uniform in [lo, hi] inclusive
    pub fn range(&mut self, lo: i64, hi: i64) -> i64 {
        debug_assert!(lo <= hi);
        let span = (hi as i128 - lo as i128 + 1) as u128;
        let r = ((self.u64() as u128 * span) >> 64) as i128;
        (lo as i128 + r) as i64
    }
    pub fn bool(&mut self) -> bool {
        self.u64() & 1 == 1
    }
    /// True with probability num/den
    pub fn chance(&mut self, num: u64, den: u64) -> bool {
        self.below(den) < num
    }
    pub fn pick<'a, T>(&mut self, xs: &'a [T]) -> &'a T {
        &xs[self.usize(xs.len())]
    }
    pub fn shuffle<T>(&mut self, xs: &mut [T]) {
        for i in (1..xs.len()).rev() {
            let j = self.usize(i + 1);
            xs.swap(i, j);
        }
    }
    pub fn f64_unit(&mut self) -> f64 {
        (self.u64() >> 11) as f64 / (1u64 << 53) as f64
    }
}

/// A family of names of one length that differ from each other in a single position only (two positions beyond 52 members): the structured
/// names of real libraries (`sky130_fd_sc_hs__inv_1` / `sky130_fd_sc_ls__inv_1`, `..._row_017_...` / `..._row_018_...`). The position is
/// anywhere - first character, last, just before the last eight, past the 32nd or 48th - and the length anything from 9 to 80 bytes.
#[derive(Clone, Debug)]
pub struct NameFamily {
    base: Vec<u8>,
    pos: usize,
}
impl NameFamily {
    pub fn random(rng: &mut Rng) -> Self {
        let len = match rng.below(4) {
            0 => 9 + rng.usize(16),
            1 => 17 + rng.usize(16),
            2 => 33 + rng.usize(24),
            _ => 40 + rng.usize(41),
        };
        let base: Vec<u8> = (0..len).map(|i| if i % 7 == 6 { b'_' } else { *rng.pick(b"abcdefghijklmnopqrstuvwxyz0123456789") }).collect();
        let pos = match rng.below(6) {
            0 => 0,
            1 => len - 1,
            2 => len - 9 - rng.usize(len.min(16) - 8).min(len - 9),
            3 => len / 2,
            _ => rng.usize(len),
        };
        NameFamily { base, pos }
    }
    pub fn name(&self, i: usize) -> String {
        const L: &[u8; 52] = b"abcdefghijklmnopqrstuvwxyzABCDEFGHIJKLMNOPQRSTUVWXYZ";
        let mut v = self.base.clone();
        v[0] = b'n';
        v[self.pos] = L[i % 52];
        let second = (self.pos + 1) % v.len();
        v[second] = L[(i / 52) % 52];
        String::from_utf8(v).unwrap()
    }
}
