//! Panic capture: a process-wide silent panic hook that records (file, line, message)
//! in a thread-local, and `guard` which runs a closure under `catch_unwind`.

use std::cell::RefCell;
use std::panic::{catch_unwind, AssertUnwindSafe};
use std::sync::Once;

#[derive(Debug, Clone, Default)]
pub struct Caught {
    pub msg: String,
    pub file: String,
    pub line: u32,
}
impl Caught {
    /// Path of the panic site relative to /repo (or the registry crate dir), line stripped.
    pub fn site(&self) -> String {
        let f = self.file.as_str();
        if let Some(i) = f.find("/repo/") {
            return f[i + 6..].to_string();
        }
        if let Some(i) = f.find("/registry/src/") {
            let rest = &f[i + 14..];
            if let Some(j) = rest.find('/') {
                return format!("dep:{}", &rest[j + 1..]);
            }
        }
        if let Some(i) = f.find("/library/") {
            return format!("std:{}", &f[i + 9..]);
        }
        f.to_string()
    }
    /// Message with digits collapsed and truncated, so that signatures are input-independent.
    pub fn norm_msg(&self) -> String {
        let mut out = String::new();
        let mut last_digit = false;
        for c in self.msg.chars() {
            if c.is_ascii_digit() {
                if !last_digit {
                    out.push('#');
                }
                last_digit = true;
            } else {
                last_digit = false;
                out.push(if c == '\n' { ' ' } else { c });
            }
            if out.len() > 90 {
                break;
            }
        }
        out
    }
    pub fn is_budget(&self) -> bool {
        self.msg.contains(layout21utils::verif::BUDGET_MARKER)
    }
    /// Whether the panic site is in the harness itself (a harness bug, never a verdict)
    pub fn in_harness(&self) -> bool {
        self.file.contains("/verif/harness/") || self.file.starts_with("src/")
    }
}

thread_local! {
    static LAST: RefCell<Option<Caught>> = RefCell::new(None);
}
static HOOK: Once = Once::new();

pub fn install_hook() {
    HOOK.call_once(|| {
        std::panic::set_hook(Box::new(|info| {
            let msg = if let Some(s) = info.payload().downcast_ref::<&str>() {
                s.to_string()
            } else if let Some(s) = info.payload().downcast_ref::<String>() {
                s.clone()
            } else {
                "<non-string panic payload>".to_string()
            };
            let (file, line) = match info.location() {
                Some(l) => (l.file().to_string(), l.line()),
                None => ("<unknown>".to_string(), 0),
            };
            LAST.with(|l| *l.borrow_mut() = Some(Caught { msg, file, line }));
        }));
    });
}

/// Run `f`, converting a panic into `Err(Caught)`.
pub fn guard<T>(f: impl FnOnce() -> T) -> Result<T, Caught> {
    install_hook();
    LAST.with(|l| *l.borrow_mut() = None);
    match catch_unwind(AssertUnwindSafe(f)) {
        Ok(v) => Ok(v),
        Err(_) => Err(LAST.with(|l| l.borrow_mut().take()).unwrap_or_default()),
    }
}
