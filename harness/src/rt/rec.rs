//! Per-run recorder: what the monitors observed. Serialised from workers to the dispatcher.

use serde::{Deserialize, Serialize};
use serde_json::Value;
use std::collections::{BTreeMap, HashSet};
use std::path::PathBuf;

use super::prng::Rng;

#[derive(Debug, Clone, Copy, PartialEq, Eq, Serialize, Deserialize)]
pub enum Tier {
    Quick,
    Thorough,
}
impl Tier {
    pub fn name(&self) -> &'static str {
        match self {
            Tier::Quick => "quick",
            Tier::Thorough => "thorough",
        }
    }
    pub fn parse(s: &str) -> Option<Tier> {
        match s {
            "quick" => Some(Tier::Quick),
            "thorough" => Some(Tier::Thorough),
            _ => None,
        }
    }
    /// Pick `q` for quick, `t` for thorough
    pub fn pick<T>(&self, q: T, t: T) -> T {
        match self {
            Tier::Quick => q,
            Tier::Thorough => t,
        }
    }
}

#[derive(Serialize, Deserialize, Clone, Debug)]
pub struct Violation {
    pub signature: String,
    pub gen: String,
    pub n: u64,
    pub detail: Value,
}

pub const MAX_DISTINCT_PER_SHARD: usize = 2_000_000;
pub const MAX_SAMPLES_PER_GEN: usize = 2;
pub const MAX_VIOLATIONS_PER_SIG: u64 = 2;
pub const MAX_SIGNATURES: usize = 256;

#[derive(Serialize, Deserialize, Default, Debug)]
pub struct Rec {
    pub evaluations: u64,
    #[serde(skip)]
    pub nontrivial: HashSet<u64>,
    pub nontrivial_dropped: u64,
    pub counters: BTreeMap<String, u64>,
    pub samples: Vec<(String, Value)>,
    pub violations: Vec<Violation>,
    pub violation_counts: BTreeMap<String, u64>,
    pub inconclusive: Vec<String>,
    pub cases_run: BTreeMap<String, u64>,
}
impl Rec {
    pub fn count(&mut self, key: &str, by: u64) {
        *self.counters.entry(key.to_string()).or_insert(0) += by;
    }
    pub fn max(&mut self, key: &str, v: u64) {
        let e = self.counters.entry(key.to_string()).or_insert(0);
        if v > *e {
            *e = v;
        }
    }
    pub fn add_nontrivial(&mut self, h: u64) {
        if self.nontrivial.len() < MAX_DISTINCT_PER_SHARD {
            self.nontrivial.insert(h);
        } else if !self.nontrivial.contains(&h) {
            self.nontrivial_dropped += 1;
        }
    }
    pub fn add_violation(&mut self, mut v: Violation) {
        // bound the number of distinct signatures one process carries: beyond the cap they fold into one overflow signature
        if self.violation_counts.len() >= MAX_SIGNATURES && !self.violation_counts.contains_key(&v.signature) {
            let gen = v.signature.split('|').next().unwrap_or("?").to_string();
            v.signature = format!("{}|overflow|more-than-{}-distinct-signatures", gen, MAX_SIGNATURES);
        }
        let c = self.violation_counts.entry(v.signature.clone()).or_insert(0);
        *c += 1;
        if *c <= MAX_VIOLATIONS_PER_SIG {
            self.violations.push(v);
        }
    }
    pub fn merge(&mut self, other: Rec) {
        self.evaluations += other.evaluations;
        for h in other.nontrivial {
            self.nontrivial.insert(h);
        }
        self.nontrivial_dropped += other.nontrivial_dropped;
        for (k, v) in other.counters {
            if k.starts_with("max.") {
                self.max(&k, v);
            } else {
                self.count(&k, v);
            }
        }
        for (g, s) in other.samples {
            let have = self.samples.iter().filter(|(gg, _)| *gg == g).count();
            if have < MAX_SAMPLES_PER_GEN {
                self.samples.push((g, s));
            }
        }
        let mut have: std::collections::HashMap<String, u64> = std::collections::HashMap::new();
        for x in &self.violations {
            *have.entry(x.signature.clone()).or_insert(0) += 1;
        }
        for v in other.violations {
            let h = have.entry(v.signature.clone()).or_insert(0);
            if *h < MAX_VIOLATIONS_PER_SIG && self.violations.len() < MAX_SIGNATURES * 4 {
                *h += 1;
                self.violations.push(v);
            }
        }
        for (k, v) in other.violation_counts {
            *self.violation_counts.entry(k).or_insert(0) += v;
        }
        self.inconclusive.extend(other.inconclusive);
        for (k, v) in other.cases_run {
            *self.cases_run.entry(k).or_insert(0) += v;
        }
    }
}

/// Context handed to a property for one case
pub struct Cx<'a> {
    pub rec: &'a mut Rec,
    pub prop: &'static str,
    pub tier: Tier,
    pub seed: u64,
    pub gen: String,
    pub n: u64,
    pub rng: Rng,
    pub scratch: PathBuf,
    /// True when this process is a single-case child (no further isolation)
    pub is_child: bool,
}
impl<'a> Cx<'a> {
    pub fn eval(&mut self) {
        self.rec.evaluations += 1;
    }
    pub fn evals(&mut self, n: u64) {
        self.rec.evaluations += n;
    }
    pub fn nontrivial(&mut self, h: u64) {
        self.rec.add_nontrivial(h);
    }
    pub fn count(&mut self, key: &str) {
        self.rec.count(key, 1);
    }
    pub fn count_n(&mut self, key: &str, by: u64) {
        self.rec.count(key, by);
    }
    pub fn max(&mut self, key: &str, v: u64) {
        self.rec.max(key, v);
    }
    /// Record a rendered sample case (at most a couple per generator)
    pub fn sample(&mut self, f: impl FnOnce() -> Value) {
        let have = self
            .rec
            .samples
            .iter()
            .filter(|(g, _)| *g == self.gen)
            .count();
        if have < MAX_SAMPLES_PER_GEN {
            let v = f();
            self.rec.samples.push((self.gen.clone(), v));
        }
    }
    /// Report a violation. `class` is the clause / witness class; `detail` the rendered witness.
    pub fn violation(&mut self, class: &str, detail: Value) {
        // A witness may quote values produced by the code under test. A `String` that holds bytes which are not UTF-8 (possible only through
        // `unsafe`) would make the result file unreadable and the violation would be lost as "no result file": make every string text first.
        fn clean(s: &str) -> String {
            String::from_utf8_lossy(s.as_bytes()).into_owned()
        }
        fn sanitize(v: Value) -> Value {
            match v {
                Value::String(s) => Value::String(clean(&s)),
                Value::Array(a) => Value::Array(a.into_iter().map(sanitize).collect()),
                Value::Object(o) => Value::Object(o.into_iter().map(|(k, v)| (clean(&k), sanitize(v))).collect()),
                other => other,
            }
        }
        let detail = sanitize(detail);
        let class = clean(class);
        let signature = format!("{}|{}", self.gen, class);
        self.rec.add_violation(Violation {
            signature,
            gen: self.gen.clone(),
            n: self.n,
            detail,
        });
    }
    pub fn inconclusive(&mut self, why: impl Into<String>) {
        let why = why.into();
        if self.rec.inconclusive.len() < 50 {
            self.rec.inconclusive.push(format!("{}:{}: {}", self.gen, self.n, why));
        }
    }
    /// A scratch file path unique to this process
    pub fn tmp(&self, name: &str) -> PathBuf {
        self.scratch.join(format!("{}-{}", std::process::id(), name))
    }
}

pub struct GenSpec {
    pub name: &'static str,
    pub count: u64,
    /// The generator enumerates a finite space completely (independent of seed)
    pub exhaustive: bool,
    /// Run every case of this generator in its own child process (expected crashes/hangs)
    pub isolate: bool,
}
impl GenSpec {
    pub fn random(name: &'static str, count: u64) -> Self {
        GenSpec {
            name,
            count,
            exhaustive: false,
            isolate: false,
        }
    }
    pub fn enumerated(name: &'static str, count: u64) -> Self {
        GenSpec {
            name,
            count,
            exhaustive: true,
            isolate: false,
        }
    }
    pub fn isolated(mut self) -> Self {
        self.isolate = true;
        self
    }
}

pub trait Prop: Sync {
    fn id(&self) -> &'static str;
    /// Evidence level: "exploration" or "fault_enumeration"
    fn level(&self) -> &'static str {
        "exploration"
    }
    fn rule(&self) -> String;
    fn assumptions(&self) -> Vec<String>;
    fn plan(&self, tier: Tier) -> Vec<GenSpec>;
    fn run_case(&self, cx: &mut Cx);
    /// A generator of this property whose single case is small enough to run under an interpreter (Miri): `lvh one <ID> --gen miri-sample
    /// --n k` runs case k of it. None: the property has its own `miri-sample` generator, or none that is small enough.
    fn miri_gen(&self) -> Option<&'static str> {
        None
    }
    /// Post-merge verdict adjustments (non-vacuity checks -> inconclusive)
    fn finish(&self, _total: &mut Rec, _tier: Tier) {}
    /// Wall-clock watchdog for the whole run, seconds. Firing is inconclusive.
    fn watchdog_secs(&self, tier: Tier) -> u64 {
        tier.pick(600, 7200)
    }
    /// Per-isolated-case timeout, seconds
    fn case_timeout_secs(&self) -> u64 {
        20
    }
    /// A worker that stays on one (non-isolated) case this long is killed and the case re-run in isolation
    /// (three reproduced time-outs there make a `hang` violation; finishing there is just a slow case)
    fn stall_secs(&self, tier: Tier) -> u64 {
        tier.pick(30, 90)
    }
}
