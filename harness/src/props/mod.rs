pub mod c15;

use crate::rt::Prop;

pub fn lookup(id: &str) -> Option<&'static dyn Prop> {
    match id {
        "C15" => Some(&c15::C15),
        _ => None,
    }
}
