pub mod c01;
pub mod c02;
pub mod c03;
pub mod c04;
pub mod c05;
pub mod c06;
pub mod c07;
pub mod c08;
pub mod c09;
pub mod c10;
pub mod c11;
pub mod c12;
pub mod c13;
pub mod c14;
pub mod c15;
pub mod c16;
pub mod c17;
pub mod c18;
pub mod c19;
pub mod c20;

use crate::rt::Prop;

pub fn lookup(id: &str) -> Option<&'static dyn Prop> {
    match id {
        "C01" => Some(&c01::C01),
        "C02" => Some(&c02::C02),
        "C03" => Some(&c03::C03),
        "C04" => Some(&c04::C04),
        "C05" => Some(&c05::C05),
        "C06" => Some(&c06::C06),
        "C07" => Some(&c07::C07),
        "C08" => Some(&c08::C08),
        "C09" => Some(&c09::C09),
        "C10" => Some(&c10::C10),
        "C11" => Some(&c11::C11),
        "C12" => Some(&c12::C12),
        "C13" => Some(&c13::C13),
        "C14" => Some(&c14::C14),
        "C15" => Some(&c15::C15),
        "C16" => Some(&c16::C16),
        "C17" => Some(&c17::C17),
        "C18" => Some(&c18::C18),
        "C19" => Some(&c19::C19),
        "C20" => Some(&c20::C20),
        _ => None,
    }
}
