//! C02 — bytes written for a library are a well-formed GDSII stream with that content.

use super::c01::{limit_case, N_LIMITS, REPO_GDS};
use crate::gen::gdsgen::*;
use crate::refs::gdsstream::*;
use crate::rt::*;
use gds21::GdsLibrary;
use serde_json::json;

pub struct C02;

fn reason_class(e: &str) -> String {
    // keep the words, drop the numbers
    let mut out = String::new();
    let mut last_hash = false;
    for c in e.chars() {
        if c.is_ascii_digit() {
            if !last_hash {
                out.push('#');
            }
            last_hash = true;
        } else {
            last_hash = false;
            out.push(c);
        }
    }
    out.chars().take(70).collect()
}

impl C02 {
    fn check(&self, cx: &mut Cx, lib: &GdsLibrary, want: &NLib, desc: &str) {
        cx.eval();
        // every 7th case goes through the file API instead (GdsLibrary::save), onto a path that already holds a longer older file:
        // the bytes on disk are then what is judged
        let via_file = cx.n % 7 == 3;
        let (short_sink, self_n) = (!via_file && cx.n % 8 == 5, cx.n);
        if short_sink {
            cx.count("written_to_short_sink");
        }
        let path = cx.tmp("c02.gds");
        let written = guard(|| {
            if via_file {
                let _ = std::fs::write(&path, vec![0x5Au8; 200_000]);
                lib.save(&path).map(|_| std::fs::read(&path).unwrap_or_default())
            } else if short_sink {
                // a destination that takes only a few bytes per call: the bytes it received are judged
                let mut sw = ShortWriter { inner: Vec::new(), max: 1 + (self_n % 11) as usize };
                lib.write(&mut sw).map(|_| sw.inner)
            } else {
                let mut buf = Vec::new();
                lib.write(&mut buf).map(|_| buf)
            }
        });
        if via_file {
            let _ = std::fs::remove_file(&path);
            cx.count("via_save_over_existing_file");
        }
        let buf = match written {
            Err(c) => {
                cx.violation(&format!("write-panic|{}|{}", c.site(), c.norm_msg()), json!({"case": desc, "panic": c.msg}));
                return;
            }
            Ok(Err(_)) => {
                cx.count("write_err");
                return;
            }
            Ok(Ok(b)) => b,
        };
        cx.count("write_ok");
        // a destination that runs full part-way (every ninth case): reporting success means every byte arrived
        if !via_file && !short_sink && cx.n % 9 == 4 && !buf.is_empty() {
            let cap = cx.rng.usize(buf.len());
            let mut fd = FullDisk { inner: Vec::new(), cap };
            match guard(|| lib.write(&mut fd).is_ok()) {
                Err(c) => cx.violation(&format!("write-panic|full-destination|{}|{}", c.site(), c.norm_msg()), json!({"case": desc, "panic": c.msg})),
                Ok(true) => cx.violation("write-reports-success-on-a-destination-that-ran-full", json!({"case": desc, "stream_bytes": buf.len(), "destination_took": fd.inner.len()})),
                Ok(false) => {
                    if !buf.starts_with(&fd.inner) {
                        cx.violation("bytes-before-the-destination-ran-full-differ", json!({"case": desc}));
                    } else {
                        cx.count("full_destination_reported");
                    }
                }
            }
        }
        cx.count_n("bytes_inspected", buf.len() as u64);
        match decode(&buf, false) {
            Err(e) => cx.violation(&format!("malformed|{}", reason_class(&e)), json!({"case": desc, "decoder": e, "bytes": render_bytes(&buf)})),
            Ok(got) => {
                cx.count_n("records_decoded", split_records(&buf).map(|r| r.0.len() as u64).unwrap_or(0));
                match ast_diff(want, &got) {
                    Some((class, at)) => cx.violation(&format!("content|{}", class), json!({"case": desc, "at": at.chars().take(500).collect::<String>(), "bytes": render_bytes(&buf)})),
                    None => cx.count("stream_ok"),
                }
            }
        }
    }
    fn run_ast(&self, cx: &mut Cx, ast: &NLib, desc: &str) {
        let lib = match ast_to_lib(ast) {
            Some(l) => l,
            None => {
                cx.inconclusive("generator produced an AST outside the gds21 data model");
                return;
            }
        };
        for s in &ast.structs {
            for e in &s.elems {
                cx.nontrivial(elem_bucket(e) ^ 0x0202);
            }
        }
        cx.nontrivial(ast_hash(ast));
        self.check(cx, &lib, ast, desc);
    }
}

impl Prop for C02 {
    fn id(&self) -> &'static str {
        "C02"
    }
    fn rule(&self) -> String {
        format!("Same library space as C01 (sweep of {} kind x optional-record cases, {} limit probes, seeded random libraries, repository files). For every successful write the bytes are split and parsed by an independent \
        strict decoder written from the GDSII specification (record framing: even length >= 4 within the stream; spec record-type/data-type pairs; BNF order; ENDLIB last, nothing after it) and the decoded neutral AST is compared \
        with the AST computed directly from the input value (big-endian integers, exact normalised 8-byte reals, STRANS bits 0x8000/0x0004/0x0002, COLROW = columns then rows, dates modification-then-access, one NUL pad on odd strings only). \
        distinct_nontrivial = distinct (kind x optional-record mask) buckets plus distinct ASTs.", sweep_count(), N_LIMITS)
    }
    fn assumptions(&self) -> Vec<String> {
        vec![
            "trusted base: harness/src/refs/gdsstream.rs decoder and refs/gdsreal.rs, written from the Calma GDSII Stream Format release 6 description; cross-checked on the repository's foreign .gds files (generator repo-files)".into(),
            "strings ending in NUL at even length excluded (unrepresentable)".into(),
        ]
    }
    fn miri_gen(&self) -> Option<&'static str> {
        Some("random")
    }
    fn plan(&self, tier: Tier) -> Vec<GenSpec> {
        vec![
            GenSpec::enumerated("sweep", sweep_count()),
            GenSpec::enumerated("limits", N_LIMITS),
            // one long, mostly non-ASCII string (4 KiB..64 KiB) in each string-valued field
            GenSpec::random("long-strings", tier.pick(160, 4_000)),
            GenSpec::enumerated("repo-files", REPO_GDS.len() as u64),
            GenSpec::random("random", tier.pick(200_000, 4_000_000)),
        ]
    }
    fn run_case(&self, cx: &mut Cx) {
        let cfg = GenCfg::small(StrClass::Mixed, false);
        match cx.gen.as_str() {
            "sweep" => {
                let (ast, desc) = sweep_case(cx.n, &mut cx.rng, &cfg);
                self.run_ast(cx, &ast, &desc);
                cx.sample(|| json!({"sweep": desc}));
            }
            "long-strings" => {
                let (ast, which) = long_string_lib(&mut cx.rng);
                cx.count(&format!("long_string_in_{}", which));
                self.run_ast(cx, &ast, "one long non-ASCII string");
                cx.sample(|| json!({"long_string_field": which}));
            }
            "limits" => {
                let (desc, ast) = limit_case(cx.n);
                self.run_ast(cx, &ast, &desc);
                cx.sample(|| json!({"limit": desc}));
            }
            "repo-files" => {
                // Cross-check of the trusted decoder: foreign files must decode to what gds21 reads, and gds21's re-write must decode to the same AST.
                let p = REPO_GDS[cx.n as usize];
                match std::fs::read(p) {
                    Ok(bytes) if !bytes.is_empty() => {
                        let foreign = decode(&bytes, true);
                        match (foreign, guard(|| GdsLibrary::from_bytes(&bytes))) {
                            (Ok(ast), Ok(Ok(lib))) => {
                                cx.count("repo_files_decoded");
                                cx.nontrivial(crate::rt::prng::byteshash(&bytes));
                                match ast_to_lib(&ast) {
                                    Some(l2) => {
                                        if let Some((class, at)) = lib_diff(&l2, &lib) {
                                            cx.inconclusive(format!("reference decoder disagrees with gds21 on {}: {} at {}", p, class, at));
                                        }
                                    }
                                    None => cx.inconclusive(format!("{} outside data model", p)),
                                }
                                // the foreign file's reals may carry >53 bits; compare the rewrite against the AST of the value read
                                if let Some(want) = lib_to_ast(&lib) {
                                    self.check(cx, &lib, &want, p);
                                }
                                cx.sample(|| json!({"file": p, "structs": lib.structs.len()}));
                            }
                            (Err(_), _) => cx.count("repo_files_not_in_bnf_order_skipped"),
                            (_, other) => cx.inconclusive(format!("gds21 did not read {}: {:?}", p, other.map(|r| r.is_ok()))),
                        }
                    }
                    _ => cx.count("repo_files_missing"),
                }
            }
            "random" => {
                let ast = rand_lib(&mut cx.rng, &cfg);
                self.run_ast(cx, &ast, "random library");
                cx.sample(|| json!({"library": format!("{:?}", ast).chars().take(600).collect::<String>()}));
            }
            other => cx.inconclusive(format!("unknown generator {}", other)),
        }
    }
    fn finish(&self, total: &mut Rec, _tier: Tier) {
        let ok = total.counters.get("write_ok").copied().unwrap_or(0);
        if ok == 0 {
            total.inconclusive.push("no library was written successfully".into());
        }
    }
}
