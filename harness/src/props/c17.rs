//! C17 — dependency orderings are complete, duplicate-free and dependencies-first.

use crate::refs::order::*;
use crate::rt::*;
use layout21utils::verif;
use layout21utils::{DepOrder, DepOrderer};
use serde_json::json;
use std::cell::RefCell;

pub struct C17;

thread_local! {
    static ADJ: RefCell<Graph> = RefCell::new(Vec::new());
}
/// Harness implementation of the generic ordering trait over an adjacency table
struct TableOrder;
impl DepOrder for TableOrder {
    type Item = usize;
    type Error = ();
    fn process(item: &usize, orderer: &mut DepOrderer<Self>) -> Result<(), ()> {
        let deps: Vec<usize> = ADJ.with(|a| a.borrow()[*item].clone());
        for d in deps {
            orderer.push(&d)?;
        }
        Ok(())
    }
    fn fail() -> Result<(), ()> {
        Err(())
    }
}
fn run_generic(g: &Graph, listed: &[usize]) -> Result<Option<Vec<usize>>, Caught> {
    ADJ.with(|a| *a.borrow_mut() = g.clone());
    guard(|| TableOrder::order(listed).ok())
}

/// All ordered subsets (partial listings) of {0..n}
fn ordered_subsets(n: usize) -> Vec<Vec<usize>> {
    fn rec(n: usize, cur: &mut Vec<usize>, used: &mut Vec<bool>, out: &mut Vec<Vec<usize>>) {
        out.push(cur.clone());
        for i in 0..n {
            if !used[i] {
                used[i] = true;
                cur.push(i);
                rec(n, cur, used, out);
                cur.pop();
                used[i] = false;
            }
        }
    }
    let mut out = Vec::new();
    rec(n, &mut Vec::new(), &mut vec![false; n], &mut out);
    out
}
fn permutations(n: usize) -> Vec<Vec<usize>> {
    ordered_subsets(n).into_iter().filter(|s| s.len() == n).collect()
}

/// Offline checker of a recorded orderer trace (hook events) against the trace specification.
/// Returns (max recursion depth, distinct abstract states seen) or the violated clause.
pub fn check_trace(events: &[verif::Event], nnodes: usize, ok: bool) -> Result<(usize, usize), String> {
    let mut stack: Vec<i64> = Vec::new();
    let mut done: std::collections::HashSet<i64> = Default::default();
    let mut states: std::collections::HashSet<(Vec<i64>, usize)> = Default::default();
    let mut maxdepth = 0;
    let mut failed = false;
    let mut returned = false;
    for e in events {
        if returned {
            return Err("event-after-return".into());
        }
        match e.kind {
            "dep.enter" => {
                if failed {
                    return Err("enter-after-cycle".into());
                }
                let x = e.nums[0];
                if done.contains(&x) {
                    return Err("enter-of-done-item".into());
                }
                if stack.contains(&x) {
                    return Err("enter-of-pending-item".into());
                }
                stack.push(x);
                maxdepth = maxdepth.max(stack.len());
                if stack.len() > nnodes {
                    return Err("recursion-deeper-than-node-count".into());
                }
                if e.nums[1] as usize != stack.len() {
                    return Err("pending-size-differs-from-depth".into());
                }
            }
            "dep.done" => {
                let x = e.nums[0];
                if stack.last() != Some(&x) {
                    return Err("done-out-of-order".into());
                }
                stack.pop();
                if !done.insert(x) {
                    return Err("item-done-twice".into());
                }
                if e.nums[1] as usize != stack.len() {
                    return Err("pending-not-released-at-done".into());
                }
                if e.nums[2] as usize != done.len() || e.nums[3] as usize != done.len() {
                    return Err("seen-or-stack-size-differs-from-done-count".into());
                }
            }
            "dep.cycle" => {
                let x = e.nums[0];
                if !stack.contains(&x) {
                    return Err("cycle-reported-for-non-pending-item".into());
                }
                failed = true;
            }
            "dep.return" => {
                returned = true;
                if e.nums[0] != 0 {
                    return Err("pending-not-empty-at-return".into());
                }
                if e.nums[1] as usize != done.len() || e.nums[2] as usize != done.len() {
                    return Err("sizes-at-return".into());
                }
            }
            _ => {}
        }
        if e.kind != "dep.return" && e.nums.len() >= 5 && e.nums[4] != 0 {
            return Err("pending-and-seen-overlap".into());
        }
        states.insert((stack.clone(), done.len()));
    }
    if ok && !returned {
        return Err("ok-without-return-event".into());
    }
    if !ok && (returned || !failed) {
        return Err("error-without-cycle-event".into());
    }
    Ok((maxdepth, states.len()))
}

// ---------------------------------------------------------------- embedded orderers: raw and GDS

use gds21::{GdsBoundary, GdsArrayRef, GdsElement, GdsLibrary, GdsPoint, GdsStruct, GdsStructRef};
use layout21raw as raw;
use raw::utils::Ptr;

fn raw_lib(g: &Graph, listing: &[usize]) -> raw::Library {
    let n = g.len();
    let cells: Vec<Ptr<raw::Cell>> = (0..n).map(|i| Ptr::new(raw::Cell::from(raw::Layout { name: format!("c{}", i), ..Default::default() }))).collect();
    for i in 0..n {
        let mut c = cells[i].write().unwrap();
        let lay = c.layout.as_mut().unwrap();
        for (k, &j) in g[i].iter().enumerate() {
            lay.insts.push(raw::Instance { inst_name: format!("i{}", k), cell: cells[j].clone(), loc: raw::Point::new(k as isize, 0), reflect_vert: false, angle: None });
        }
    }
    // leaf cells in all view combinations: odd-numbered sinks are abstract-only, every fourth cell has both views
    for i in 0..n {
        let mut c = cells[i].write().unwrap();
        let abs = raw::Abstract::new(format!("c{}", i), raw::Polygon { points: vec![raw::Point::new(0, 0), raw::Point::new(2, 0), raw::Point::new(2, 2), raw::Point::new(0, 2)] });
        if g[i].is_empty() && i % 2 == 1 {
            c.abs = Some(abs);
            c.layout = None;
        } else if i % 4 == 0 {
            c.abs = Some(abs);
        }
    }
    let mut lib = raw::Library::new("lib", raw::Units::Nano);
    for &i in listing {
        lib.cells.push(cells[i].clone());
    }
    lib
}
fn gds_lib(g: &Graph, listing: &[usize], rng: &mut Rng) -> GdsLibrary {
    let mut lib = GdsLibrary::new("lib");
    // in small graphs one array reference is a real array: 256 x 256, 512 x 128, 1024 x 64 ... (bit-cell arrays; the product of the two
    // 16-bit counts is a multiple of 65536) or 255 x 257, 181 x 181 - once per library, since the importer expands it
    let mut big_left = if !cfg!(miri) && g.len() <= 12 && rng.chance(1, 12) { 1 } else { 0 }; // (not under the interpreter: 65 536 placements take it an hour)
    for &i in listing {
        let mut s = GdsStruct::new(gname(g, i));
        s.elems.push(GdsElement::GdsBoundary(GdsBoundary { layer: 1, datatype: 0, xy: GdsPoint::vec(&[(0, 0), (2, 0), (2, 2), (0, 2), (0, 0)]), ..Default::default() }));
        for &j in &g[i] {
            if big_left > 0 && g[j].is_empty() && rng.chance(1, 2) {
                big_left -= 1;
                let (c, r) = *rng.pick(&[(256i16, 256i16), (512, 128), (128, 512), (1024, 64), (255, 257), (181, 181), (256, 512)]);
                s.elems.push(GdsElement::GdsArrayRef(GdsArrayRef { name: gname(g, j), xy: [GdsPoint::new(0, 0), GdsPoint::new(20 * c as i32, 0), GdsPoint::new(0, 20 * r as i32)], cols: c, rows: r, ..Default::default() }));
            } else if rng.chance(1, 4) {
                s.elems.push(GdsElement::GdsArrayRef(GdsArrayRef { name: gname(g, j), xy: [GdsPoint::new(0, 0), GdsPoint::new(20, 0), GdsPoint::new(0, 20)], cols: 2, rows: 2, ..Default::default() }));
            } else {
                s.elems.push(GdsElement::GdsStructRef(GdsStructRef { name: gname(g, j), xy: GdsPoint::new(3, 4), ..Default::default() }));
            }
        }
        lib.structs.push(s);
    }
    lib
}
fn tetris_lib(g: &Graph, listing: &[usize]) -> layout21tetris::library::Library {
    use layout21tetris as tet;
    use tet::coords::{PrimPitches, Xy};
    let n = g.len();
    let cells: Vec<Ptr<tet::cell::Cell>> = (0..n).map(|i| Ptr::new(tet::cell::Cell::from(tet::layout::Layout::new(format!("c{}", i), 0, tet::outline::Outline::rect(2, 2).unwrap())))).collect();
    for i in 0..n {
        let mut c = cells[i].write().unwrap();
        let lay = c.layout.as_mut().unwrap();
        for (k, &j) in g[i].iter().enumerate() {
            lay.instances.add(tet::instance::Instance { inst_name: format!("i{}", k), cell: cells[j].clone(), loc: tet::placement::Place::Abs(Xy::new(PrimPitches::x(3 * k as isize), PrimPitches::y(0))), reflect_horiz: false, reflect_vert: false });
        }
    }
    // leaf cells come in all view combinations: odd-numbered sinks are abstract-only (no layout), every fourth cell has both views
    for i in 0..n {
        let mut c = cells[i].write().unwrap();
        let abs = tet::abs::Abstract::new(format!("c{}", i), 0, tet::outline::Outline::rect(2, 2).unwrap());
        if g[i].is_empty() && i % 2 == 1 {
            c.abs = Some(abs);
            c.layout = None;
        } else if i % 4 == 0 {
            c.abs = Some(abs);
        }
    }
    let mut lib = tet::library::Library::new("tlib");
    for &i in listing {
        lib.cells.push(cells[i].clone());
    }
    lib
}
/// Node index from a generated name: its trailing digits
fn idx_of(name: &str) -> usize {
    let digits: String = name.chars().rev().take_while(|c| c.is_ascii_digit()).collect::<String>().chars().rev().collect();
    digits.parse().unwrap_or(usize::MAX)
}
/// GDSII structure names: `c<i>`, or (graphs with an odd number of edges) long names that all share their first 40 characters
fn gname(g: &Graph, i: usize) -> String {
    if g.iter().map(|v| v.len()).sum::<usize>() % 2 == 1 {
        format!("sky130_fd_pr__rf_nfet_01v8_lvt_aM02W1p65_variant_L0p{}", i)
    } else {
        format!("c{}", i)
    }
}

fn random_dag(rng: &mut Rng, n: usize, density: u64) -> Graph {
    // edges only from higher rank to lower rank in a hidden random ranking => acyclic; shared dependencies arise naturally
    let mut rank: Vec<usize> = (0..n).collect();
    rng.shuffle(&mut rank);
    let mut g: Graph = vec![vec![]; n];
    for i in 0..n {
        for j in 0..n {
            if rank[j] < rank[i] && rng.below(1000) < density {
                g[i].push(j);
            }
        }
        if rng.chance(1, 5) && !g[i].is_empty() {
            // duplicate edge (two instances of the same cell)
            let d = g[i][0];
            g[i].push(d);
        }
    }
    g
}
fn add_cycle(rng: &mut Rng, g: &mut Graph) -> String {
    let n = g.len();
    match rng.below(3) {
        0 => {
            let i = rng.usize(n);
            g[i].push(i);
            "self-loop".into()
        }
        1 if n >= 2 => {
            let (i, j) = (rng.usize(n), rng.usize(n - 1));
            let j = if j >= i { j + 1 } else { j };
            g[i].push(j);
            g[j].push(i);
            "two-cycle".into()
        }
        _ => {
            let k = 2 + rng.usize(n.min(40).max(3) - 2);
            let mut nodes: Vec<usize> = (0..n).collect();
            rng.shuffle(&mut nodes);
            for t in 0..k.min(n) {
                let (a, b) = (nodes[t], nodes[(t + 1) % k.min(n)]);
                g[a].push(b);
            }
            "long-cycle".into()
        }
    }
}

impl C17 {
    fn judge_generic(&self, cx: &mut Cx, g: &Graph, listed: &[usize], class: &str) {
        cx.eval();
        match run_generic(g, listed) {
            Err(c) => cx.violation(&format!("{}|panic|{}", class, c.norm_msg()), json!({"graph": g, "listed": listed, "panic": c.msg})),
            Ok(res) => {
                if let Err(w) = judge(g, listed, res.as_deref()) {
                    cx.violation(&format!("{}|{}", class, w), json!({"graph": g, "listed": listed, "result": res}));
                } else {
                    cx.count(if res.is_some() { "orderings_valid" } else { "cycles_rejected" });
                }
            }
        }
    }
    fn traced(&self, cx: &mut Cx, g: &Graph, listed: &[usize], class: &str) {
        cx.eval();
        verif::reset();
        verif::set_logging(true);
        let _ = verif::take_events();
        // recursion can never legitimately exceed one push per edge plus one per listed item
        let edges: usize = g.iter().map(|d| d.len()).sum();
        verif::set_budget(verif::DEP_PUSH, (edges + listed.len() + 1) as u64);
        let r = run_generic(g, listed);
        verif::set_logging(false);
        let ev = verif::take_events();
        let pushes = verif::counters()[verif::DEP_PUSH];
        verif::reset();
        cx.count_n("hook.dep_events", ev.len() as u64);
        cx.count_n("hook.dep_pushes", pushes);
        match r {
            Err(c) if c.is_budget() => cx.violation(&format!("{}|push-budget-exceeded", class), json!({"graph": g, "listed": listed})),
            Err(c) => cx.violation(&format!("{}|panic|{}", class, c.norm_msg()), json!({"graph": g, "listed": listed, "panic": c.msg})),
            Ok(res) => {
                if let Err(w) = judge(g, listed, res.as_deref()) {
                    cx.violation(&format!("{}|{}", class, w), json!({"graph": g, "listed": listed, "result": res}));
                }
                match check_trace(&ev, g.len(), res.is_some()) {
                    Err(w) => cx.violation(&format!("{}|trace|{}", class, w), json!({"graph": g, "listed": listed, "events": ev.iter().map(|e| format!("{}{:?}", e.kind, e.nums)).collect::<Vec<_>>()})),
                    Ok((depth, states)) => {
                        cx.count("traces_checked");
                        cx.max("max.recursion_depth", depth as u64);
                        cx.count_n("trace_states_visited", states as u64);
                    }
                }
            }
        }
    }
    fn embedded_raw(&self, cx: &mut Cx, g: &Graph, listing: &[usize], class: &str, which: u8) {
        let lib = raw_lib(g, listing);
        if which & 1 != 0 {
            self.embedded_raw_deporder(cx, g, listing, class, &lib);
        }
        if which & 2 != 0 {
            self.embedded_raw_to_proto(cx, g, listing, class, &lib);
        }
    }
    fn embedded_raw_deporder(&self, cx: &mut Cx, g: &Graph, listing: &[usize], class: &str, lib: &raw::Library) {
        cx.eval();
        // raw::DepOrder has no error channel: any return on a cyclic graph is a violation
        match guard(|| raw::DepOrder::order(&lib)) {
            Err(c) => cx.violation(&format!("{}|raw-deporder|panic|{}", class, c.norm_msg()), json!({"graph": g, "listing": listing, "panic": c.msg})),
            Ok(cells) => {
                let seq: Vec<usize> = cells.iter().map(|c| idx_of(&c.read().unwrap().name)).collect();
                match judge(g, listing, Some(&seq)) {
                    Err(w) => cx.violation(&format!("{}|raw-deporder|{}", class, w), json!({"graph": g, "listing": listing, "result": seq})),
                    Ok(()) => cx.count("raw_orderings_valid"),
                }
            }
        }
        // Two DIFFERENT cells that carry the same name (an abstract-only cell from a LEF next to the layout cell from a GDSII file):
        // they are distinct items and each must be ordered exactly once. Identified by pointer, not by name.
        if !listing.is_empty() && !has_cycle(g, &reachable(g, listing)) {
            cx.eval();
            let mut lib2 = raw_lib(g, listing);
            let name = lib2.cells[0].read().unwrap().name.clone();
            let mut twin_cell = raw::Cell::new(name.clone());
            twin_cell.abs = Some(raw::Abstract::new(name, raw::Polygon { points: vec![raw::Point::new(0, 0), raw::Point::new(1, 0), raw::Point::new(1, 1), raw::Point::new(0, 1)] }));
            let twin = Ptr::new(twin_cell);
            if listing.len() % 2 == 0 {
                lib2.cells.push(twin.clone());
                lib2.cells.rotate_right(1);
            } else {
                lib2.cells.push(twin.clone());
            }
            match guard(|| raw::DepOrder::order(&lib2)) {
                Err(c) => cx.violation(&format!("{}|raw-deporder|same-name-twin|panic|{}", class, c.norm_msg()), json!({"graph": g, "listing": listing, "panic": c.msg})),
                Ok(cells) => {
                    let twins = cells.iter().filter(|c| **c == twin).count();
                    let seq: Vec<usize> = cells.iter().filter(|c| **c != twin).map(|c| idx_of(&c.read().unwrap().name)).collect();
                    if twins != 1 {
                        cx.violation(&format!("{}|raw-deporder|same-name-twin|listed-{}-times", class, twins.min(2)), json!({"graph": g, "listing": listing}));
                    } else {
                        match judge(g, listing, Some(&seq)) {
                            Err(w) => cx.violation(&format!("{}|raw-deporder|same-name-twin|{}", class, w), json!({"graph": g, "listing": listing, "result": seq})),
                            Ok(()) => cx.count("raw_orderings_with_same_name_twin_valid"),
                        }
                    }
                }
            }
        }
    }
    fn embedded_raw_to_proto(&self, cx: &mut Cx, g: &Graph, listing: &[usize], class: &str, lib: &raw::Library) {
        cx.eval();
        match guard(|| lib.to_proto()) {
            Err(c) => cx.violation(&format!("{}|raw-to_proto|panic|{}", class, c.norm_msg()), json!({"graph": g, "listing": listing, "panic": c.msg})),
            Ok(Err(e)) => {
                let reach = reachable(g, listing);
                if !has_cycle(g, &reach) {
                    cx.violation(&format!("{}|raw-to_proto|acyclic-graph-rejected", class), json!({"graph": g, "listing": listing, "error": format!("{:?}", e)}));
                }
            }
            Ok(Ok(p)) => {
                let seq: Vec<usize> = p.cells.iter().map(|c| idx_of(&c.name)).collect();
                match judge(g, listing, Some(&seq)) {
                    Err(w) => cx.violation(&format!("{}|raw-to_proto|{}", class, w), json!({"graph": g, "listing": listing, "result": seq})),
                    Ok(()) => cx.count("proto_cell_orders_valid"),
                }
            }
        }
    }
    /// which: 1 = Library::dep_order, 2 = cell order of ProtoExporter::export, 4 = Placer::place (which orders cells before placing)
    fn embedded_tetris(&self, cx: &mut Cx, g: &Graph, listing: &[usize], class: &str, which: u8) {
        use layout21tetris as tet;
        let reach = reachable(g, listing);
        let cyclic = has_cycle(g, &reach);
        if which & 1 != 0 {
            cx.eval();
            let lib = tetris_lib(g, listing);
            match guard(|| lib.dep_order()) {
                Err(c) => cx.violation(&format!("{}|tetris-dep_order|panic|{}", class, c.norm_msg()), json!({"graph": g, "listing": listing, "panic": c.msg})),
                Ok(cells) => {
                    let seq: Vec<usize> = cells.iter().map(|c| idx_of(&c.read().unwrap().name)).collect();
                    match judge(g, listing, Some(&seq)) {
                        Err(w) => cx.violation(&format!("{}|tetris-dep_order|{}", class, w), json!({"graph": g, "listing": listing, "result": seq})),
                        Ok(()) => cx.count("tetris_dep_orders_valid"),
                    }
                }
            }
        }
        if which & 2 != 0 {
            cx.eval();
            let lib = tetris_lib(g, listing);
            match guard(|| tet::conv::proto::ProtoExporter::export(&lib)) {
                Err(c) => cx.violation(&format!("{}|tetris-proto-export|panic|{}", class, c.norm_msg()), json!({"graph": g, "listing": listing, "panic": c.msg})),
                Ok(Err(e)) => {
                    if !cyclic {
                        cx.violation(&format!("{}|tetris-proto-export|acyclic-graph-rejected", class), json!({"graph": g, "listing": listing, "error": format!("{:?}", e).chars().take(200).collect::<String>()}));
                    } else {
                        cx.count("tetris_proto_cycles_rejected");
                    }
                }
                Ok(Ok(p)) => {
                    let seq: Vec<usize> = p.cells.iter().map(|c| idx_of(&c.name)).collect();
                    match judge(g, listing, Some(&seq)) {
                        Err(w) => cx.violation(&format!("{}|tetris-proto-export|{}", class, w), json!({"graph": g, "listing": listing, "result": seq})),
                        Ok(()) => cx.count("tetris_proto_cell_orders_valid"),
                    }
                }
            }
        }
        if which & 4 != 0 {
            cx.eval();
            let lib = tetris_lib(g, listing);
            // the placer's own orderer works on what a layout lists: `instances` and `places`. Half of the time the listing is made the way
            // builders really leave it: the last instance entered as a placeable instead (after a reference to one of its ports), the first
            // instance listed twice and entered as a placeable as well. Every instance is still one instance.
            // (only in libraries that register all their cells: the CELL order follows `instances` alone, so a cell reachable only through
            // an instance that sits in `places` is outside what `Library::dep_order` - and with it the placer - is asked about)
            let redundant = listing.len() == g.len() && (g.len() + g.iter().map(|d| d.len()).sum::<usize>()) % 2 == 0;
            let mut expect: Vec<(String, Vec<String>)> = Vec::new();
            if redundant {
                for c in lib.dep_order().iter() {
                    let mut c = c.write().unwrap();
                    let cname = c.name.clone();
                    if let Some(lay) = c.layout.as_mut() {
                        let mut names: Vec<String> = lay.instances.iter().map(|i| i.read().unwrap().inst_name.clone()).collect();
                        names.sort();
                        expect.push((cname, names));
                        if lay.instances.len() >= 2 {
                            let last = lay.instances.pop().unwrap();
                            lay.places.push(tet::placement::Placeable::Port { inst: last.clone(), port: "x".into() });
                            lay.places.push(tet::placement::Placeable::Instance(last));
                        }
                        if let Some(first) = lay.instances.first().cloned() {
                            lay.instances.push(first.clone());
                            lay.places.push(tet::placement::Placeable::Instance(first));
                        }
                    }
                }
                cx.count("placer_runs_on_redundant_listings");
            }
            match guard(|| tet::placer::Placer::place(lib, crate::gen::tetgen::empty_stack())) {
                Err(c) => cx.violation(&format!("{}|tetris-placer|panic|{}", class, c.norm_msg()), json!({"graph": g, "listing": listing, "panic": c.msg})),
                Ok(Err(_)) => {
                    if !cyclic {
                        cx.violation(&format!("{}|tetris-placer|acyclic-graph-rejected", class), json!({"graph": g, "listing": listing}));
                    } else {
                        cx.count("tetris_placer_cycles_rejected");
                    }
                }
                Ok(Ok((placed, _))) => {
                    if cyclic {
                        cx.violation(&format!("{}|tetris-placer|cyclic-graph-ordered", class), json!({"graph": g, "listing": listing}));
                    } else {
                        // each cell's instances, after placement: every one of them, once
                        let mut bad: Option<(String, Vec<String>, Vec<String>)> = None;
                        if redundant {
                            for c in placed.dep_order().iter() {
                                let c = c.read().unwrap();
                                if let (Some(lay), Some((_, want))) = (c.layout.as_ref(), expect.iter().find(|(n, _)| *n == c.name)) {
                                    let mut got: Vec<String> = lay.instances.iter().map(|i| i.read().unwrap().inst_name.clone()).collect();
                                    got.sort();
                                    if got != *want && bad.is_none() {
                                        bad = Some((c.name.clone(), want.clone(), got));
                                    }
                                }
                            }
                        }
                        match bad {
                            Some((cell, want, got)) => cx.violation(&format!("{}|tetris-placer|{}", class, if got.len() > want.len() { "instance-placed-twice" } else { "instance-dropped" }), json!({"cell": cell, "instances": want, "after_placement": got, "graph": g, "listing": listing})),
                            None => cx.count("tetris_placer_ok"),
                        }
                    }
                }
            }
        }
    }
    /// Gridded layout -> raw export of a library in which some sinks are wrapped cells of a previously imported raw library (`add_rawlib` +
    /// `RawLayoutPtr`): the export goes INTO that raw library, which therefore already has content. The result must list every cell once,
    /// the wrapped ones included, each after everything it instantiates.
    fn embedded_tetris_raw(&self, cx: &mut Cx, g: &Graph, listing: &[usize], class: &str) {
        use layout21tetris as tet;
        cx.eval();
        let b = super::c08::gen_stack(&mut Rng::new(7));
        let stack = match b.stack.clone().validate() {
            Ok(s) => s,
            Err(_) => {
                cx.inconclusive("C17 raw-export leg: stack did not validate");
                return;
            }
        };
        let mut lib = tetris_lib(g, listing);
        // wrap: sinks with i % 3 == 0 become raw cells living in one raw library
        let mut rawlib = raw::Library::new("imported", stack.units);
        rawlib.layers = stack.rawlayers.clone().unwrap();
        let wrapped_idx: Vec<usize> = (0..g.len()).filter(|i| g[*i].is_empty() && i % 3 == 0).collect();
        if wrapped_idx.is_empty() {
            cx.count("tetris_raw_export_no_sink_to_wrap");
        }
        let rawcells: Vec<Ptr<raw::Cell>> = wrapped_idx.iter().map(|i| rawlib.cells.add(raw::Cell::from(raw::Layout { name: format!("c{}", i), insts: vec![], elems: vec![], annotations: vec![] }))).collect();
        let rawlibptr = lib.add_rawlib(rawlib);
        for (i, rc) in wrapped_idx.iter().zip(rawcells.iter()) {
            // every tetris cell object named c<i> (listed, or reached through instances) becomes the wrapped view
            let all = lib.dep_order();
            for c in all.iter() {
                let mut c = c.write().unwrap();
                if idx_of(&c.name) == *i {
                    c.layout = None;
                    c.abs = None;
                    c.raw = Some(tet::cell::RawLayoutPtr { outline: tet::outline::Outline::rect(2, 2).unwrap(), metals: 0, lib: rawlibptr.clone(), cell: rc.clone() });
                }
            }
        }
        match guard(|| tet::conv::raw::RawExporter::convert(lib, stack)) {
            Err(c) => cx.violation(&format!("{}|tetris-raw-export|panic|{}", class, c.norm_msg()), json!({"graph": g, "listing": listing, "panic": c.msg})),
            Ok(Err(e)) => cx.violation(&format!("{}|tetris-raw-export|acyclic-graph-rejected", class), json!({"graph": g, "listing": listing, "wrapped": wrapped_idx, "error": format!("{:?}", e).chars().take(300).collect::<String>()})),
            Ok(Ok(out)) => {
                let out = out.read().unwrap();
                let seq: Vec<usize> = out.cells.iter().map(|c| idx_of(&c.read().unwrap().name)).collect();
                // what the result's own instances point at must be in the list, earlier
                let mut bad = None;
                for (k, c) in out.cells.iter().enumerate() {
                    if let Some(l) = &c.read().unwrap().layout {
                        for inst in &l.insts {
                            match out.cells.iter().position(|d| *d == inst.cell) {
                                Some(at) if at < k => {}
                                Some(_) => bad = Some("instantiated-cell-listed-later"),
                                None => bad = Some("instantiated-cell-not-in-the-library"),
                            }
                        }
                    }
                }
                match (bad, judge(g, listing, Some(&seq))) {
                    (Some(w), _) => cx.violation(&format!("{}|tetris-raw-export|{}", class, w), json!({"graph": g, "listing": listing, "wrapped": wrapped_idx, "result": seq})),
                    (None, Err(w)) => cx.violation(&format!("{}|tetris-raw-export|{}", class, w), json!({"graph": g, "listing": listing, "wrapped": wrapped_idx, "result": seq})),
                    (None, Ok(())) => cx.count(if wrapped_idx.is_empty() { "tetris_raw_export_orders_valid" } else { "tetris_raw_export_into_populated_library_orders_valid" }),
                }
            }
        }
    }
    fn embedded_gds(&self, cx: &mut Cx, g: &Graph, listing: &[usize], class: &str) {
        cx.eval();
        let lib = gds_lib(g, listing, &mut cx.rng);
        match guard(|| raw::Library::from_gds(&lib, None)) {
            Err(c) => cx.violation(&format!("{}|gds-import|panic|{}", class, c.norm_msg()), json!({"graph": g, "listing": listing, "panic": c.msg})),
            Ok(Err(e)) => {
                let reach = reachable(g, listing);
                if !has_cycle(g, &reach) {
                    cx.violation(&format!("{}|gds-import|acyclic-graph-rejected", class), json!({"graph": g, "listing": listing, "error": format!("{:?}", e).chars().take(200).collect::<String>()}));
                } else {
                    cx.count("gds_cycles_rejected");
                }
            }
            Ok(Ok(r)) => {
                let seq: Vec<usize> = r.cells.iter().map(|c| idx_of(&c.read().unwrap().name)).collect();
                match judge(g, listing, Some(&seq)) {
                    Err(w) => cx.violation(&format!("{}|gds-import|{}", class, w), json!({"graph": g, "listing": listing, "result": seq})),
                    Ok(()) => cx.count("gds_import_orders_valid"),
                }
            }
        }
    }
}

impl Prop for C17 {
    fn id(&self) -> &'static str {
        "C17"
    }
    fn rule(&self) -> String {
        "Generic helper (layout21utils::DepOrder with a harness adjacency-table impl): EXHAUSTIVE every digraph on 4 nodes with self-loops (2^16) under every ordered subset listing (65 listings incl. partial ones); thorough adds every loop-free digraph on 5 nodes (2^20) in all 120 orders, \
         quick a seeded sample of 5-node digraphs with self-loops in all 120 orders; every 4-node digraph also runs with hook logging on and its enter/cycle/done/return event trace is checked offline (LIFO completion, no item done twice, pending/seen disjoint, pending empty at return, depth <= |V|, push budget); \
         random DAGs/cyclic graphs up to 300 nodes traced. Embedded orderers: raw DepOrder::order and the cell order of Library::to_proto, the import order of Library::from_gds (SREF/AREF edges), and the gridded-layout orderers (Library::dep_order, ProtoExporter cell order, Placer::place): every acyclic loop-free 4-node digraph in all 24 listings, random DAGs up to 300 nodes with shared dependencies and users listed first; \
         gridded->raw export into a raw library that already holds cells (wrapped sinks); dep_order while another thread holds a cell's write guard and on a poisoned cell (it may wait or refuse, not answer wrongly); cyclic graphs (self-loop, 2-cycle, long cycle) each in an isolated child process (stack overflow / hang = violation). Oracle: refs/order.rs (reachable set, duplicate-free, dependencies first, cycle => error). distinct_nontrivial = distinct (graph, listing) pairs with at least one edge."
            .into()
    }
    fn assumptions(&self) -> Vec<String> {
        vec!["an orderer without an error channel (returns Vec) violates the cycle clause whenever it returns at all on a cyclic graph".into(),
             "tetris orderers: Library::dep_order, the cell order of the tetris ProtoExporter (CellOrder) and Placer::place (which orders cells, then instances via PlaceOrder; instance-relation cycles are C09's cyclic generator)".into()]
    }
    fn miri_gen(&self) -> Option<&'static str> {
        Some("embedded-dag")
    }
    fn plan(&self, tier: Tier) -> Vec<GenSpec> {
        vec![
            GenSpec::enumerated("generic-4", 1024),
            GenSpec::enumerated("generic-4-traced", 1024),
            if tier == Tier::Thorough { GenSpec::enumerated("generic-5", 4096) } else { GenSpec::random("generic-5-sample", 3000) },
            GenSpec::random("generic-large-traced", tier.pick(2_000, 100_000)),
            GenSpec::enumerated("embedded-4", 4096),
            GenSpec::random("embedded-dag", tier.pick(1_500, 100_000)),
            GenSpec::random("embedded-lock-state", tier.pick(150, 3000)),
            // gridded libraries of 70 000 to 130 000 cells: whatever an orderer keeps per cell in a narrower key (16-bit positions, 32-bit
            // fingerprints of addresses) starts to collide at this size
            GenSpec::random("huge-library", tier.pick(4, 40)),
            GenSpec::random("embedded-cyclic-raw-deporder", tier.pick(24, 300)).isolated(),
            GenSpec::random("embedded-cyclic-raw-to_proto", tier.pick(24, 300)).isolated(),
            GenSpec::random("embedded-cyclic-gds", tier.pick(24, 300)).isolated(),
            GenSpec::random("embedded-cyclic-tetris-dep_order", tier.pick(24, 300)).isolated(),
            GenSpec::random("embedded-cyclic-tetris-proto", tier.pick(24, 300)).isolated(),
            GenSpec::random("embedded-cyclic-tetris-placer", tier.pick(24, 300)).isolated(),
        ]
    }
    fn run_case(&self, cx: &mut Cx) {
        let gen = cx.gen.clone();
        match gen.as_str() {
            "generic-4" | "generic-4-traced" => {
                let listings = ordered_subsets(4);
                for k in 0..64 {
                    let code = cx.n * 64 + k;
                    let masks: Vec<u32> = (0..4).map(|i| ((code >> (4 * i)) & 0xF) as u32).collect();
                    let g = from_masks(4, &masks);
                    if gen == "generic-4" {
                        for l in &listings {
                            if code != 0 {
                                cx.nontrivial(code * 100 + crate::rt::prng::strhash(&format!("{:?}", l)) % 100);
                            }
                            self.judge_generic(cx, &g, l, "generic");
                        }
                    } else {
                        let l = &listings[1 + (code as usize * 7) % (listings.len() - 1)];
                        cx.nontrivial(code ^ 0x7777_0000);
                        self.traced(cx, &g, l, "generic-traced");
                    }
                }
                let n0 = cx.n;
                cx.sample(|| json!({"graphs": format!("4-node digraphs #{}..#{}", n0 * 64, n0 * 64 + 63), "listings": if gen == "generic-4" { 65 } else { 1 }}));
            }
            "generic-5" => {
                let perms = permutations(5);
                for k in 0..256 {
                    let code = cx.n * 256 + k; // 20 bits: off-diagonal entries
                    let mut masks = vec![0u32; 5];
                    let mut bit = 0;
                    for i in 0..5 {
                        for j in 0..5 {
                            if i != j {
                                if code >> bit & 1 == 1 {
                                    masks[i] |= 1 << j;
                                }
                                bit += 1;
                            }
                        }
                    }
                    let g = from_masks(5, &masks);
                    cx.nontrivial(code ^ 0x5555_0000_0000);
                    for l in &perms {
                        self.judge_generic(cx, &g, l, "generic");
                    }
                }
                let n0 = cx.n;
                cx.sample(|| json!({"graphs": format!("loop-free 5-node digraphs #{}..", n0 * 256), "listings": 120}));
            }
            "generic-5-sample" => {
                let perms = permutations(5);
                let masks: Vec<u32> = (0..5).map(|_| (cx.rng.below(32) & cx.rng.below(32)) as u32).collect();
                let g = from_masks(5, &masks);
                cx.nontrivial(crate::rt::prng::strhash(&format!("{:?}", masks)));
                for l in &perms {
                    self.judge_generic(cx, &g, l, "generic");
                }
                cx.sample(|| json!({"graph": g, "listings": 120}));
            }
            "generic-large-traced" => {
                let n = 2 + cx.rng.usize(299);
                let density = *cx.rng.pick(&[5u64, 20, 80]);
                let mut g = random_dag(&mut cx.rng, n, density);
                let mut kind = "dag".to_string();
                if cx.rng.chance(1, 3) {
                    kind = add_cycle(&mut cx.rng, &mut g);
                }
                let mut listing: Vec<usize> = (0..n).collect();
                cx.rng.shuffle(&mut listing);
                if cx.rng.chance(1, 4) {
                    listing.truncate(1 + cx.rng.usize(n));
                }
                cx.nontrivial(crate::rt::prng::strhash(&format!("{:?}{:?}", g, listing)));
                self.traced(cx, &g, &listing, "generic-traced");
                cx.sample(|| json!({"nodes": n, "kind": kind, "edges": g.iter().map(|d| d.len()).sum::<usize>()}));
            }
            "embedded-4" => {
                // loop-free 4-node digraph #n; acyclic ones only (cyclic ones run isolated elsewhere)
                let code = cx.n;
                let mut masks = vec![0u32; 4];
                let mut bit = 0;
                for i in 0..4 {
                    for j in 0..4 {
                        if i != j {
                            if code >> bit & 1 == 1 {
                                masks[i] |= 1 << j;
                            }
                            bit += 1;
                        }
                    }
                }
                let g = from_masks(4, &masks);
                if has_cycle(&g, &[true; 4]) {
                    cx.count("embedded4_cyclic_skipped_here");
                    return;
                }
                cx.count("embedded4_dags");
                for l in permutations(4) {
                    if code != 0 {
                        cx.nontrivial(code * 24 + crate::rt::prng::strhash(&format!("{:?}", l)) % 24);
                    }
                    self.embedded_raw(cx, &g, &l, "embedded", 3);
                    self.embedded_gds(cx, &g, &l, "embedded");
                    self.embedded_tetris(cx, &g, &l, "embedded", 7);
                    self.embedded_tetris_raw(cx, &g, &l, "embedded");
                }
                cx.sample(|| json!({"dag": g, "listings": 24}));
            }
            "embedded-dag" => {
                let big = cx.rng.chance(1, 10);
                let n = 2 + cx.rng.usize(if big { 299 } else { 30 });
                let density = *cx.rng.pick(&[10u64, 60, 300]);
                let g = random_dag(&mut cx.rng, n, density);
                let mut listing: Vec<usize> = (0..n).collect();
                cx.rng.shuffle(&mut listing);
                if cx.rng.bool() {
                    // users first: sort by descending dependency count
                    listing.sort_by_key(|i| std::cmp::Reverse(g[*i].len()));
                }
                cx.nontrivial(crate::rt::prng::strhash(&format!("{:?}{:?}", g, listing)));
                // one library in three registers only its top cells (those nobody instantiates), or those and a few more: everything else
                // is reachable through instances alone (a GDSII library always holds all its structures)
                let registered: Vec<usize> = if cx.rng.chance(1, 3) {
                    let mut used = vec![false; n];
                    for d in g.iter() {
                        for &j in d {
                            used[j] = true;
                        }
                    }
                    let extra = cx.rng.usize(4);
                    let mut some: Vec<usize> = listing.iter().copied().filter(|i| !used[*i]).collect();
                    for _ in 0..extra {
                        let k = cx.rng.usize(n);
                        if !some.contains(&k) {
                            some.push(k);
                        }
                    }
                    cx.count("embedded_dags_with_only_top_cells_registered");
                    cx.max("max.cells_reachable_from_fewer_registered", (n - some.len()) as u64);
                    some
                } else {
                    listing.clone()
                };
                self.embedded_raw(cx, &g, &registered, "embedded", 3);
                self.embedded_gds(cx, &g, &listing, "embedded");
                self.embedded_tetris(cx, &g, &registered, "embedded", 7);
                if n <= 40 {
                    self.embedded_tetris_raw(cx, &g, &registered, "embedded");
                }
                cx.sample(|| json!({"nodes": n, "edges": g.iter().map(|d| d.len()).sum::<usize>(), "listing_head": listing.iter().take(8).collect::<Vec<_>>()}));
            }
            "huge-library" => {
                use layout21tetris as tet;
                let n = 70_000 + cx.rng.usize(60_000);
                // a random DAG (edges from higher to lower rank), built directly: 1-3 dependencies per cell
                let mut g: Graph = vec![Vec::new(); n];
                for i in 1..n {
                    for _ in 0..1 + cx.rng.usize(3) {
                        let j = cx.rng.usize(i);
                        if !g[i].contains(&j) {
                            g[i].push(j);
                        }
                    }
                }
                // listing: users first (descending index), so that the order has to be repaired everywhere; or (every other case) already in
                // dependency order except for ONE leaf that is stored tens of thousands of positions behind its only user
                let listing: Vec<usize> = if cx.n % 2 == 0 {
                    (0..n).rev().collect()
                } else {
                    let mut l: Vec<usize> = (0..n).collect();
                    let user = 1000 + cx.rng.usize(20_000);
                    g.push(Vec::new()); // the displaced leaf: node n
                    g[user].push(n);
                    let at = 65_536 + cx.rng.usize(user.min(n - 65_536));
                    l.insert(at.min(l.len()), n);
                    l
                };
                let n = g.len();
                cx.nontrivial(crate::rt::prng::strhash(&format!("{}{:?}", n, &g[n - 50..])));
                cx.count(if cx.n % 2 == 0 { "huge_libraries_users_first" } else { "huge_libraries_presorted_but_one" });
                cx.eval();
                let lib = tetris_lib(&g, &listing);
                match guard(|| lib.dep_order()) {
                    Err(c) => cx.violation(&format!("huge-library|tetris-dep_order|panic|{}", c.norm_msg()), json!({"cells": n, "panic": c.msg})),
                    Ok(cells) => {
                        let seq: Vec<usize> = cells.iter().map(|c| idx_of(&c.read().unwrap().name)).collect();
                        match judge(&g, &listing, Some(&seq)) {
                            Err(w) => cx.violation(&format!("huge-library|tetris-dep_order|{}", w), json!({"cells": n, "result_len": seq.len()})),
                            Ok(()) => cx.count("huge_tetris_dep_orders_valid"),
                        }
                    }
                }
                cx.eval();
                let lib = tetris_lib(&g, &listing);
                match guard(|| tet::conv::proto::ProtoExporter::export(&lib)) {
                    Err(c) => cx.violation(&format!("huge-library|tetris-proto-export|panic|{}", c.norm_msg()), json!({"cells": n, "panic": c.msg})),
                    Ok(Err(e)) => cx.violation("huge-library|tetris-proto-export|acyclic-graph-rejected", json!({"cells": n, "error": format!("{:?}", e).chars().take(200).collect::<String>()})),
                    Ok(Ok(p)) => {
                        let seq: Vec<usize> = p.cells.iter().map(|c| idx_of(&c.name)).collect();
                        match judge(&g, &listing, Some(&seq)) {
                            Err(w) => cx.violation(&format!("huge-library|tetris-proto-export|{}", w), json!({"cells": n, "result_len": seq.len()})),
                            Ok(()) => cx.count("huge_tetris_proto_cell_orders_valid"),
                        }
                    }
                }
                cx.sample(|| json!({"cells": n, "edges": g.iter().map(|d| d.len()).sum::<usize>()}));
            }
            "embedded-lock-state" => {
                // the state of the cells' locks at the moment of the call: a cell that another thread is editing (its write guard is held while
                // the orderer starts, and released a little later), or a cell whose lock an earlier panic poisoned. The orderer may wait, and on
                // a poisoned cell it may refuse (panic / error): what it may never do is hand back an ordering that breaks the rule.
                let n = 2 + cx.rng.usize(12);
                let g = random_dag(&mut cx.rng, n, 300);
                let mut listing: Vec<usize> = (0..n).collect();
                cx.rng.shuffle(&mut listing);
                listing.sort_by_key(|i| std::cmp::Reverse(g[*i].len())); // users first, so that the order has to be repaired
                if cx.rng.chance(1, 3) {
                    listing.truncate(1 + cx.rng.usize(n));
                }
                let lib = tetris_lib(&g, &listing);
                let users: Vec<usize> = (0..lib.cells.len()).filter(|k| !g[idx_of(&lib.cells[*k].read().unwrap().name)].is_empty()).collect();
                if users.is_empty() {
                    cx.count("lock_state_graph_without_edges");
                    return;
                }
                let victim = lib.cells[*cx.rng.pick(&users)].clone();
                cx.nontrivial(crate::rt::prng::strhash(&format!("{:?}{:?}", g, listing)));
                cx.eval();
                let poisoned = cx.rng.chance(1, 3);
                let names = |cells: &[layout21tetris::utils::Ptr<layout21tetris::cell::Cell>]| -> Vec<usize> {
                    cells.iter().map(|c| idx_of(&match c.read() { Ok(g) => g.name.clone(), Err(p) => p.into_inner().name.clone() })).collect()
                };
                let res = if poisoned {
                    let v2 = victim.clone();
                    let _ = guard(move || {
                        let _g = v2.write().unwrap();
                        panic!("lvh: poisoning a cell lock on purpose");
                    });
                    if !victim.is_poisoned() {
                        cx.inconclusive("could not poison a cell lock");
                        return;
                    }
                    guard(|| lib.dep_order()).map(|c| names(&c))
                } else {
                    let (tx_started, rx_started) = std::sync::mpsc::channel::<()>();
                    let wg = victim.write().unwrap();
                    std::thread::scope(|sc| {
                        let h = sc.spawn(|| {
                            let _ = tx_started.send(());
                            guard(|| lib.dep_order()).map(|c| names(&c))
                        });
                        let _ = rx_started.recv();
                        std::thread::sleep(std::time::Duration::from_millis(15));
                        drop(wg);
                        h.join().unwrap_or_else(|_| Err(Caught { msg: "orderer thread died".into(), ..Default::default() }))
                    })
                };
                let class = if poisoned { "lock-state|poisoned-cell" } else { "lock-state|cell-being-edited" };
                match res {
                    Err(c) if poisoned => {
                        let _ = c;
                        cx.count("lock_state_poisoned_refused");
                    }
                    Err(c) => cx.violation(&format!("{}|tetris-dep_order|panic|{}", class, c.norm_msg()), json!({"graph": g, "listing": listing, "panic": c.msg})),
                    Ok(seq) => match judge(&g, &listing, Some(&seq)) {
                        Err(w) => cx.violation(&format!("{}|tetris-dep_order|{}", class, w), json!({"graph": g, "listing": listing, "result": seq})),
                        Ok(()) => cx.count(if poisoned { "lock_state_poisoned_valid_order" } else { "lock_state_waited_valid_order" }),
                    },
                }
                cx.sample(|| json!({"nodes": n, "poisoned": poisoned}));
            }
            "embedded-cyclic-raw-deporder" | "embedded-cyclic-raw-to_proto" | "embedded-cyclic-gds" | "embedded-cyclic-tetris-dep_order" | "embedded-cyclic-tetris-proto" | "embedded-cyclic-tetris-placer" => {
                let big = cx.n % 4 == 0;
                let lead_in = cx.n % 4 == 1;
                let (n, g, kind, listing) = if lead_in {
                    // a SHORT cycle (1..3 items) at the bottom of a long acyclic lead-in chain (9..48 items), entered from the top of the
                    // chain: many frames open, few of them on the cycle
                    let l = 9 + cx.rng.usize(40);
                    let c = 1 + cx.rng.usize(3);
                    let n = l + c;
                    let mut g: Graph = vec![Vec::new(); n];
                    for i in 0..l {
                        g[i].push(i + 1);
                    }
                    for t in 0..c {
                        g[l + t].push(l + (t + 1) % c);
                    }
                    let mut rest: Vec<usize> = (1..n).collect();
                    cx.rng.shuffle(&mut rest);
                    let mut listing = vec![0usize];
                    listing.extend(rest);
                    (n, g, format!("short-cycle-below-a-lead-in-of-{}", if l < 24 { "9..23" } else { "24..48" }), listing)
                } else {
                    let n = 1 + cx.rng.usize(if big { 300 } else { 6 });
                    let mut g = random_dag(&mut cx.rng, n, 100);
                    let kind = add_cycle(&mut cx.rng, &mut g);
                    let mut listing: Vec<usize> = (0..n).collect();
                    cx.rng.shuffle(&mut listing);
                    (n, g, kind, listing)
                };
                cx.nontrivial(crate::rt::prng::strhash(&format!("{:?}{:?}", g, listing)));
                cx.count(&format!("cyclic_cases.{}", kind));
                if gen == "embedded-cyclic-raw-deporder" {
                    self.embedded_raw(cx, &g, &listing, "cyclic", 1);
                } else if gen == "embedded-cyclic-raw-to_proto" {
                    self.embedded_raw(cx, &g, &listing, "cyclic", 2);
                } else if gen == "embedded-cyclic-tetris-dep_order" {
                    self.embedded_tetris(cx, &g, &listing, "cyclic", 1);
                } else if gen == "embedded-cyclic-tetris-proto" {
                    self.embedded_tetris(cx, &g, &listing, "cyclic", 2);
                } else if gen == "embedded-cyclic-tetris-placer" {
                    self.embedded_tetris(cx, &g, &listing, "cyclic", 4);
                } else {
                    self.embedded_gds(cx, &g, &listing, "cyclic");
                }
                cx.sample(|| json!({"nodes": n, "cycle": kind}));
            }
            other => cx.inconclusive(format!("unknown generator {}", other)),
        }
    }
    fn finish(&self, total: &mut Rec, _tier: Tier) {
        if total.counters.get("hook.dep_events").copied().unwrap_or(0) == 0 {
            total.inconclusive.push("orderer event hook never fired".into());
        }
    }
}
