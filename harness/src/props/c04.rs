//! C04 — reading a LEF file yields every statement in it, with exact values.

use crate::gen::lefgen::*;
use crate::rt::*;
use lef21::LefLibrary;
use serde_json::json;

pub struct C04;

pub const REPO_LEF_DIRS: &[&str] = &["/repo/lef21/resources", "/repo/layout21converters/resources"];

/// Read LEF text through the only public entry point (a file)
/// Texts the reader rejects (or accepts) for different reasons, read on the same thread right BEFORE a judged read: nothing of them -
/// a version in effect, a half-filled buffer, an error state - may leak into the next call.
const DISTURBANCES: &[&str] = &[
    "VERSION 5.4 ;\nMACRO a\n  SIZE 1 BY 2 ;\nEND a\n",                       // pre-5.6 without END LIBRARY: rejected at end of input
    "VERSION 5.3 ;\nNAMESCASESENSITIVE ON ;\nMACRO x\n  SIZE 1 BY ;\n",        // syntax error inside a macro
    "VERSION 5.5 ;\nNOWIREEXTENSIONATPIN ON ;\nEND LIBRARY\nMACRO late\n",     // text after END LIBRARY
    "MACRO \"unterminated\n",                                                  // lexer error
    "VERSION 5.8 ;\nBEGINEXT \"t\" never closed",                               // runs into end of input inside an extension
    "VERSION 5.4 ;\nUNITS\n  DATABASE MICRONS 1000 ;\nEND UNITS\nEND LIBRARY\n", // a valid old-version library
    "\u{feff}VERSION 5.8 ;",                                                    // byte-order mark
];
pub fn open_text(cx: &Cx, text: &str) -> Result<Result<LefLibrary, lef21::LefError>, Caught> {
    let h = crate::rt::prng::strhash(text);
    if h % 3 == 0 {
        let p = cx.tmp("disturb.lef");
        if std::fs::write(&p, DISTURBANCES[(h / 3) as usize % DISTURBANCES.len()]).is_ok() {
            let _ = guard(|| LefLibrary::open(&p));
            let _ = std::fs::remove_file(&p);
        }
    }
    let path = cx.tmp("in.lef");
    std::fs::write(&path, text).expect("tmpfs write");
    let r = guard(|| LefLibrary::open(&path));
    let _ = std::fs::remove_file(&path);
    r
}
pub fn feature_bits(l: &LefLibrary) -> u64 {
    let mut b = 0u64;
    let mut i = 0;
    let mut f = |x: bool| {
        if x {
            b |= 1 << i;
        }
        i += 1;
    };
    f(l.version.is_some());
    f(l.names_case_sensitive.is_some());
    f(l.no_wire_extension_at_pin.is_some());
    f(l.bus_bit_chars.is_some());
    f(l.divider_char.is_some());
    f(l.units.is_some());
    f(l.units.as_ref().map_or(false, |u| u.database_microns.is_some()));
    f(l.fixed_mask);
    f(l.clearance_measure.is_some());
    f(l.manufacturing_grid.is_some());
    f(l.use_min_spacing.is_some());
    f(!l.property_definitions.is_empty());
    f(!l.extensions.is_empty());
    f(!l.sites.is_empty());
    f(l.vias.iter().any(|v| matches!(v.data, lef21::LefViaDefData::Fixed(_))));
    f(l.vias.iter().any(|v| matches!(v.data, lef21::LefViaDefData::Generated(_))));
    f(!l.macros.is_empty());
    f(l.macros.iter().any(|m| !m.properties.is_empty()));
    f(l.macros.iter().any(|m| m.density.is_some()));
    f(l.macros.iter().any(|m| !m.obs.is_empty()));
    f(l.macros.iter().any(|m| m.foreign.is_some()));
    f(l.macros.iter().any(|m| m.source.is_some()));
    f(l.macros.iter().any(|m| m.fixed_mask));
    f(l.macros.iter().any(|m| m.pins.iter().any(|p| !p.properties.is_empty())));
    f(l.macros.iter().any(|m| m.pins.iter().any(|p| !p.antenna_attrs.is_empty())));
    f(l.macros.iter().any(|m| m.pins.iter().any(|p| p.ports.len() > 1)));
    f(l.macros.iter().any(|m| m.pins.iter().any(|p| p.net_expr.is_some())));
    b
}

impl Prop for C04 {
    fn id(&self) -> &'static str {
        "C04"
    }
    fn rule(&self) -> String {
        "LEF library values over the supported subset (header statements, all eight UNITS, PROPERTYDEFINITIONS string/real/integer with RANGE and defaults, BEGINEXT, SITE, fixed and generated VIA, MACRO with every CLASS variant, FOREIGN, ORIGIN, SIZE, SYMMETRY, SITE, EEQ, FIXEDMASK, SOURCE (<=5.4), DENSITY, PROPERTY, OBS, \
         PIN with every attribute incl. antenna with/without LAYER, NETEXPR, PROPERTY, multiple PORTs with CLASS, LAYER geometries with EXCEPTPGNET/SPACING/DESIGNRULEWIDTH/WIDTH, RECT/POLYGON/PATH with MASK and ITERATE..DO..BY..STEP, VIA placements) are generated from a seed and rendered by an independent renderer (gen/lefgen.rs) \
         in 4 (quick) / 32 (thorough) lexical forms each: statement permutations, arbitrary whitespace/newlines/CRLF, comments incl. non-ASCII, mixed-case keywords, alternative decimal spellings (trailing zeros, leading zeros, leading dot), VERSION 5.3..5.8, with/without END LIBRARY. \
         Oracle: LefLibrary::open(text) must be Ok and == the generated value (decimals by value). distinct_nontrivial = distinct rendered texts plus distinct statement-feature masks."
            .into()
    }
    fn assumptions(&self) -> Vec<String> {
        vec![
            "conventions of the data model are not judged: string literals keep their quotes, antenna keys and PROPERTY numbers keep their source spelling, one OBS/CLASS/DENSITY per macro".into(),
            "lexical domain: tokens separated by whitespace (also before ';'), names start with an ASCII letter, no '+' sign or exponent notation".into(),
            "trusted base: the independent renderer in gen/lefgen.rs (keyword spellings typed from the LEF 5.8 reference)".into(),
        ]
    }
    fn miri_gen(&self) -> Option<&'static str> {
        Some("rendered")
    }
    fn plan(&self, tier: Tier) -> Vec<GenSpec> {
        vec![
            GenSpec::random("rendered", tier.pick(25_000, 300_000)),
            GenSpec::enumerated("repo-files", 1),
            // libraries of 50..400 KB with non-ASCII text in comments and string literals all over: every multi-byte character position
            // relative to any block size a chunked file reader may use
            GenSpec::random("big-files", tier.pick(40, 1_200)),
        ]
    }
    fn run_case(&self, cx: &mut Cx) {
        match cx.gen.as_str() {
            "rendered" | "big-files" => {
                let big = cx.gen == "big-files";
                let cfg = if big { LefCfg { max_macros: 40 + cx.rng.usize(200), max_pins: 3, hostile_strings: true, ..Default::default() } } else { LefCfg::default() };
                let g = rand_lef(&mut cx.rng, &cfg);
                cx.nontrivial(feature_bits(&g.lib) | 1 << 60);
                let forms = if big { 1 } else { cx.tier.pick(4, 32) };
                for k in 0..forms {
                    let style = if big {
                        let mut st = Style::random(&mut cx.rng);
                        st.comments = true;
                        st.nonascii_comments = true;
                        st
                    } else if k == 0 {
                        Style::plain()
                    } else {
                        Style::random(&mut cx.rng)
                    };
                    let (text, _) = render(&g, &cfg, &mut cx.rng, style.clone());
                    if big {
                        cx.max("max.big_file_bytes", text.len() as u64);
                    }
                    // (witnesses of big files are clipped)
                    let text = text;
                    cx.eval();
                    cx.nontrivial(crate::rt::prng::strhash(&text));
                    let na = if text.is_ascii() { "ascii" } else { "nonascii" };
                    cx.count(&format!("texts_{}", na));
                    match open_text(cx, &text) {
                        Err(c) => cx.violation(&format!("{}|read-panic|{}|{}", na, c.site(), c.norm_msg()), json!({"panic": c.msg, "at": format!("{}:{}", c.file, c.line), "text": text.chars().take(4000).collect::<String>()})),
                        Ok(Err(e)) => cx.violation(&format!("{}|read-error|{}", na, lef_err_class(&e)), json!({"error": format!("{:?}", e).chars().take(400).collect::<String>(), "bytes": text.len(), "text": text.chars().take(4000).collect::<String>()})),
                        Ok(Ok(got)) => {
                            if !lef_same(&got, &g.lib) {
                                let (class, path) = lef_diff(&g.lib, &got);
                                cx.violation(&format!("{}|mismatch|{}", na, class), json!({"at": path, "bytes": text.len(), "text": text.chars().take(4000).collect::<String>()}));
                            } else {
                                cx.count("read_exact");
                            }
                        }
                    }
                    if k == 0 {
                        cx.sample(|| json!({"text": text.chars().take(3000).collect::<String>(), "bytes": text.len()}));
                    }
                }
            }
            "repo-files" => {
                // the repository's LEF files must at least be readable (no reference value to compare with)
                let mut n = 0;
                for d in REPO_LEF_DIRS {
                    if let Ok(rd) = std::fs::read_dir(d) {
                        for e in rd.flatten() {
                            let p = e.path();
                            if p.extension().map_or(false, |x| x == "lef") {
                                cx.eval();
                                n += 1;
                                match guard(|| LefLibrary::open(&p)) {
                                    Err(c) => cx.violation(&format!("repo-file-panic|{}", c.norm_msg()), json!({"file": p.to_string_lossy(), "panic": c.msg})),
                                    Ok(_) => cx.count("repo_files_opened_without_panic"),
                                }
                            }
                        }
                    }
                }
                cx.sample(|| json!({"repo_lef_files": n}));
            }
            other => cx.inconclusive(format!("unknown generator {}", other)),
        }
    }
    fn finish(&self, total: &mut Rec, _tier: Tier) {
        if total.counters.get("read_exact").copied().unwrap_or(0) == 0 && total.violations.is_empty() {
            total.inconclusive.push("no text was read back exactly".into());
        }
    }
}
