//! C19 — gridded-layout libraries survive the trip through their protobuf schema.

use crate::gen::tetgen::*;
use crate::rt::*;
use layout21protos as proto;
use layout21tetris as tet;
use proto::tetris as tproto;
use serde_json::json;
use std::collections::BTreeMap;
use tet::conv::proto::{ProtoExporter, ProtoLibImporter};
use tet::library::Library;

pub struct C19;

#[derive(Debug, Clone, PartialEq)]
struct CellSum {
    has_layout: bool,
    has_abs: bool,
    outline: (Vec<isize>, Vec<isize>),
    metals: usize,
    insts: Vec<(String, String, isize, isize, bool, bool)>,
    assigns: Vec<(String, (usize, usize), (usize, usize))>,
    cuts: Vec<((usize, usize), (usize, usize))>,
    abs_outline: (Vec<isize>, Vec<isize>),
    abs_metals: usize,
}
fn summarize(lib: &Library) -> Result<(String, BTreeMap<String, CellSum>), String> {
    let mut m = BTreeMap::new();
    // every cell of the library: the listed ones and those only reachable through instances (a library may instantiate cells it does not list)
    let mut all: Vec<tet::utils::Ptr<tet::cell::Cell>> = lib.cells.iter().cloned().collect();
    let mut k = 0;
    while k < all.len() {
        let kids: Vec<tet::utils::Ptr<tet::cell::Cell>> = {
            let c = all[k].read().map_err(|_| "lock")?;
            match &c.layout {
                Some(l) => l.instances.iter().map(|i| i.read().unwrap().cell.clone()).collect(),
                None => vec![],
            }
        };
        for kid in kids {
            if !all.contains(&kid) {
                all.push(kid);
            }
        }
        k += 1;
    }
    for c in all.iter() {
        let c = c.read().map_err(|_| "lock")?;
        let mut s = CellSum { has_layout: false, has_abs: false, outline: (vec![], vec![]), metals: 0, insts: vec![], assigns: vec![], cuts: vec![], abs_outline: (vec![], vec![]), abs_metals: 0 };
        if let Some(l) = &c.layout {
            s.has_layout = true;
            s.outline = (l.outline.x.iter().map(|p| p.num).collect(), l.outline.y.iter().map(|p| p.num).collect());
            s.metals = l.metals;
            for i in l.instances.iter() {
                let i = i.read().map_err(|_| "lock")?;
                let loc = i.loc.abs().map_err(|_| "instance not absolutely placed")?;
                s.insts.push((i.inst_name.clone(), i.cell.read().map_err(|_| "lock")?.name.clone(), loc.x.num, loc.y.num, i.reflect_horiz, i.reflect_vert));
            }
            s.assigns = l.assignments.iter().map(|a| (a.net.clone(), (a.at.track.layer, a.at.track.track), (a.at.cross.layer, a.at.cross.track))).collect();
            s.cuts = l.cuts.iter().map(|a| ((a.track.layer, a.track.track), (a.cross.layer, a.cross.track))).collect();
        }
        if let Some(a) = &c.abs {
            s.has_abs = true;
            s.abs_outline = (a.outline.x.iter().map(|p| p.num).collect(), a.outline.y.iter().map(|p| p.num).collect());
            s.abs_metals = a.metals;
        }
        m.insert(c.name.clone(), s);
    }
    Ok((lib.name.clone(), m))
}
fn deps_first(p: &tproto::Library) -> bool {
    let mut seen: Vec<&str> = Vec::new();
    for c in &p.cells {
        if let Some(l) = &c.layout {
            for i in &l.instances {
                if let Some(proto::utils::reference::To::Local(n)) = i.cell.as_ref().and_then(|r| r.to.as_ref()) {
                    if !seen.contains(&n.as_str()) {
                        return false;
                    }
                }
            }
        }
        seen.push(&c.name);
    }
    true
}

/// Enumerate every single-mandatory-part removal (and a few invalid substitutions) of a valid message
fn mutants(p: &tproto::Library) -> Vec<(String, tproto::Library)> {
    let mut out = Vec::new();
    for (ci, c) in p.cells.iter().enumerate() {
        if let Some(l) = &c.layout {
            let mut q = p.clone();
            q.cells[ci].layout.as_mut().unwrap().outline = None;
            out.push(("layout-without-outline".to_string(), q));
            for (ii, _) in l.instances.iter().enumerate() {
                let set = |f: &dyn Fn(&mut tproto::Instance)| {
                    let mut q = p.clone();
                    f(&mut q.cells[ci].layout.as_mut().unwrap().instances[ii]);
                    q
                };
                out.push(("instance-without-loc".into(), set(&|i| i.loc = None)));
                out.push(("instance-with-empty-place".into(), set(&|i| i.loc = Some(tproto::Place { place: None }))));
                out.push(("instance-with-relative-place".into(), set(&|i| i.loc = Some(tproto::Place { place: Some(tproto::place::Place::Rel(tproto::RelPlace {})) }))));
                out.push(("instance-without-cell".into(), set(&|i| i.cell = None)));
                out.push(("instance-with-empty-reference".into(), set(&|i| i.cell = Some(proto::utils::Reference { to: None }))));
                out.push(("instance-of-undefined-cell".into(), set(&|i| i.cell = Some(proto::utils::Reference { to: Some(proto::utils::reference::To::Local("no_such_cell".into())) }))));
                out.push(("instance-of-external-cell".into(), set(&|i| i.cell = Some(proto::utils::Reference { to: Some(proto::utils::reference::To::External(proto::utils::QualifiedName { domain: "d".into(), name: "n".into() })) }))));
            }
            for (ai, _) in l.assignments.iter().enumerate() {
                let set = |f: &dyn Fn(&mut tproto::Assign)| {
                    let mut q = p.clone();
                    f(&mut q.cells[ci].layout.as_mut().unwrap().assignments[ai]);
                    q
                };
                out.push(("assign-without-at".into(), set(&|a| a.at = None)));
                out.push(("assign-without-track".into(), set(&|a| a.at.as_mut().unwrap().track = None)));
                out.push(("assign-without-cross".into(), set(&|a| a.at.as_mut().unwrap().cross = None)));
                out.push(("assign-with-negative-track".into(), set(&|a| a.at.as_mut().unwrap().track.as_mut().unwrap().track = -3)));
            }
            for (ki, _) in l.cuts.iter().enumerate() {
                let mut q = p.clone();
                q.cells[ci].layout.as_mut().unwrap().cuts[ki].track = None;
                out.push(("cut-without-track".into(), q));
                let mut q = p.clone();
                q.cells[ci].layout.as_mut().unwrap().cuts[ki].cross = None;
                out.push(("cut-without-cross".into(), q));
            }
            // malformed outlines
            let mut q = p.clone();
            q.cells[ci].layout.as_mut().unwrap().outline.as_mut().unwrap().x.clear();
            out.push(("outline-with-no-x".into(), q));
            let mut q = p.clone();
            q.cells[ci].layout.as_mut().unwrap().outline.as_mut().unwrap().y.push(1);
            out.push(("outline-with-unequal-lengths".into(), q));
            let mut q = p.clone();
            q.cells[ci].layout.as_mut().unwrap().outline.as_mut().unwrap().metals = -1;
            out.push(("outline-with-negative-metals".into(), q));
        }
        if c.r#abstract.is_some() {
            let mut q = p.clone();
            q.cells[ci].r#abstract.as_mut().unwrap().outline = None;
            out.push(("abstract-without-outline".into(), q));
        }
    }
    // a user listed before the cell it instantiates
    if p.cells.len() >= 2 {
        for ci in 0..p.cells.len() {
            let uses_other = p.cells[ci].layout.as_ref().map_or(false, |l| !l.instances.is_empty());
            if uses_other {
                let mut q = p.clone();
                let c = q.cells.remove(ci);
                q.cells.insert(0, c);
                out.push(("user-listed-before-dependency".into(), q));
                break;
            }
        }
    }
    out
}

impl Prop for C19 {
    fn id(&self) -> &'static str {
        "C19"
    }
    fn level(&self) -> &'static str {
        "fault_enumeration"
    }
    fn rule(&self) -> String {
        "Placed gridded libraries from gen/tetgen.rs: 1-6 cells forming a DAG in straight/reversed/shuffled listing order, stepped outlines (1-4 steps), 0-4 metals, named instances at absolute locations with all four reflection combinations, assignments and cuts at arbitrary track crossings, optional port-less abstracts. \
         Oracle 1: ProtoLibImporter::import(ProtoExporter::export(lib)) equals lib on library name and per cell (by name) outline steps, metals, ordered instances (name, target, loc, both reflections), assignments, cuts, abstract outline; the exported message lists dependencies first; re-exporting the imported library reproduces the first message; export works in a second thread while read guards are held on every cell. \
         Oracle 2 (fault enumeration on the message): for every cell/instance/assignment/cut of every valid message, each mandatory part is removed in turn (outline, loc, place, cell, reference target, at, track, cross), and relative places, undefined/external/later-defined cells, malformed outlines are substituted: import must be Err, never Ok and never a panic. \
         distinct_nontrivial = distinct libraries (summary hash) with an instance, assignment or cut, plus distinct mutant messages."
            .into()
    }
    fn assumptions(&self) -> Vec<String> {
        vec!["abstracts with ports are outside the claim (import_abstract_port is an acknowledged todo!())".into()]
    }
    fn miri_gen(&self) -> Option<&'static str> {
        Some("roundtrip")
    }
    fn plan(&self, tier: Tier) -> Vec<GenSpec> {
        vec![GenSpec::random("roundtrip", tier.pick(30_000, 1_200_000)), GenSpec::random("message-faults", tier.pick(1_500, 150_000)), GenSpec::random("export-beside-readers", tier.pick(300, 6_000))]
    }
    fn run_case(&self, cx: &mut Cx) {
        let g = rand_placed_lib(&mut cx.rng, 6, true);
        let want = match summarize(&g.lib) {
            Ok(w) => w,
            Err(e) => {
                cx.inconclusive(format!("generator: {}", e));
                return;
            }
        };
        let exported = guard(|| ProtoExporter::export(&g.lib));
        let p = match exported {
            Err(c) => {
                cx.eval();
                cx.violation(&format!("export-panic|{}|{}", c.site(), c.norm_msg()), json!({"panic": c.msg}));
                return;
            }
            Ok(Err(e)) => {
                cx.eval();
                cx.violation("export-error", json!({"error": format!("{:?}", e).chars().take(300).collect::<String>()}));
                return;
            }
            Ok(Ok(p)) => p,
        };
        // one case in six: a clone of the library exports to the same message
        if cx.n % 6 == 4 {
            match guard(|| ProtoExporter::export(&g.lib.clone())) {
                Ok(Ok(p2)) if p2 == p => cx.count("clone_exports_to_the_same_message"),
                Ok(Ok(p2)) => {
                    cx.violation("export-of-a-clone-differs", json!({"cells": p.cells.iter().map(|c| c.name.chars().take(40).collect::<String>()).collect::<Vec<_>>(), "cells_of_clone": p2.cells.iter().map(|c| c.name.chars().take(40).collect::<String>()).collect::<Vec<_>>()}));
                    return;
                }
                Ok(Err(e)) => {
                    cx.violation("export-of-a-clone-fails", json!({"error": format!("{:?}", e).chars().take(300).collect::<String>()}));
                    return;
                }
                Err(c) => {
                    cx.violation(&format!("export-panic|clone|{}|{}", c.site(), c.norm_msg()), json!({"panic": c.msg}));
                    return;
                }
            }
        }
        match cx.gen.as_str() {
            "roundtrip" => {
                cx.eval();
                if want.1.values().any(|c| !c.insts.is_empty() || !c.assigns.is_empty() || !c.cuts.is_empty()) {
                    cx.nontrivial(crate::rt::prng::strhash(&format!("{:?}", want)));
                }
                if !deps_first(&p) {
                    cx.violation("export|user-listed-before-dependency", json!({"cells": p.cells.iter().map(|c| c.name.clone()).collect::<Vec<_>>()}));
                    return;
                }
                let back = match guard(|| ProtoLibImporter::import(&p)) {
                    Err(c) => {
                        cx.violation(&format!("import-panic|{}|{}", c.site(), c.norm_msg()), json!({"panic": c.msg}));
                        return;
                    }
                    Ok(Err(e)) => {
                        cx.violation("import-error", json!({"error": format!("{:?}", e).chars().take(300).collect::<String>()}));
                        return;
                    }
                    Ok(Ok(l)) => l,
                };
                match summarize(&back) {
                    Err(e) => cx.violation("import|unreadable", json!({"error": e})),
                    Ok(got) => {
                        if got.0 != want.0 {
                            cx.violation("library-name", json!({"want": want.0, "got": got.0}));
                        } else if got.1.keys().collect::<Vec<_>>() != want.1.keys().collect::<Vec<_>>() {
                            cx.violation("cell-set", json!({"want": want.1.keys().collect::<Vec<_>>(), "got": got.1.keys().collect::<Vec<_>>()}));
                        } else {
                            for (n, w) in &want.1 {
                                let gch = &got.1[n];
                                if w != gch {
                                    let field = if w.outline != gch.outline { "outline" } else if w.metals != gch.metals { "metals" } else if w.insts != gch.insts { "instances" } else if w.assigns != gch.assigns { "assignments" } else if w.cuts != gch.cuts { "cuts" } else if w.has_abs != gch.has_abs || w.has_layout != gch.has_layout { "view-presence" } else { "abstract" };
                                    cx.violation(&format!("cell|{}", field), json!({"cell": n, "want": format!("{:?}", w).chars().take(600).collect::<String>(), "got": format!("{:?}", gch).chars().take(600).collect::<String>()}));
                                    return;
                                }
                            }
                            cx.count("roundtrip_ok");
                        }
                    }
                }
                // the trip is a fixed point: exporting what was imported gives the first message again (same cells, once each, same content)
                match guard(|| ProtoExporter::export(&back)) {
                    Ok(Ok(p2)) => {
                        if p2 != p {
                            let (n1, n2): (Vec<&String>, Vec<&String>) = (p.cells.iter().map(|c| &c.name).collect(), p2.cells.iter().map(|c| &c.name).collect());
                            cx.violation(if n1 != n2 { "re-export|cell-list-differs" } else { "re-export|message-differs" }, json!({"first": n1, "second": n2}));
                        } else {
                            cx.count("re_export_is_fixed_point");
                        }
                    }
                    Ok(Err(e)) => cx.violation("re-export|error", json!({"error": format!("{:?}", e).chars().take(300).collect::<String>()})),
                    Err(c) => cx.violation(&format!("re-export|panic|{}|{}", c.site(), c.norm_msg()), json!({"panic": c.msg})),
                }
                cx.sample(|| json!({"library": want.0, "cells": want.1.keys().collect::<Vec<_>>()}));
            }
            "export-beside-readers" => {
                // Export is a read of the library: it has to work while other readers hold read guards on the cells (a viewer, a second exporter,
                // the caller's own loop over `lib.cells`). Here this thread holds a read guard on every cell while a second thread exports.
                // A shared reader can never block another reader, so an export that has not finished after 20 s, and finishes once the guards
                // are dropped, was waiting for exclusive access.
                static BLOCKED: std::sync::atomic::AtomicBool = std::sync::atomic::AtomicBool::new(false);
                if BLOCKED.load(std::sync::atomic::Ordering::Relaxed) {
                    cx.count("export_beside_readers_skipped_after_a_blocked_export");
                    return;
                }
                cx.eval();
                cx.nontrivial(crate::rt::prng::strhash(&format!("{:?}", want)) ^ 0xbeef);
                let lib = &g.lib;
                let guards: Vec<_> = lib.cells.iter().filter_map(|c| c.read().ok()).collect();
                let (tx, rx) = std::sync::mpsc::channel();
                let verdict = std::thread::scope(|sc| {
                    let h = sc.spawn(move || {
                        let r = guard(|| ProtoExporter::export(lib).map_err(|e| format!("{:?}", e).chars().take(300).collect::<String>()));
                        let _ = tx.send(());
                        r
                    });
                    let in_time = rx.recv_timeout(std::time::Duration::from_secs(20)).is_ok();
                    drop(guards);
                    (in_time, h.join())
                });
                match verdict {
                    (false, _) => {
                        BLOCKED.store(true, std::sync::atomic::Ordering::Relaxed);
                        cx.violation("export-beside-readers|blocked-until-readers-left", json!({"cells": p.cells.iter().map(|c| c.name.clone()).collect::<Vec<_>>()}))
                    }
                    (true, Ok(Ok(Ok(p2)))) if p2 == p => cx.count("exports_beside_readers_equal"),
                    (true, Ok(Ok(Ok(_)))) => cx.violation("export-beside-readers|message-differs", json!({})),
                    (true, Ok(Ok(Err(e)))) => cx.violation("export-beside-readers|error", json!({"error": e})),
                    (true, Ok(Err(c))) => cx.violation(&format!("export-beside-readers|panic|{}|{}", c.site(), c.norm_msg()), json!({"panic": c.msg})),
                    (true, Err(_)) => cx.inconclusive("exporter thread died"),
                }
            }
            "message-faults" => {
                let ms = mutants(&p);
                let mut kinds: BTreeMap<String, u64> = BTreeMap::new();
                for (kind, q) in ms {
                    cx.eval();
                    cx.nontrivial(crate::rt::prng::strhash(&format!("{}{:?}", kind, q)));
                    *kinds.entry(kind.clone()).or_default() += 1;
                    match guard(|| ProtoLibImporter::import(&q)) {
                        Err(c) => cx.violation(&format!("fault|{}|panic|{}", kind, c.norm_msg()), json!({"fault": kind, "panic": c.msg, "at": format!("{}:{}", c.file, c.line)})),
                        Ok(Ok(_)) => cx.violation(&format!("fault|{}|accepted", kind), json!({"fault": kind})),
                        Ok(Err(_)) => cx.count(&format!("fault_rejected.{}", kind)),
                    }
                }
                cx.sample(|| json!({"faults_applied": kinds}));
            }
            other => cx.inconclusive(format!("unknown generator {}", other)),
        }
    }
}
