//! C09 — relative placement puts each instance exactly where its relation says.

use crate::gen::tetgen::empty_stack;
use crate::rt::*;
use layout21tetris as tet;
use serde_json::json;
use std::collections::BTreeMap;
use tet::array::{Array, ArrayInstance, Arrayable};
use tet::bbox::HasBoundBox;
use tet::cell::Cell;
use tet::coords::{PrimPitches, UnitSpeced, Xy};
use tet::instance::Instance;
use tet::layout::Layout;
use tet::library::Library;
use tet::outline::Outline;
use tet::placement::{Align, Place, Placeable, RelativePlace, SepBy, Separation, Side};
use tet::placer::Placer;
use tet::raw::Dir;
use tet::utils::Ptr;

pub struct C09;

/// A tetris outline with bounding box (sx, sy): rectangular for i % 3 == 0, otherwise 2 or 3 steps (x non-increasing from sx, y non-decreasing up to sy).
/// Placement only ever uses the bounding box, so the reference model is unchanged by the steps.
fn stepped_outline(i: usize, sx: isize, sy: isize) -> Outline {
    let k = 1 + (i % 3) as isize;
    let (dx, dy) = (sx / (k + 1), sy / (k + 1));
    let x: Vec<isize> = (0..k).map(|j| sx - j * dx).collect();
    let y: Vec<isize> = (0..k).map(|j| sy - (k - 1 - j) * dy).collect();
    Outline::new(&x, &y).unwrap()
}

#[derive(Clone, Debug)]
enum Sep {
    None,
    Pitches(i64),
    SizeOf(usize), // index into unit cells
}
#[derive(Clone, Debug)]
struct Spec {
    name: String,
    cell: usize,
    rh: bool,
    rv: bool,
    /// None: absolute at (x,y); Some: relative to instance index
    abs: (i64, i64),
    rel: Option<(usize, Side, Side, Sep)>,
}
type Bx = (i64, i64, i64, i64);

fn bbox_of(loc: (i64, i64), size: (i64, i64), rh: bool, rv: bool) -> Bx {
    let (x0, x1) = if rh { (loc.0 - size.0, loc.0) } else { (loc.0, loc.0 + size.0) };
    let (y0, y1) = if rv { (loc.1 - size.1, loc.1) } else { (loc.1, loc.1 + size.1) };
    (x0, y0, x1, y1)
}
/// Reference semantics: the placed box touches the reference on `side` at separation `sep`, flush on `align`
fn expected_loc(refb: Bx, size: (i64, i64), rh: bool, rv: bool, side: Side, align: Side, sep: i64) -> (i64, i64) {
    let (mut x0, mut y0) = (0i64, 0i64);
    match side {
        Side::Right => x0 = refb.2 + sep,
        Side::Left => x0 = refb.0 - sep - size.0,
        Side::Top => y0 = refb.3 + sep,
        Side::Bottom => y0 = refb.1 - sep - size.1,
    }
    match align {
        Side::Bottom => y0 = refb.1,
        Side::Top => y0 = refb.3 - size.1,
        Side::Left => x0 = refb.0,
        Side::Right => x0 = refb.2 - size.0,
    }
    (if rh { x0 + size.0 } else { x0 }, if rv { y0 + size.1 } else { y0 })
}
fn is_horiz(s: Side) -> bool {
    matches!(s, Side::Left | Side::Right)
}

struct Program {
    sizes: Vec<(i64, i64)>,
    specs: Vec<Spec>,
}
fn rand_program(rng: &mut Rng, max_insts: usize, max_depth_bias: bool) -> Program {
    let ncells = 1 + rng.usize(4);
    let sizes: Vec<(i64, i64)> = (0..ncells).map(|_| (rng.range(1, 40), rng.range(1, 40))).collect();
    let n = 1 + rng.usize(max_insts);
    let mut specs = Vec::new();
    for i in 0..n {
        let rel = if i == 0 || rng.chance(1, 6) {
            None
        } else {
            // chains (deep) or trees
            let to = if max_depth_bias { i - 1 } else { rng.usize(i) };
            let side = *rng.pick(&[Side::Left, Side::Right, Side::Top, Side::Bottom]);
            let align = if is_horiz(side) { *rng.pick(&[Side::Top, Side::Bottom]) } else { *rng.pick(&[Side::Left, Side::Right]) };
            let sep = match rng.below(3) {
                0 => Sep::None,
                // (a negative separation is a deliberate overlap of neighbours)
                1 => Sep::Pitches(rng.range(-12, 25)),
                _ => Sep::SizeOf(rng.usize(ncells)),
            };
            Some((to, side, align, sep))
        };
        specs.push(Spec { name: format!("i{}", i), cell: rng.usize(ncells), rh: rng.bool(), rv: rng.bool(), abs: (rng.range(-500, 500), rng.range(-500, 500)), rel });
    }
    Program { sizes, specs }
}
fn expected(p: &Program) -> Vec<(i64, i64)> {
    let mut locs: Vec<(i64, i64)> = Vec::new();
    for s in &p.specs {
        let size = p.sizes[s.cell];
        let loc = match &s.rel {
            None => s.abs,
            Some((to, side, align, sep)) => {
                let t = &p.specs[*to];
                let refb = bbox_of(locs[*to], p.sizes[t.cell], t.rh, t.rv);
                let sepv = match sep {
                    Sep::None => 0,
                    Sep::Pitches(k) => *k,
                    Sep::SizeOf(c) => if is_horiz(*side) { p.sizes[*c].0 } else { p.sizes[*c].1 },
                };
                expected_loc(refb, size, s.rh, s.rv, *side, *align, sepv)
            }
        };
        locs.push(loc);
    }
    locs
}
/// Build the library with instances listed in `order`
fn build(p: &Program, order: &[usize]) -> (Library, Vec<Ptr<Instance>>) {
    let mut lib = Library::new("plib");
    let cells: Vec<Ptr<Cell>> = p.sizes.iter().enumerate().map(|(i, s)| lib.cells.add(Layout::new(format!("unit{}", i), 0, stepped_outline(i, s.0 as isize, s.1 as isize)))).collect();
    let insts: Vec<Ptr<Instance>> = p
        .specs
        .iter()
        .map(|s| Ptr::new(Instance { inst_name: s.name.clone(), cell: cells[s.cell].clone(), loc: Place::Abs(Xy::new(PrimPitches::x(s.abs.0 as isize), PrimPitches::y(s.abs.1 as isize))), reflect_horiz: s.rh, reflect_vert: s.rv }))
        .collect();
    for (i, s) in p.specs.iter().enumerate() {
        if let Some((to, side, align, sep)) = &s.rel {
            let dir = if is_horiz(*side) { Dir::Horiz } else { Dir::Vert };
            let sepby = match sep {
                Sep::None => None,
                Sep::Pitches(k) => Some(SepBy::UnitSpeced(UnitSpeced::PrimPitches(PrimPitches::new(dir, *k as isize)))),
                Sep::SizeOf(c) => Some(SepBy::SizeOf(cells[*c].clone())),
            };
            let separation = if is_horiz(*side) { Separation::new(sepby, None, None) } else { Separation::new(None, sepby, None) };
            insts[i].write().unwrap().loc = Place::Rel(RelativePlace { to: Placeable::Instance(insts[*to].clone()), side: *side, align: Align::Side(*align), sep: separation });
        }
    }
    // another cell of the same library, placed before `parent`, whose instances carry the SAME names but other cells, sizes and relations
    // (instance names are only unique within a cell: nothing learnt while placing this one may leak into the next)
    if p.specs.len() >= 2 {
        let dcells: Vec<Ptr<Cell>> = p.sizes.iter().enumerate().map(|(i, s)| lib.cells.add(Layout::new(format!("dunit{}", i), 0, Outline::rect(s.0 as isize + 7, s.1 as isize + 3).unwrap()))).collect();
        let dinsts: Vec<Ptr<Instance>> = p
            .specs
            .iter()
            .map(|s| Ptr::new(Instance { inst_name: s.name.clone(), cell: dcells[s.cell].clone(), loc: Place::Abs(Xy::new(PrimPitches::x(-500), PrimPitches::y(900))), reflect_horiz: !s.rh, reflect_vert: s.rv }))
            .collect();
        for i in 1..dinsts.len() {
            dinsts[i].write().unwrap().loc = Place::Rel(RelativePlace { to: Placeable::Instance(dinsts[i - 1].clone()), side: Side::Right, align: Align::Side(Side::Bottom), sep: Separation::new(None, None, None) });
        }
        let mut other = Layout::new("other_parent", 0, Outline::rect(10_000, 10_000).unwrap());
        for d in dinsts.iter().rev() {
            other.instances.push(d.clone());
        }
        lib.cells.add(other);
    }
    let mut parent = Layout::new("parent", 0, Outline::rect(10_000, 10_000).unwrap());
    // one program in four leaves out of the listing an instance that is itself placed relatively and that another instance refers to: it
    // is part of the cell only through that relation (the placer's dependency order pulls it in; its dependants need it resolved)
    let hidden: Option<usize> = if p.specs.len() % 4 == 3 {
        (0..p.specs.len()).find(|j| p.specs[*j].rel.is_some() && p.specs.iter().enumerate().any(|(k, s)| k != *j && matches!(&s.rel, Some((to, ..)) if to == j)))
    } else {
        None
    };
    for &i in order {
        if Some(i) != hidden {
            parent.instances.push(insts[i].clone());
        }
    }
    // the same instance object listed a second time, and also entered as a placeable (harmless duplicates that real builders produce)
    if p.specs.len() % 3 == 0 && !order.is_empty() {
        parent.instances.push(insts[order[0]].clone());
        parent.places.push(Placeable::Instance(insts[order[order.len() - 1]].clone()));
    }
    // a sub-cell that is NOT registered in the library's cell list, reachable only through an instance of it, with a relative
    // placement of its own (hierarchies built top-down with Ptr::new, cells shared in from another library)
    if p.specs.len() % 2 == 0 {
        let mut row = Layout::new("row", 0, Outline::rect(5_000, 5_000).unwrap());
        let r0 = Ptr::new(Instance { inst_name: "r0".into(), cell: cells[0].clone(), loc: Place::Abs(Xy::new(PrimPitches::x(5), PrimPitches::y(5))), reflect_horiz: false, reflect_vert: false });
        let r1 = Ptr::new(Instance { inst_name: "r1".into(), cell: cells[0].clone(), loc: Place::Rel(RelativePlace { to: Placeable::Instance(r0.clone()), side: Side::Right, align: Align::Side(Side::Bottom), sep: Separation::new(None, None, None) }), reflect_horiz: false, reflect_vert: false });
        row.instances.push(r1);
        row.instances.push(r0);
        let row: Ptr<Cell> = Ptr::new(Cell::from(row));
        parent.instances.add(Instance { inst_name: "rowinst".into(), cell: row, loc: Place::Abs(Xy::new(PrimPitches::x(3_000), PrimPitches::y(3_000))), reflect_horiz: false, reflect_vert: false });
        // ... and, every other time, a second, DISTINCT cell that happens to carry the same name (a vendor's `row` next to the user's),
        // with a relative placement of its own: cells are told apart by identity, not by name
        if p.specs.len() % 4 == 0 {
            let mut row2 = Layout::new("row", 0, Outline::rect(5_000, 5_000).unwrap());
            let q0 = Ptr::new(Instance { inst_name: "r0".into(), cell: cells[0].clone(), loc: Place::Abs(Xy::new(PrimPitches::x(5), PrimPitches::y(5))), reflect_horiz: false, reflect_vert: false });
            let q1 = Ptr::new(Instance { inst_name: "r1".into(), cell: cells[0].clone(), loc: Place::Rel(RelativePlace { to: Placeable::Instance(q0.clone()), side: Side::Right, align: Align::Side(Side::Bottom), sep: Separation::new(None, None, None) }), reflect_horiz: false, reflect_vert: false });
            row2.instances.push(q1);
            row2.instances.push(q0);
            let row2: Ptr<Cell> = Ptr::new(Cell::from(row2));
            parent.instances.add(Instance { inst_name: "rowinst2".into(), cell: row2, loc: Place::Abs(Xy::new(PrimPitches::x(3_000), PrimPitches::y(-6_000))), reflect_horiz: false, reflect_vert: false });
        }
    }
    // a bystander: an absolutely placed instance of a cell that has no view at all yet (an interface-only cell), which nothing is placed
    // relative to. Nothing needs its size, so it cannot stop the rest from being placed
    if p.specs.len() % 5 == 2 {
        parent.instances.add(Instance { inst_name: "ghost".into(), cell: Ptr::new(Cell::new("interface_only")), loc: Place::Abs(Xy::new(PrimPitches::x(-9_000), PrimPitches::y(-9_000))), reflect_horiz: false, reflect_vert: false });
    }
    // the cell under test may carry an abstract view next to its layout (Cell::from_views / add_view): its layout must be placed all the same
    if p.specs.len() % 3 == 1 {
        let mut c = Cell::from(parent);
        c.abs = Some(tet::abs::Abstract::new("parent", 0, Outline::rect(10_000, 10_000).unwrap()));
        lib.cells.push(Ptr::new(c));
    } else {
        lib.cells.add(parent);
    }
    (lib, insts)
}
fn permutations(n: usize) -> Vec<Vec<usize>> {
    fn rec(n: usize, cur: &mut Vec<usize>, used: &mut Vec<bool>, out: &mut Vec<Vec<usize>>) {
        if cur.len() == n {
            out.push(cur.clone());
            return;
        }
        for i in 0..n {
            if !used[i] {
                used[i] = true;
                cur.push(i);
                rec(n, cur, used, out);
                cur.pop();
                used[i] = false;
            }
        }
    }
    let mut out = Vec::new();
    rec(n, &mut Vec::new(), &mut vec![false; n], &mut out);
    out
}
fn side_name(s: Side) -> &'static str {
    match s {
        Side::Left => "left",
        Side::Right => "right",
        Side::Top => "top",
        Side::Bottom => "bottom",
    }
}

impl C09 {
    fn run_program(&self, cx: &mut Cx, p: &Program, order: &[usize], class: &str) -> Option<Vec<(i64, i64)>> {
        cx.eval();
        let want = expected(p);
        let (lib, _insts) = build(p, order);
        let placed = guard(|| Placer::place(lib, empty_stack()));
        let lib = match placed {
            Err(c) => {
                cx.violation(&format!("{}|panic|{}|{}", class, c.site(), c.norm_msg()), json!({"panic": c.msg, "program": format!("{:?}", p.specs)}));
                return None;
            }
            Ok(Err(e)) => {
                cx.violation(&format!("{}|valid-program-rejected", class), json!({"error": format!("{:?}", e).chars().take(300).collect::<String>(), "program": format!("{:?}", p.specs)}));
                return None;
            }
            Ok(Ok((lib, _))) => lib,
        };
        // read back by instance name from the parent cell
        let parent = lib.cells.iter().find(|c| c.read().unwrap().name == "parent").unwrap().clone();
        let parent = parent.read().unwrap();
        let lay = parent.layout.as_ref().unwrap();
        let mut got: BTreeMap<String, (i64, i64)> = BTreeMap::new();
        // placement order (C17's clause for the placer's orderer): each instance once, and after the instance it was placed relative to
        let listed: Vec<String> = lay.instances.iter().map(|i| i.read().unwrap().inst_name.clone()).collect();
        for (k, s) in p.specs.iter().enumerate() {
            let pos = listed.iter().position(|n| *n == s.name);
            if listed.iter().filter(|n| **n == s.name).count() > 1 {
                cx.violation(&format!("{}|place-order|instance-listed-twice", class), json!({"instance": s.name, "order": listed}));
                return None;
            }
            if let (Some((to, ..)), Some(pk)) = (&s.rel, pos) {
                if let Some(pt) = listed.iter().position(|n| *n == p.specs[*to].name) {
                    if pt > pk {
                        cx.violation(&format!("{}|place-order|placed-before-its-reference", class), json!({"instance": s.name, "reference": p.specs[*to].name, "order": listed}));
                        return None;
                    }
                }
            }
            let _ = k;
        }
        for i in lay.instances.iter() {
            let i = i.read().unwrap();
            if i.inst_name == "ghost" {
                if !matches!(i.loc, Place::Abs(_)) {
                    cx.violation(&format!("{}|bystander-left-relative", class), json!({}));
                    return None;
                }
                cx.count("programs_with_a_viewless_bystander");
                continue;
            }
            if i.inst_name.starts_with("rowinst") {
                // the unregistered sub-cell must have been placed too: r1 to the right of r0, bottom-aligned
                let row = i.cell.read().unwrap();
                let want_r1 = (5 + p.sizes[0].0, 5);
                for ri in row.layout.as_ref().unwrap().instances.iter() {
                    let ri = ri.read().unwrap();
                    match &ri.loc {
                        Place::Abs(xy) => {
                            if ri.inst_name == "r1" && (xy.x.num as i64, xy.y.num as i64) != want_r1 {
                                cx.violation(&format!("{}|unregistered-subcell|wrong-location", class), json!({"want": want_r1, "got": [xy.x.num, xy.y.num]}));
                                return None;
                            }
                        }
                        Place::Rel(_) => {
                            cx.violation(&format!("{}|unregistered-subcell|instance-left-relative", class), json!({"instance": ri.inst_name}));
                            return None;
                        }
                    }
                }
                cx.count("unregistered_subcells_placed");
                continue;
            }
            match &i.loc {
                Place::Abs(xy) => {
                    got.insert(i.inst_name.clone(), (xy.x.num as i64, xy.y.num as i64));
                    // the library's own bounding box must agree with the reference box
                    if let Ok(bb) = i.boundbox() {
                        let k: usize = i.inst_name[1..].parse().unwrap();
                        let mine = bbox_of((xy.x.num as i64, xy.y.num as i64), p.sizes[p.specs[k].cell], i.reflect_horiz, i.reflect_vert);
                        let theirs = (bb.p0.x.num as i64, bb.p0.y.num as i64, bb.p1.x.num as i64, bb.p1.y.num as i64);
                        if mine != theirs {
                            cx.violation(&format!("{}|boundbox", class), json!({"instance": i.inst_name, "reference": mine, "boundbox": theirs}));
                            return None;
                        }
                    }
                }
                Place::Rel(_) => {
                    cx.violation(&format!("{}|instance-left-relative", class), json!({"instance": i.inst_name}));
                    return None;
                }
            }
        }
        if got.len() != p.specs.len() {
            cx.violation(&format!("{}|instance-count", class), json!({"want": p.specs.len(), "got": got.len(), "order": order}));
            return None;
        }
        for (k, s) in p.specs.iter().enumerate() {
            let g = got.get(&s.name).copied();
            if g != Some(want[k]) {
                let w = match &s.rel {
                    Some((_, side, align, sep)) => format!("side-{}|align-{}|{}{}|sep-{}", side_name(*side), side_name(*align), if s.rh { "rh" } else { "" }, if s.rv { "rv" } else { "" }, match sep { Sep::None => "none", Sep::Pitches(_) => "pitches", Sep::SizeOf(_) => "sizeof" }),
                    None => "absolute".into(),
                };
                cx.violation(&format!("{}|wrong-location|{}", class, w), json!({"instance": s.name, "want": want[k], "got": g, "spec": format!("{:?}", s), "order": order}));
                return None;
            }
        }
        cx.count("programs_placed_exactly");
        Some(want)
    }
}

impl Prop for C09 {
    fn id(&self) -> &'static str {
        "C09"
    }
    fn rule(&self) -> String {
        "Placement programs: 1-4 unit cells of random sizes; 1-8 instances, each absolute or placed relative to an earlier instance (trees, and chains to depth 12) with side in {left,right,top,bottom} x orthogonal alignment x both reflections of placed and reference instance x separation none / in primitive pitches / by size of another cell. \
         Each program with <= 6 instances is placed under EVERY listing permutation (<= 720), larger ones under 24 random permutations; the absolute locations by instance name must equal the reference solution (edge facing the reference at the separation, alignment edge flush; bounding boxes recomputed from loc, reflection and cell size, and compared with Instance::boundbox). \
         Arrays: absolute ArrayInstances (count 1-6, 2-D pitch, nested one level, all four reflections) must expand to count copies at loc +- i*pitch with reflections toggled. Cyclic and self-referential relations run in isolated child processes and must return Err. \
         distinct_nontrivial = distinct (program, permutation) pairs with at least one relative placement."
            .into()
    }
    fn assumptions(&self) -> Vec<String> {
        vec!["relations to arrays/groups/ports, Align::Center/Ports and relative arrays are documented as unimplemented and excluded".into(), "alignment side is orthogonal to the placement side".into()]
    }
    fn miri_gen(&self) -> Option<&'static str> {
        Some("chains")
    }
    fn plan(&self, tier: Tier) -> Vec<GenSpec> {
        vec![
            GenSpec::random("permuted", tier.pick(3_000, 120_000)),
            GenSpec::random("chains", tier.pick(10_000, 400_000)),
            GenSpec::random("arrays", tier.pick(20_000, 600_000)),
            GenSpec::random("cyclic", tier.pick(40, 600)).isolated(),
            // two placements, on two threads, of two libraries that share a cell; the first is stalled inside that cell
            GenSpec::random("shared-cell", tier.pick(8, 80)),
        ]
    }
    fn run_case(&self, cx: &mut Cx) {
        match cx.gen.as_str() {
            "permuted" => {
                let p = rand_program(&mut cx.rng, 6, false);
                let n = p.specs.len();
                let perms = permutations(n);
                let nontrivial = p.specs.iter().any(|s| s.rel.is_some());
                let mut first: Option<Vec<(i64, i64)>> = None;
                for (k, o) in perms.iter().enumerate() {
                    if nontrivial {
                        cx.nontrivial(crate::rt::prng::strhash(&format!("{:?}{:?}", p.specs, o)));
                    }
                    match self.run_program(cx, &p, o, "permuted") {
                        None => return,
                        Some(r) => {
                            if let Some(f) = &first {
                                if *f != r {
                                    cx.violation("permuted|order-dependent", json!({"perm": k}));
                                    return;
                                }
                            } else {
                                first = Some(r);
                            }
                        }
                    }
                }
                cx.count_n("permutations_tried", perms.len() as u64);
                cx.sample(|| json!({"program": format!("{:?}", p.specs), "permutations": perms.len()}));
            }
            "chains" => {
                let deep = cx.rng.bool();
                let p = rand_program(&mut cx.rng, 12, deep);
                let n = p.specs.len();
                for _ in 0..4 {
                    let mut o: Vec<usize> = (0..n).collect();
                    cx.rng.shuffle(&mut o);
                    cx.nontrivial(crate::rt::prng::strhash(&format!("{:?}{:?}", p.specs, o)));
                    if self.run_program(cx, &p, &o, "chains").is_none() {
                        return;
                    }
                }
                cx.sample(|| json!({"program": format!("{:?}", p.specs)}));
            }
            "arrays" => {
                cx.eval();
                let size = (cx.rng.range(1, 30) as isize, cx.rng.range(1, 30) as isize);
                let mut lib = Library::new("alib");
                let unit = lib.cells.add(Layout::new("unit", 0, stepped_outline(cx.n as usize, size.0, size.1)));
                // 1..4 levels of nesting, innermost first: (count, pitch)
                let depth = 1 + cx.rng.usize(4);
                let levels: Vec<(usize, (isize, isize))> = (0..depth)
                    .map(|d| {
                        let span = 40 * 5isize.pow(d as u32);
                        (1 + cx.rng.usize(if d == 0 { 6 } else { 3 }), (cx.rng.range(-(span as i64), span as i64) as isize, cx.rng.range(-(span as i64), span as i64) as isize))
                    })
                    .collect();
                let sep = |p: (isize, isize)| Separation::new(if p.0 != 0 { Some(SepBy::UnitSpeced(UnitSpeced::PrimPitches(PrimPitches::x(p.0)))) } else { None }, if p.1 != 0 { Some(SepBy::UnitSpeced(UnitSpeced::PrimPitches(PrimPitches::y(p.1)))) } else { None }, None);
                let mut top = Ptr::new(Array { name: "level0".into(), unit: Arrayable::Instance(unit.clone()), count: levels[0].0, sep: sep(levels[0].1) });
                for (d, (c, p)) in levels.iter().enumerate().skip(1) {
                    top = Ptr::new(Array { name: format!("level{}", d), unit: Arrayable::Array(top.clone()), count: *c, sep: sep(*p) });
                }
                let nested = depth > 1;
                let (count, pitch) = levels[0];
                let (ocount, opitch) = if nested { levels[1] } else { (1, (0, 0)) };
                let (rh, rv) = (cx.rng.bool(), cx.rng.bool());
                let loc = (cx.rng.range(-500, 500) as isize, cx.rng.range(-500, 500) as isize);
                let ai = Ptr::new(ArrayInstance { name: "arr".into(), array: top.clone(), loc: Place::Abs(Xy::new(PrimPitches::x(loc.0), PrimPitches::y(loc.1))), reflect_vert: rv, reflect_horiz: rh });
                let mut parent = Layout::new("parent", 0, Outline::rect(10_000, 10_000).unwrap());
                parent.places.push(Placeable::Array(ai));
                // every other time a second bank of the SAME array definition (the same `Ptr<Array>` at every level) elsewhere, with its own
                // reflections: expanding a definition a second time gives the same copies as the first
                let bank2 = if cx.rng.bool() { Some(((cx.rng.range(-4000, 4000) as isize, cx.rng.range(-4000, 4000) as isize), cx.rng.bool(), cx.rng.bool())) } else { None };
                if let Some((l2, rh2, rv2)) = bank2 {
                    parent.places.push(Placeable::Array(Ptr::new(ArrayInstance { name: "arr2".into(), array: top.clone(), loc: Place::Abs(Xy::new(PrimPitches::x(l2.0), PrimPitches::y(l2.1))), reflect_vert: rv2, reflect_horiz: rh2 })));
                    cx.count("array_definitions_expanded_twice");
                }
                lib.cells.add(parent);
                cx.nontrivial(crate::rt::prng::strhash(&format!("{:?}{:?}{:?}{}{}", size, levels, loc, rh, rv)));
                cx.count(&format!("array_nesting_depth_{}", depth));
                // reference expansion: every index tuple, offsets summed over the levels, then the instance's reflection and location
                let mut want: Vec<(isize, isize, bool, bool)> = Vec::new();
                let total: usize = levels.iter().map(|l| l.0).product();
                let banks: Vec<((isize, isize), bool, bool)> = std::iter::once((loc, rh, rv)).chain(bank2.into_iter()).collect();
                for (flat, (loc, rh, rv)) in banks.iter().flat_map(|b| (0..total).map(move |f| (f, *b))) {
                    let (mut rem, mut x, mut y) = (flat, 0isize, 0isize);
                    for (c, p) in &levels {
                        let i = (rem % c) as isize;
                        rem /= c;
                        x += i * p.0;
                        y += i * p.1;
                    }
                    let (mut crh, mut crv) = (false, false);
                    if rh {
                        x = -x;
                        crh = !crh;
                    }
                    if rv {
                        y = -y;
                        crv = !crv;
                    }
                    want.push((x + loc.0, y + loc.1, crh, crv));
                }
                want.sort();
                match guard(|| Placer::place(lib, empty_stack())) {
                    Err(c) => cx.violation(&format!("arrays|panic|{}|{}", c.site(), c.norm_msg()), json!({"panic": c.msg})),
                    Ok(Err(e)) => cx.violation("arrays|rejected", json!({"error": format!("{:?}", e).chars().take(300).collect::<String>()})),
                    Ok(Ok((lib, _))) => {
                        let parent = lib.cells.iter().find(|c| c.read().unwrap().name == "parent").unwrap().clone();
                        let parent = parent.read().unwrap();
                        let mut got: Vec<(isize, isize, bool, bool)> = Vec::new();
                        for i in parent.layout.as_ref().unwrap().instances.iter() {
                            let i = i.read().unwrap();
                            match &i.loc {
                                Place::Abs(xy) => got.push((xy.x.num, xy.y.num, i.reflect_horiz, i.reflect_vert)),
                                _ => {
                                    cx.violation("arrays|instance-left-relative", json!({}));
                                    return;
                                }
                            }
                        }
                        got.sort();
                        if got != want {
                            let class = if got.len() != want.len() { "copy-count" } else if nested { "nested-placement" } else { "placement" };
                            cx.violation(&format!("arrays|{}|{}{}", class, if rh { "rh" } else { "" }, if rv { "rv" } else { "" }), json!({"want": want, "got": got, "count": count, "pitch": pitch, "nested": nested, "outer": [ocount as isize, opitch.0, opitch.1], "loc": loc}));
                        } else {
                            cx.count("arrays_expanded_exactly");
                        }
                    }
                }
                cx.sample(|| json!({"count": count, "pitch": pitch, "nested": nested, "reflect": [rh, rv]}));
            }
            "shared-cell" => {
                // Cells are shared between libraries through `Ptr`. Library A and library B both hold `block` (instances a: absolute, b: right of
                // a). Placement of A is stalled inside `block` (this thread holds a read guard on b, the placer needs to write it); placement
                // of B runs meanwhile. B may wait for A; if it REPORTS SUCCESS while b is still relatively placed, "after placement every
                // instance of every cell has an absolute location" is false at that moment for B's own cell.
                cx.eval();
                let (w, h) = (cx.rng.range(1, 40), cx.rng.range(1, 40));
                cx.nontrivial((w * 64 + h) as u64 ^ 0x5a5a);
                let unit: Ptr<Cell> = Ptr::new(Cell::from(Layout::new("unit", 0, Outline::rect(w as isize, h as isize).unwrap())));
                let mut block = Layout::new("block", 0, Outline::rect(500, 500).unwrap());
                let a = block.instances.add(Instance { inst_name: "a".into(), cell: unit.clone(), loc: Place::Abs(Xy::new(PrimPitches::x(5), PrimPitches::y(5))), reflect_horiz: false, reflect_vert: false });
                let b = block.instances.add(Instance { inst_name: "b".into(), cell: unit.clone(), loc: Place::Rel(RelativePlace { to: Placeable::Instance(a.clone()), side: Side::Right, align: Align::Side(Side::Bottom), sep: Separation::new(None, None, None) }), reflect_horiz: false, reflect_vert: false });
                let block: Ptr<Cell> = Ptr::new(Cell::from(block));
                let mk = |name: &str| {
                    let mut l = Library::new(name);
                    l.cells.push(unit.clone());
                    l.cells.push(block.clone());
                    l
                };
                let (lib_a, lib_b) = (mk("A"), mk("B"));
                let stall = b.read().unwrap();
                let (tx, rx) = std::sync::mpsc::channel::<bool>();
                let verdict = std::thread::scope(|sc| {
                    let ha = sc.spawn(move || guard(|| Placer::place(lib_a, empty_stack()).is_ok()));
                    std::thread::sleep(std::time::Duration::from_millis(40));
                    let hb = sc.spawn(move || {
                        let r = guard(|| Placer::place(lib_b, empty_stack()).is_ok());
                        let _ = tx.send(matches!(r, Ok(true)));
                        r
                    });
                    // does B come back while A is still stalled?
                    let early = rx.recv_timeout(std::time::Duration::from_millis(300)).ok();
                    let still_relative = matches!(stall.loc, Place::Rel(_));
                    drop(stall);
                    let (ra, rb) = (ha.join(), hb.join());
                    (early, still_relative, ra, rb)
                });
                match verdict {
                    (Some(true), true, _, _) => cx.violation("shared-cell|success-reported-while-an-instance-is-still-relative", json!({"unit": [w, h]})),
                    (_, _, Ok(Ok(true)), Ok(Ok(true))) => {
                        let loc = b.read().unwrap().loc.clone();
                        match loc {
                            Place::Abs(xy) if (xy.x.num as i64, xy.y.num as i64) == (5 + w, 5) => cx.count("shared_cell_placements_ok"),
                            Place::Abs(xy) => cx.violation("shared-cell|wrong-location", json!({"want": [5 + w, 5], "got": [xy.x.num, xy.y.num]})),
                            Place::Rel(_) => cx.violation("shared-cell|instance-left-relative", json!({})),
                        }
                    }
                    (_, _, ra, rb) => cx.violation("shared-cell|placement-failed", json!({"a": format!("{:?}", ra.map(|r| r.map_err(|c| c.msg))).chars().take(200).collect::<String>(), "b": format!("{:?}", rb.map(|r| r.map_err(|c| c.msg))).chars().take(200).collect::<String>()})),
                }
            }
            "cyclic" => {
                cx.eval();
                let deep = cx.rng.bool();
                let mut p = rand_program(&mut cx.rng, 6, deep);
                let n = p.specs.len();
                // make a cycle: pick k, make spec[0..] point forward
                let kind = match cx.n % 3 {
                    0 => {
                        let i = cx.rng.usize(n);
                        p.specs[i].rel = Some((i, Side::Right, Side::Bottom, Sep::None));
                        "self-reference"
                    }
                    1 if n >= 2 => {
                        p.specs[0].rel = Some((1, Side::Left, Side::Top, Sep::None));
                        p.specs[1].rel = Some((0, Side::Right, Side::Bottom, Sep::None));
                        "two-cycle"
                    }
                    _ => {
                        for i in 0..n {
                            p.specs[i].rel = Some(((i + 1) % n, Side::Top, Side::Left, Sep::None));
                        }
                        "ring"
                    }
                };
                cx.nontrivial(crate::rt::prng::strhash(&format!("{}{:?}", kind, p.specs)));
                let order: Vec<usize> = (0..n).collect();
                let (lib, _) = build(&p, &order);
                match guard(|| Placer::place(lib, empty_stack())) {
                    Err(c) => cx.violation(&format!("cyclic|{}|panic|{}", kind, c.norm_msg()), json!({"panic": c.msg})),
                    Ok(Ok(_)) => cx.violation(&format!("cyclic|{}|accepted", kind), json!({"program": format!("{:?}", p.specs)})),
                    Ok(Err(_)) => cx.count(&format!("cyclic_rejected.{}", kind)),
                }
                cx.sample(|| json!({"cycle": kind, "instances": n}));
            }
            other => cx.inconclusive(format!("unknown generator {}", other)),
        }
    }
}
