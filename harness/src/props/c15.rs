//! C15 — the GDSII real-number codec is exact over the format's range.

use crate::refs::gdsreal::*;
use crate::rt::*;
use gds21::{GdsFloat64, GdsLibrary, GdsStrans, GdsStruct, GdsStructRef, GdsUnits};
use serde_json::json;

pub struct C15;

fn hex(b: u64) -> String {
    format!("0x{:016X}", b)
}

impl C15 {
    /// All four clauses on one in-range double
    fn check_double(&self, cx: &mut Cx, x: f64) {
        cx.eval();
        cx.nontrivial(x.to_bits());
        let want = match encode_ref(x) {
            Some(w) => w,
            None => return,
        };
        let got = match guard(|| GdsFloat64::encode(x)) {
            Ok(g) => g,
            Err(c) => {
                cx.violation(
                    &format!("encode-panic|{}|{}", c.site(), c.norm_msg()),
                    json!({"x": x, "x_bits": hex(x.to_bits()), "panic": c.msg}),
                );
                return;
            }
        };
        let class = if just_below_pow16(x) {
            "just-below-pow16".to_string()
        } else {
            format!("other-exp16={}", (((x.to_bits() >> 52) & 0x7ff) as i64 - 1023).div_euclid(4))
        };
        if got != want {
            cx.count("encode_mismatch");
            cx.violation(
                &format!("encode-not-exact-normalised|{}", class),
                json!({"x": x, "x_bits": hex(x.to_bits()), "encode": hex(got), "reference": hex(want),
                       "normalised": is_normalised(got)}),
            );
        }
        let back = match guard(|| GdsFloat64::decode(got)) {
            Ok(b) => b,
            Err(c) => {
                cx.violation(
                    &format!("decode-panic|{}|{}", c.site(), c.norm_msg()),
                    json!({"bits": hex(got), "panic": c.msg}),
                );
                return;
            }
        };
        if back.to_bits() != x.to_bits() && !(back == 0.0 && x == 0.0) {
            cx.count("roundtrip_mismatch");
            cx.violation(
                &format!("roundtrip|{}", class),
                json!({"x": x, "x_bits": hex(x.to_bits()), "encode": hex(got), "decode": back, "decode_bits": hex(back.to_bits())}),
            );
        } else {
            cx.count("roundtrip_ok");
        }
    }
    /// Decode clause (+ re-encode clause) on one normalised GDS real
    fn check_gdsreal(&self, cx: &mut Cx, b: u64) {
        cx.eval();
        cx.nontrivial(b ^ 0xA5A5_5A5A_0F0F_F0F0);
        let want = decode_ref(b);
        let got = match guard(|| GdsFloat64::decode(b)) {
            Ok(g) => g,
            Err(c) => {
                cx.violation(
                    &format!("decode-panic|{}|{}", c.site(), c.norm_msg()),
                    json!({"bits": hex(b), "panic": c.msg}),
                );
                return;
            }
        };
        if got.to_bits() != want.to_bits() {
            cx.count("decode_mismatch");
            cx.violation(
                &format!("decode-not-correctly-rounded|sig{}", if sig_bits(b) > 53 { ">53" } else { "<=53" }),
                json!({"bits": hex(b), "decode": got, "decode_bits": hex(got.to_bits()), "reference": want, "reference_bits": hex(want.to_bits())}),
            );
            return;
        }
        cx.count("decode_ok");
        if sig_bits(b) <= 53 {
            let re = match guard(|| GdsFloat64::encode(got)) {
                Ok(g) => g,
                Err(c) => {
                    cx.violation(
                        &format!("encode-panic|{}|{}", c.site(), c.norm_msg()),
                        json!({"x": got, "panic": c.msg}),
                    );
                    return;
                }
            };
            if re != b {
                let class = if just_below_pow16(got) {
                    "just-below-pow16".to_string()
                } else {
                    format!("other-exp16={}", ((b >> 56) & 0x7f) as i64 - 64)
                };
                cx.count("reencode_mismatch");
                cx.violation(
                    &format!("reencode|{}", class),
                    json!({"bits": hex(b), "decode": got, "reencode": hex(re)}),
                );
            } else {
                cx.count("reencode_ok");
            }
        }
    }
    fn random_in_range(rng: &mut Rng) -> f64 {
        // exponent p = floor(log2|x|) uniform in [-256, 252), random mantissa and sign
        let p = rng.range(-256, 251);
        let frac = rng.u64() & ((1u64 << 52) - 1);
        let frac = match rng.below(8) {
            0 => 0,
            1 => (1u64 << 52) - 1 - rng.below(64),
            2 => rng.below(64),
            _ => frac,
        };
        let bits = (rng.below(2) << 63) | (((p + 1023) as u64) << 52) | frac;
        f64::from_bits(bits)
    }
    fn random_normalised(rng: &mut Rng) -> u64 {
        let mut m = rng.u64() & 0x00FF_FFFF_FFFF_FFFF;
        match rng.below(6) {
            0 => m &= !((1u64 << rng.below(56)) - 1), // few significant bits
            1 => m |= (1u64 << rng.below(8)) - 1,
            _ => {}
        }
        if (m >> 52) & 0xF == 0 {
            m |= (1 + rng.below(15)) << 52;
        }
        (rng.below(2) << 63) | (rng.below(128) << 56) | m
    }
}

impl Prop for C15 {
    fn id(&self) -> &'static str {
        "C15"
    }
    fn rule(&self) -> String {
        "Doubles: every power of two 2^k for -256<=k<252 with the 17 neighbours within +-8 ulp, both signs (exhaustive over exponents); \
         all normalised one- and two-bit mantissas x 128 exponents x sign (exhaustive); unit/angle constants; uniform random in-range doubles and \
         random normalised 8-byte reals (seeded). Each double is checked against an exact integer reference codec: encode == reference normalised bytes, \
         decode(encode(x)) bit-identical; each normalised real: decode correctly rounded, and re-encode identical when <=53 significant bits. \
         Also through UNITS/MAG/ANGLE records of a written and re-read library. distinct_nontrivial = distinct bit patterns checked (all are non-trivial: none is zero)."
            .into()
    }
    fn assumptions(&self) -> Vec<String> {
        vec![
            "reference codec (harness/src/refs/gdsreal.rs) is correct: integer-only, cross-checked by its own unit tests".into(),
            "+0.0 and -0.0 are identified (GDSII has a single zero)".into(),
            "native build only: Miri perturbs powi/log2 results".into(),
        ]
    }
    fn plan(&self, tier: Tier) -> Vec<GenSpec> {
        vec![
            GenSpec::enumerated("pow2-neighbourhood", 508),
            GenSpec::enumerated("sparse-mantissa", 128),
            GenSpec::enumerated("dense-mantissa", 128),
            GenSpec::enumerated("constants", 1),
            GenSpec::random("random-doubles", tier.pick(10_000, 200_000)),
            GenSpec::random("random-gdsreals", tier.pick(5_000, 100_000)),
            GenSpec::random("records", tier.pick(200, 20_000)),
            // the codec's very FIRST use in a process, made by twelve threads at once (a thread pool loading files at start-up): each case is a
            // fresh child process, because anything the codec initialises lazily is initialised once per process
            GenSpec::random("first-use", tier.pick(32, 400)),
            GenSpec::random("first-use-child", 0),
        ]
    }
    fn run_case(&self, cx: &mut Cx) {
        match cx.gen.as_str() {
            "pow2-neighbourhood" => {
                let k = cx.n as i32 - 256;
                let base = f64::from_bits(((k + 1023) as u64) << 52);
                for sign in [1.0, -1.0] {
                    for d in -8i64..=8 {
                        let x = f64::from_bits((base.to_bits() as i64 + d) as u64) * sign;
                        if in_claimed_range(x) {
                            self.check_double(cx, x);
                        }
                    }
                }
                cx.sample(|| json!({"k": k, "base": base}));
            }
            "sparse-mantissa" => {
                let e = cx.n;
                for sign in 0..2u64 {
                    for hi in 52..56u64 {
                        let b = (sign << 63) | (e << 56) | (1u64 << hi);
                        self.check_gdsreal(cx, b);
                        for lo in 0..hi {
                            let b = (sign << 63) | (e << 56) | (1u64 << hi) | (1u64 << lo);
                            self.check_gdsreal(cx, b);
                        }
                    }
                }
                cx.sample(|| json!({"exponent_field": e, "patterns": "one- and two-bit mantissas"}));
            }
            "dense-mantissa" => {
                // the complement of the sparse patterns: mantissas that are runs of ones (all 56, 55, 54, 53 bits set, minus 0..32, and with
                // one hole), where rounding to 53 bits carries all the way up into the next power of two
                let e = cx.n;
                for sign in 0..2u64 {
                    for top in 53..=56u64 {
                        let ones = (1u64 << top) - 1;
                        for j in 0..32u64 {
                            self.check_gdsreal(cx, (sign << 63) | (e << 56) | (ones - j));
                        }
                        for hole in 0..top - 1 {
                            self.check_gdsreal(cx, (sign << 63) | (e << 56) | (ones & !(1u64 << hole)));
                        }
                    }
                }
                cx.sample(|| json!({"exponent_field": e, "patterns": "runs of ones, minus 0..32, with one hole"}));
            }
            "constants" => {
                let mut v = vec![1e-3, 1e-9, 1e-6, 1e-10, 1e-12, 1e-4, 1.0, 2.0, 0.5, 90.0, 180.0, 270.0, 360.0, 45.0, 0.1,
                    1e3, 1e6, 123456789.12345679, 16.0, 256.0, 1.0 / 16.0, 15.999999999999998, 255.99999999999997, 0.062499999999999993];
                let neg: Vec<f64> = v.iter().map(|x| -x).collect();
                v.extend(neg);
                for x in v.iter() {
                    self.check_double(cx, *x);
                }
                // zero
                cx.eval();
                match guard(|| (GdsFloat64::encode(0.0), GdsFloat64::encode(-0.0), GdsFloat64::decode(0))) {
                    Ok((a, b, c)) => {
                        if a != 0 || b != 0 || c != 0.0 {
                            cx.violation("zero", json!({"enc0": hex(a), "enc-0": hex(b), "dec0": c}));
                        }
                    }
                    Err(c) => cx.violation(&format!("zero-panic|{}", c.norm_msg()), json!({"panic": c.msg})),
                }
                cx.sample(|| json!({"constants": v}));
            }
            "random-doubles" => {
                let mut first = 0.0;
                for i in 0..1000 {
                    let x = Self::random_in_range(&mut cx.rng);
                    if i == 0 {
                        first = x;
                    }
                    self.check_double(cx, x);
                }
                cx.sample(|| json!({"first_of_batch": first, "bits": hex(first.to_bits())}));
            }
            "random-gdsreals" => {
                let mut first = 0;
                for i in 0..1000 {
                    let b = Self::random_normalised(&mut cx.rng);
                    if i == 0 {
                        first = b;
                    }
                    self.check_gdsreal(cx, b);
                }
                cx.sample(|| json!({"first_of_batch": hex(first)}));
            }
            "first-use" => {
                cx.eval();
                cx.nontrivial(cx.n ^ 0xF1F1);
                match crate::rt::run::spawn_one("C15", cx.tier, cx.seed, "first-use-child", cx.n, &cx.scratch, std::time::Duration::from_secs(60)) {
                    crate::rt::run::ChildEnd::Ok(r) => {
                        for v in r.violations {
                            cx.violation(&v.signature, v.detail);
                        }
                        if r.counters.get("first_use_threads_agree").copied().unwrap_or(0) > 0 {
                            cx.count("first_use_processes_agree");
                        }
                    }
                    other => cx.inconclusive(format!("first-use child: {:?}", other)),
                }
            }
            "first-use-child" => {
                // (nothing in this process has touched the codec yet)
                let n = std::thread::available_parallelism().map(|x| x.get()).unwrap_or(8).clamp(4, 32);
                // a spinning rendez-vous: the threads leave it within nanoseconds of each other (a parking barrier wakes them microseconds apart)
                let barrier = std::sync::atomic::AtomicUsize::new(0);
                let seed = crate::rt::prng::mix(&[cx.seed, cx.n, 0xC15]);
                let results: Vec<Option<String>> = std::thread::scope(|sc| {
                    let hs: Vec<_> = (0..n)
                        .map(|t| {
                            let barrier = &barrier;
                            sc.spawn(move || {
                                let mut rng = Rng::new(seed ^ t as u64);
                                // (the first value of every thread has one of the top exponents: whatever is tabulated per exponent is
                                // most likely filled in ascending order, and the last entries are ready last)
                                let vals: Vec<(u64, f64)> = (0..6)
                                    .map(|i| {
                                        let mut b = C15::random_normalised(&mut rng) & !((1u64 << 3) - 1); // <= 53 significant bits: exactly representable
                                        if i == 0 {
                                            b |= 0x7F00_0000_0000_0000;
                                        }
                                        (b, decode_ref(b))
                                    })
                                    .collect();
                                barrier.fetch_add(1, std::sync::atomic::Ordering::SeqCst);
                                while barrier.load(std::sync::atomic::Ordering::SeqCst) < n {
                                    std::hint::spin_loop();
                                }
                                for (b, want) in vals {
                                    let got = GdsFloat64::decode(b);
                                    if got.to_bits() != want.to_bits() {
                                        return Some(format!("decode({}) = {:e}, reference {:e}", hex(b), got, want));
                                    }
                                    let back = GdsFloat64::encode(want);
                                    if back != b && sig_bits(b) <= 53 && is_normalised(b) && want != 0.0 {
                                        return Some(format!("encode({:e}) = {}, reference {}", want, hex(back), hex(b)));
                                    }
                                }
                                None
                            })
                        })
                        .collect();
                    hs.into_iter().map(|h| h.join().unwrap_or(Some("thread died".into()))).collect()
                });
                cx.eval();
                match results.into_iter().flatten().next() {
                    Some(w) => cx.violation("first-use|wrong-result-on-first-concurrent-use", json!({"what": w})),
                    None => cx.count("first_use_threads_agree"),
                }
            }
            "records" => {
                // Through the record layer: UNITS, MAG, ANGLE of a written and re-read library
                for _ in 0..20 {
                    let (u0, u1, mag, ang) = (
                        Self::random_in_range(&mut cx.rng),
                        Self::random_in_range(&mut cx.rng),
                        Self::random_in_range(&mut cx.rng),
                        Self::random_in_range(&mut cx.rng),
                    );
                    cx.eval();
                    cx.nontrivial(u0.to_bits() ^ u1.to_bits().rotate_left(17) ^ mag.to_bits().rotate_left(31));
                    let mut lib = GdsLibrary::new("r");
                    lib.units = GdsUnits(u0, u1);
                    let mut s = GdsStruct::new("s");
                    s.elems.push(
                        GdsStructRef {
                            name: "t".into(),
                            strans: Some(GdsStrans { mag: Some(mag), angle: Some(ang), ..Default::default() }),
                            ..Default::default()
                        }
                        .into(),
                    );
                    lib.structs.push(s);
                    let r = guard(|| {
                        let mut buf = Vec::new();
                        lib.write(&mut buf).map_err(|e| format!("{:?}", e))?;
                        GdsLibrary::from_bytes(&buf).map_err(|e| format!("{:?}", e))
                    });
                    let all_below = [u0, u1, mag, ang].iter().any(|x| just_below_pow16(*x));
                    let class = if all_below { "just-below-pow16".to_string() } else { format!("other-exp16={}", (((u0.to_bits() >> 52) & 0x7ff) as i64 - 1023).div_euclid(4)) };
                    match r {
                        Ok(Ok(l2)) => {
                            let st = match &l2.structs[0].elems[0] {
                                gds21::GdsElement::GdsStructRef(r) => r.strans.clone().unwrap_or_default(),
                                _ => Default::default(),
                            };
                            let got = [l2.units.0, l2.units.1, st.mag.unwrap_or(f64::NAN), st.angle.unwrap_or(f64::NAN)];
                            let want = [u0, u1, mag, ang];
                            if got.iter().zip(want.iter()).any(|(a, b)| a.to_bits() != b.to_bits()) {
                                cx.violation(&format!("records-roundtrip|{}", class), json!({"want": want, "got": got}));
                            } else {
                                cx.count("records_ok");
                            }
                        }
                        Ok(Err(e)) => cx.violation(&format!("records-error|{}", class), json!({"error": e, "values": [u0, u1, mag, ang]})),
                        Err(c) => cx.violation(&format!("records-panic|{}|{}", c.site(), c.norm_msg()), json!({"panic": c.msg})),
                    }
                }
                // ... and the reader's own path for reals somebody else wrote: the eight bytes of UNITS / MAG / ANGLE are replaced, in the written
                // stream, by arbitrary normalised reals (56-bit mantissas included); what from_bytes hands back must be the correctly rounded value
                for _ in 0..20 {
                    let sentinels = [1234.5678f64, 8765.4321, 3.0625e-5, 77.125];
                    let reals: Vec<u64> = (0..4).map(|_| Self::random_normalised(&mut cx.rng)).collect();
                    cx.eval();
                    cx.nontrivial(reals[0] ^ reals[1].rotate_left(13) ^ reals[2].rotate_left(29) ^ reals[3].rotate_left(43));
                    let mut lib = GdsLibrary::new("r");
                    lib.units = GdsUnits(sentinels[0], sentinels[1]);
                    let mut st = GdsStruct::new("s");
                    st.elems.push(GdsStructRef { name: "t".into(), strans: Some(GdsStrans { mag: Some(sentinels[2]), angle: Some(sentinels[3]), ..Default::default() }), ..Default::default() }.into());
                    lib.structs.push(st);
                    let mut buf = Vec::new();
                    if lib.write(&mut buf).is_err() {
                        cx.inconclusive("could not write the carrier library");
                        continue;
                    }
                    let mut patched = 0;
                    for (sv, b) in sentinels.iter().zip(reals.iter()) {
                        let pat = encode_ref(*sv).unwrap().to_be_bytes();
                        if let Some(at) = buf.windows(8).position(|w| w == pat) {
                            buf[at..at + 8].copy_from_slice(&b.to_be_bytes());
                            patched += 1;
                        }
                    }
                    if patched != 4 {
                        cx.count("foreign_reals_carrier_not_patched"); // the writer did not encode the sentinels as the reference does: the encode clause reports that
                        continue;
                    }
                    let wide = reals.iter().any(|b| sig_bits(*b) > 53);
                    match guard(|| GdsLibrary::from_bytes(&buf).map_err(|e| format!("{:?}", e))) {
                        Ok(Ok(l2)) => {
                            let stn = match l2.structs.get(0).and_then(|s| s.elems.get(0)) {
                                Some(gds21::GdsElement::GdsStructRef(r)) => r.strans.clone().unwrap_or_default(),
                                _ => Default::default(),
                            };
                            let got = [l2.units.0, l2.units.1, stn.mag.unwrap_or(f64::NAN), stn.angle.unwrap_or(f64::NAN)];
                            let want: Vec<f64> = reals.iter().map(|b| decode_ref(*b)).collect();
                            if got.iter().zip(want.iter()).any(|(a, b)| a.to_bits() != b.to_bits()) {
                                cx.violation(&format!("records-foreign-reals|sig{}", if wide { ">53" } else { "<=53" }), json!({"reals": reals.iter().map(|b| hex(*b)).collect::<Vec<_>>(), "want": want, "got": got}));
                            } else {
                                cx.count(if wide { "records_foreign_wide_reals_ok" } else { "records_foreign_reals_ok" });
                            }
                        }
                        Ok(Err(e)) => cx.violation("records-foreign-reals|error", json!({"error": e, "reals": reals.iter().map(|b| hex(*b)).collect::<Vec<_>>()})),
                        Err(c) => cx.violation(&format!("records-foreign-reals|panic|{}|{}", c.site(), c.norm_msg()), json!({"panic": c.msg})),
                    }
                }
                cx.sample(|| json!({"records": "UNITS+MAG+ANGLE of 20 random libraries, and of 20 streams carrying foreign reals"}));
            }
            other => cx.inconclusive(format!("unknown generator {}", other)),
        }
    }
    fn finish(&self, total: &mut Rec, _tier: Tier) {
        let ok = total.counters.get("roundtrip_ok").copied().unwrap_or(0) + total.counters.get("roundtrip_mismatch").copied().unwrap_or(0);
        if ok == 0 {
            total.inconclusive.push("no double reached the round-trip clause".into());
        }
    }
}
