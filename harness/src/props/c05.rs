//! C05 — LEF write-then-read returns the library that was written.

use super::c04::{feature_bits, open_text, REPO_LEF_DIRS};
use crate::gen::lefgen::*;
use crate::rt::*;
use lef21::LefLibrary;
use serde_json::json;

pub struct C05;

fn msg_class(e: &str) -> String {
    let mut out = String::new();
    for c in e.chars() {
        if c.is_ascii_digit() {
            if !out.ends_with('#') {
                out.push('#');
            }
        } else {
            out.push(c);
        }
    }
    out.chars().take(60).collect()
}

impl C05 {
    /// `lib` is in the reader's image. Writing must succeed and re-reading must give an equal library.
    fn check(&self, cx: &mut Cx, lib: &LefLibrary, via_save: bool, src: &str) {
        cx.eval();
        let path = cx.tmp("out.lef");
        // history dimension: 0 fresh path, 1 over a much longer file, 2 over a different file of exactly the same length
        let stale = cx.n % 3;
        if via_save && stale > 0 {
            cx.count(if stale == 1 { "saved_over_existing_longer_file" } else { "saved_over_existing_same_length_file" });
        }
        // history: every third case first asks the writer for a library it must refuse AFTER having produced some text
        // (a macro SOURCE under VERSION 5.8); nothing of that call may show in the next one
        if cx.n % 3 == 1 {
            let mut bad = LefLibrary::new();
            bad.version = Some(lef21::LefDecimal::new(58, 1));
            let mut m = lef21::LefMacro::new("refused");
            m.source = Some(lef21::LefDefSource::User);
            bad.macros.push(m);
            let _ = guard(|| bad.to_string());
            let _ = guard(|| bad.save(&cx.tmp("refused.lef")));
            let _ = std::fs::remove_file(cx.tmp("refused.lef"));
            cx.count("preceded_by_a_refused_write");
        }
        let written = guard(|| -> Result<String, lef21::LefError> {
            if via_save {
                // history dimension: every other case saves over an existing, much longer file
                if stale == 1 {
                    // an older, longer file: text, then bytes that are not UTF-8 and characters that cannot begin a LEF token
                    let mut old = "# older copy\nMACRO old\n  SIZE 1 BY 1 ;\nEND old\n".repeat(2000).into_bytes();
                    old.extend_from_slice(&[b'_', b'[', b'<', b'/', 0xFF, 0xFE, 0xC3, 0x28, b'\n'].repeat(500));
                    let _ = std::fs::write(&path, old);
                } else if stale == 2 {
                    if let Ok(t) = lib.to_string() {
                        let _ = std::fs::write(&path, "#".repeat(t.len()));
                    }
                }
                lib.save(&path)?;
                // the file must hold exactly what to_string produces (nothing of an older file, nothing missing)
                let on_disk = std::fs::read(&path).unwrap_or_default();
                if let Ok(t) = lib.to_string() {
                    if t.as_bytes() != &on_disk[..] {
                        return Err(lef21::LefError::Str(format!("SAVE-DIFFERS-FROM-TO_STRING file={} bytes, to_string={} bytes", on_disk.len(), t.len())));
                    }
                }
                Ok(String::from_utf8_lossy(&on_disk).into_owned())
            } else {
                lib.to_string()
            }
        });
        let _ = std::fs::remove_file(&path);
        let text = match written {
            Err(c) => {
                cx.violation(&format!("write-panic|{}|{}", c.site(), c.norm_msg()), json!({"panic": c.msg, "source": src}));
                return;
            }
            Ok(Err(lef21::LefError::Str(e))) if e.starts_with("SAVE-DIFFERS-FROM-TO_STRING") => {
                cx.violation("save-file-differs-from-to_string", json!({"what": e, "stale_mode": stale}));
                return;
            }
            Ok(Err(e)) => {
                cx.violation(&format!("write-error|{}", msg_class(&format!("{:?}", e))), json!({"error": format!("{:?}", e), "source": src}));
                return;
            }
            Ok(Ok(t)) => t,
        };
        cx.count("written");
        match open_text(cx, &text) {
            Err(c) => cx.violation(&format!("reread-panic|{}|{}", c.site(), c.norm_msg()), json!({"panic": c.msg, "written": text})),
            Ok(Err(e)) => {
                // classify by the statement the reader stopped at
                let es = format!("{:?}", e);
                let line: String = es.find("line_content: \"").map(|i| es[i + 15..].chars().take_while(|c| *c != '"').collect()).unwrap_or_default();
                let kw: String = line.split_whitespace().next().unwrap_or("?").to_string();
                cx.violation(&format!("reread-error|{}|at-{}", lef_err_class(&e), kw), json!({"error": es.chars().take(400).collect::<String>(), "written": text}));
            }
            Ok(Ok(l2)) => {
                if !lef_same(&l2, lib) {
                    let (class, at) = lef_diff(lib, &l2);
                    cx.violation(&format!("reread-mismatch|{}", class), json!({"at": at, "written": text}));
                } else {
                    cx.count(if via_save { "roundtrip_ok_save" } else { "roundtrip_ok" });
                }
            }
        }
    }
}

/// `statement-lengths`: 1..=2600 contiguous, then windows of +-3 around 4096, 8192, ..., 131072
const STATEMENT_LENGTHS: u64 = 2600 + 6 * 7;
fn statement_length(n: u64) -> usize {
    if n < 2600 {
        1 + n as usize
    } else {
        let k = (n - 2600) / 7;
        let d = (n - 2600) % 7;
        (4096usize << k) + d as usize - 3
    }
}
impl Prop for C05 {
    fn id(&self) -> &'static str {
        "C05"
    }
    fn rule(&self) -> String {
        "Libraries in the image of the reader: every value is obtained by LefLibrary::open of a text rendered from the C04 generator (here also with statements the reader accepts version-inconsistently, e.g. NOWIREEXTENSIONATPIN above 5.4), plus the repository's LEF files. \
         Oracle: to_string()/save() must be Ok and open(written text) must be Ok and equal. A generated text the reader rejects or misreads is C04's business and is only counted here. distinct_nontrivial = distinct statement-feature masks plus distinct written texts."
            .into()
    }
    fn assumptions(&self) -> Vec<String> {
        vec!["the lefrw binary is open+save; the save leg executes that in-process in both tiers, and the thorough tier additionally spawns the real binary (generator lefrw-binary; skipped with a counter if it cannot be built)".into()]
    }
    fn miri_gen(&self) -> Option<&'static str> {
        Some("reader-image")
    }
    fn plan(&self, tier: Tier) -> Vec<GenSpec> {
        vec![
            GenSpec::random("reader-image", tier.pick(50_000, 2_000_000)),
            GenSpec::enumerated("repo-files", 1),
            // one statement made exactly L bytes long, for every L in a contiguous range and around the powers of two up to 128 KiB:
            // whatever fixed-size line or block buffer a writer may use, some L fills it exactly, and L+1 overflows it by one
            GenSpec::enumerated("statement-lengths", STATEMENT_LENGTHS),
            // the real `lefrw` binary, built from /repo by ./check for the thorough tier (LVH_BINS); spawned per case
            GenSpec::random("lefrw-binary", tier.pick(0, 1_000)),
        ]
    }
    fn run_case(&self, cx: &mut Cx) {
        match cx.gen.as_str() {
            "statement-lengths" => {
                let l = statement_length(cx.n);
                cx.nontrivial(0x57A7_0000_0000 | l as u64);
                // four statements that put user text of any length on one line: an extension block of one word, an extension block of
                // many words, a string-valued property, a macro name
                let word: String = (0..l).map(|i| (b'a' + (i % 26) as u8) as char).collect();
                let words: String = {
                    let mut t = String::new();
                    let mut i = 0usize;
                    while t.len() + 1 < l {
                        let w = 1 + (i * 7 + l) % 9;
                        let w = w.min(l - t.len() - 1).max(1);
                        for k in 0..w {
                            t.push((b'a' + ((i + k) % 26) as u8) as char);
                        }
                        if t.len() + 1 < l {
                            t.push(' ');
                        }
                        i += 1;
                    }
                    t
                };
                let texts = [
                    format!("VERSION 5.8 ;\nBEGINEXT \"tag\" {} ENDEXT\nEND LIBRARY\n", word),
                    format!("VERSION 5.8 ;\nBEGINEXT \"tag\" {} ENDEXT\nMACRO m\n SIZE 1 BY 1 ;\nEND m\nEND LIBRARY\n", words),
                    format!("VERSION 5.8 ;\nPROPERTYDEFINITIONS\n MACRO note STRING ;\nEND PROPERTYDEFINITIONS\nMACRO m\n PROPERTY note \"{}\" ;\n SIZE 1 BY 1 ;\nEND m\nEND LIBRARY\n", word),
                    format!("VERSION 5.8 ;\nMACRO {}\n SIZE 1 BY 1 ;\nEND {}\nEND LIBRARY\n", word, word),
                ];
                for (k, text) in texts.iter().enumerate() {
                    if l > 20_000 && k >= 2 {
                        continue;
                    }
                    cx.eval();
                    match open_text(cx, text) {
                        Ok(Ok(lib)) => {
                            self.check(cx, &lib, (cx.n + k as u64) % 3 == 0, text);
                            cx.count("statement_length_sources_read");
                        }
                        _ => cx.count("source_rejected_by_reader_(C04)"),
                    }
                }
                cx.sample(|| json!({"statement_length": l}));
            }
            "reader-image" => {
                // one case in 300 is a big library (tens to hundreds of KB when written) full of non-ASCII string literals
                let cfg = if cx.n % 300 == 7 {
                    cx.count("big_libraries");
                    LefCfg { liberal_versions: true, max_macros: 40 + cx.rng.usize(160), hostile_strings: true, ..Default::default() }
                } else {
                    LefCfg { liberal_versions: true, ..Default::default() }
                };
                let g = rand_lef(&mut cx.rng, &cfg);
                // every 15th source carries a SITE ROWPATTERN statement: the reader documents it as unsupported and refuses the library; if it
                // ever accepts it, what it returns is a library "the reader can produce" and must survive the trip like any other
                let mut style = Style::plain();
                if cx.n % 15 == 11 && !g.lib.sites.is_empty() {
                    style.rowpattern = true;
                    cx.count("sources_with_rowpattern");
                }
                let (text, _) = render(&g, &cfg, &mut cx.rng, style);
                match open_text(cx, &text) {
                    Ok(Ok(lib)) => {
                        cx.nontrivial(feature_bits(&lib) | 1 << 61);
                        cx.nontrivial(crate::rt::prng::strhash(&text));
                        if lib != g.lib {
                            cx.count("source_misread_by_reader_(C04)");
                        }
                        let via_save = cx.n % 10 == 0;
                        self.check(cx, &lib, via_save, &text);
                        cx.sample(|| json!({"source_text": text}));
                    }
                    _ => cx.count("source_rejected_by_reader_(C04)"),
                }
            }
            "lefrw-binary" => {
                let bin = match std::env::var("LVH_BINS") {
                    Ok(d) if std::path::Path::new(&d).join("lefrw").exists() => std::path::Path::new(&d).join("lefrw"),
                    _ => {
                        cx.count("lefrw_binary_unavailable");
                        return;
                    }
                };
                let cfg = LefCfg::default();
                let g = rand_lef(&mut cx.rng, &cfg);
                let (mut text, _) = render(&g, &cfg, &mut cx.rng, Style::plain());
                let broken = cx.n % 5 == 0;
                if broken {
                    text = text.replacen(" ; ", " ", 1); // drop one semicolon: the binary must fail cleanly
                }
                cx.eval();
                cx.nontrivial(crate::rt::prng::strhash(&text));
                let (pin, pout) = (cx.tmp("rw-in.lef"), cx.tmp("rw-out.lef"));
                std::fs::write(&pin, &text).unwrap();
                let _ = std::fs::remove_file(&pout);
                let expect = open_text(cx, &text);
                let st = std::process::Command::new(&bin).arg(&pin).arg(&pout).stdout(std::process::Stdio::null()).stderr(std::process::Stdio::null()).status();
                match (st, expect) {
                    (Ok(st), Ok(Ok(lib))) => {
                        use std::os::unix::process::ExitStatusExt;
                        if st.signal().is_some() {
                            cx.violation("lefrw|killed-by-signal", json!({"signal": st.signal(), "text": text}));
                        } else if !st.success() {
                            cx.violation("lefrw|failed-on-readable-library", json!({"code": st.code(), "text": text}));
                        } else {
                            match guard(|| LefLibrary::open(&pout)) {
                                Ok(Ok(l2)) if lef_same(&l2, &lib) => cx.count("lefrw_roundtrip_ok"),
                                Ok(Ok(l2)) => {
                                    let (class, at) = lef_diff(&lib, &l2);
                                    cx.violation(&format!("lefrw|reread-mismatch|{}", class), json!({"at": at}));
                                }
                                Ok(Err(e)) => cx.violation(&format!("lefrw|reread-error|{}", lef_err_class(&e)), json!({"error": format!("{:?}", e).chars().take(300).collect::<String>()})),
                                Err(c) => cx.violation(&format!("lefrw|reread-panic|{}", c.norm_msg()), json!({"panic": c.msg})),
                            }
                        }
                    }
                    (Ok(st), _) => {
                        use std::os::unix::process::ExitStatusExt;
                        if st.signal().is_some() || st.code() == Some(101) {
                            cx.violation("lefrw|crashed-on-unreadable-input", json!({"status": format!("{:?}", st), "text": text}));
                        } else if st.success() {
                            cx.violation("lefrw|succeeded-on-unreadable-input", json!({"text": text}));
                        } else {
                            cx.count("lefrw_clean_failure");
                        }
                    }
                    (Err(e), _) => cx.inconclusive(format!("cannot spawn lefrw: {}", e)),
                }
                let _ = std::fs::remove_file(&pin);
                let _ = std::fs::remove_file(&pout);
                cx.sample(|| json!({"lefrw": "open+save through the real binary", "broken_input": broken}));
            }
            "repo-files" => {
                for d in REPO_LEF_DIRS {
                    if let Ok(rd) = std::fs::read_dir(d) {
                        for e in rd.flatten() {
                            let p = e.path();
                            if p.extension().map_or(false, |x| x == "lef") {
                                if let Ok(Ok(lib)) = guard(|| LefLibrary::open(&p)) {
                                    cx.nontrivial(feature_bits(&lib) | 1 << 62);
                                    cx.count("repo_files_in_reader_image");
                                    self.check(cx, &lib, false, &p.to_string_lossy());
                                }
                            }
                        }
                    }
                }
                cx.sample(|| json!({"repo_lef_dirs": REPO_LEF_DIRS}));
            }
            other => cx.inconclusive(format!("unknown generator {}", other)),
        }
    }
    fn finish(&self, total: &mut Rec, _tier: Tier) {
        if total.counters.get("written").copied().unwrap_or(0) == 0 && total.violations.is_empty() {
            total.inconclusive.push("no library was written".into());
        }
    }
}
