//! C14 — raw layout survives the trip through the protobuf schema.

use super::c07::cshape_of;
use crate::gen::rawgen::*;
use crate::refs::hier::{canon_cycle, rect_cycle, CShape};
use crate::rt::*;
use layout21protos as proto;
use layout21raw as raw;
use raw::{Library, Shape};
use serde_json::json;
use std::collections::BTreeMap;

pub struct C14;

type ShapeKey = (CShape, String);
type LayerMap = BTreeMap<(i64, i64), Vec<ShapeKey>>;

#[derive(Debug, Clone, PartialEq, Default)]
struct CellSummary {
    has_layout: bool,
    has_abstract: bool,
    /// the views' own name fields (legal to differ from the cell name)
    layout_name: String,
    abstract_name: String,
    insts: Vec<(String, String, i64, i64, bool, i64)>,
    annotations: Vec<(String, i64, i64)>,
    shapes: LayerMap,
    outline: Vec<(i64, i64)>,
    /// per (layer number, purpose number): ports are exported under the layer's Pin purpose, blockages under its Obstruction purpose
    ports: Vec<(String, BTreeMap<(i64, i64), Vec<ShapeKey>>)>,
    blockages: BTreeMap<(i64, i64), Vec<ShapeKey>>,
}
#[derive(Debug, Clone, PartialEq, Default)]
struct LibSummary {
    name: String,
    units: String,
    cells: BTreeMap<String, CellSummary>,
}

fn angle_deg(a: Option<f64>) -> Option<i64> {
    match a {
        None => Some(0),
        Some(x) if x.fract() == 0.0 && x.abs() < 1e9 => Some(x as i64),
        _ => None,
    }
}
fn sorted<T: Ord>(mut v: Vec<T>) -> Vec<T> {
    v.sort();
    v
}
/// The library's cells: the listed ones and every cell they reach through instances
fn all_cells(lib: &Library) -> Result<Vec<raw::utils::Ptr<raw::Cell>>, String> {
    let mut all: Vec<raw::utils::Ptr<raw::Cell>> = lib.cells.iter().cloned().collect();
    let mut k = 0;
    while k < all.len() {
        let targets: Vec<raw::utils::Ptr<raw::Cell>> = all[k].read().map_err(|_| "lock")?.layout.as_ref().map(|l| l.insts.iter().map(|i| i.cell.clone()).collect()).unwrap_or_default();
        for t in targets {
            if !all.contains(&t) {
                all.push(t);
            }
        }
        k += 1;
    }
    Ok(all)
}
fn summarize_raw(lib: &Library, defs: &crate::gen::rawgen::LayerDefs) -> Result<LibSummary, String> {
    let layers = lib.layers.read().map_err(|_| "lock")?;
    let mut out = LibSummary { name: lib.name.clone(), units: format!("{:?}", lib.units), cells: BTreeMap::new() };
    let all = all_cells(lib)?;
    for c in all.iter() {
        let c = c.read().map_err(|_| "lock")?;
        let mut s = CellSummary::default();
        if let Some(lay) = &c.layout {
            s.has_layout = true;
            s.layout_name = lay.name.clone();
            for i in &lay.insts {
                let t = i.cell.read().map_err(|_| "lock")?.name.clone();
                s.insts.push((i.inst_name.clone(), t, i.loc.x as i64, i.loc.y as i64, i.reflect_vert, angle_deg(i.angle).ok_or("non-integer angle")?));
            }
            s.insts.sort();
            s.annotations = sorted(lay.annotations.iter().map(|t| (t.string.clone(), t.loc.x as i64, t.loc.y as i64)).collect());
            for e in &lay.elems {
                let l = layers.get(e.layer).ok_or("unknown layer key")?;
                let pn = defs.num_of(e.layer, &e.purpose).or_else(|| l.num(&e.purpose)).ok_or("purpose without number")?;
                s.shapes.entry((l.layernum as i64, pn as i64)).or_default().push((cshape_of(&e.inner), format!("{}|{}", kind_of(&e.inner), e.net.clone().unwrap_or_default())));
            }
            for v in s.shapes.values_mut() {
                v.sort();
            }
        }
        if let Some(a) = &c.abs {
            s.has_abstract = true;
            s.abstract_name = a.name.clone();
            s.outline = a.outline.points.iter().map(|p| (p.x as i64, p.y as i64)).collect();
            for p in &a.ports {
                let mut m = BTreeMap::new();
                for (k, v) in &p.shapes {
                    let l = layers.get(*k).ok_or("unknown layer key")?;
                    m.insert((l.layernum as i64, defs.num_of(*k, &raw::LayerPurpose::Pin).or_else(|| l.num(&raw::LayerPurpose::Pin)).map_or(-1, |n| n as i64)), sorted(v.iter().map(|s| (cshape_of(s), kind_of(s).to_string())).collect()));
                }
                s.ports.push((p.net.clone(), m));
            }
            for (k, v) in &a.blockages {
                let l = layers.get(*k).ok_or("unknown layer key")?;
                s.blockages.insert((l.layernum as i64, defs.num_of(*k, &raw::LayerPurpose::Obstruction).or_else(|| l.num(&raw::LayerPurpose::Obstruction)).map_or(-1, |n| n as i64)), sorted(v.iter().map(|s| (cshape_of(s), kind_of(s).to_string())).collect()));
            }
        }
        out.cells.insert(c.name.clone(), s);
    }
    Ok(out)
}
/// The schema distinguishes rectangles, polygons and paths: the kind is part of what must survive (a four-point polygon is not a rectangle).
fn kind_of(s: &raw::Shape) -> &'static str {
    match s {
        raw::Shape::Rect(_) => "R",
        raw::Shape::Polygon(_) => "G",
        raw::Shape::Path(_) => "P",
    }
}
fn pshapes(ls: &proto::LayerShapes) -> Vec<ShapeKey> {
    let mut v = Vec::new();
    for r in &ls.rectangles {
        let ll = r.lower_left.clone().unwrap_or_default();
        v.push((CShape::Poly(rect_cycle((ll.x, ll.y), (ll.x + r.width, ll.y + r.height))), format!("R|{}", r.net)));
    }
    for p in &ls.polygons {
        v.push((CShape::Poly(canon_cycle(&p.vertices.iter().map(|q| (q.x, q.y)).collect::<Vec<_>>())), format!("G|{}", p.net)));
    }
    for p in &ls.paths {
        v.push((CShape::Path(p.points.iter().map(|q| (q.x, q.y)).collect(), p.width), format!("P|{}", p.net)));
    }
    v.sort();
    v
}
fn summarize_proto(p: &proto::Library) -> LibSummary {
    let units = match proto::Units::from_i32(p.units) {
        Some(proto::Units::Micro) => "Micro",
        Some(proto::Units::Nano) => "Nano",
        Some(proto::Units::Angstrom) => "Angstrom",
        None => "?",
    };
    let mut out = LibSummary { name: p.domain.clone(), units: units.to_string(), cells: BTreeMap::new() };
    for c in &p.cells {
        let mut s = CellSummary::default();
        if let Some(lay) = &c.layout {
            s.has_layout = true;
            s.layout_name = lay.name.clone();
            for i in &lay.instances {
                let t = match i.cell.as_ref().and_then(|r| r.to.as_ref()) {
                    Some(proto::reference::To::Local(n)) => n.clone(),
                    _ => "?".into(),
                };
                let loc = i.origin_location.clone().unwrap_or_default();
                s.insts.push((i.name.clone(), t, loc.x, loc.y, i.reflect_vert, i.rotation_clockwise_degrees as i64));
            }
            s.insts.sort();
            s.annotations = sorted(lay.annotations.iter().map(|t| { let l = t.loc.clone().unwrap_or_default(); (t.string.clone(), l.x, l.y) }).collect());
            for ls in &lay.shapes {
                let l = ls.layer.clone().unwrap_or_default();
                let e = s.shapes.entry((l.number, l.purpose)).or_default();
                e.extend(pshapes(ls));
                e.sort();
            }
        }
        if let Some(a) = &c.r#abstract {
            s.has_abstract = true;
            s.abstract_name = a.name.clone();
            s.outline = a.outline.as_ref().map(|o| o.vertices.iter().map(|q| (q.x, q.y)).collect()).unwrap_or_default();
            for port in &a.ports {
                let mut m = BTreeMap::new();
                for ls in &port.shapes {
                    let l = ls.layer.clone().unwrap_or_default();
                    m.insert((l.number, l.purpose), pshapes(ls).into_iter().map(|(s, t)| (s, t[..1].to_string())).collect());
                }
                s.ports.push((port.net.clone(), m));
            }
            for ls in &a.blockages {
                let l = ls.layer.clone().unwrap_or_default();
                s.blockages.insert((l.number, l.purpose), pshapes(ls).into_iter().map(|(s, t)| (s, t[..1].to_string())).collect());
            }
        }
        out.cells.insert(c.name.clone(), s);
    }
    out
}
fn first_diff(a: &LibSummary, b: &LibSummary) -> Option<(String, String)> {
    if a.name != b.name {
        return Some(("library-name".into(), format!("{} vs {}", a.name, b.name)));
    }
    if a.units != b.units {
        return Some(("units".into(), format!("{} vs {}", a.units, b.units)));
    }
    if a.cells.keys().collect::<Vec<_>>() != b.cells.keys().collect::<Vec<_>>() {
        return Some(("cell-set".into(), format!("{:?} vs {:?}", a.cells.keys().collect::<Vec<_>>(), b.cells.keys().collect::<Vec<_>>())));
    }
    for (n, x) in &a.cells {
        let y = &b.cells[n];
        macro_rules! f {
            ($field:ident, $class:expr) => {
                if x.$field != y.$field {
                    return Some(($class.to_string(), format!("cell {}: {:?} vs {:?}", n, x.$field, y.$field).chars().take(700).collect()));
                }
            };
        }
        f!(has_layout, "layout-presence");
        f!(has_abstract, "abstract-presence");
        f!(layout_name, "layout-name");
        f!(abstract_name, "abstract-name");
        if x.insts != y.insts {
            let rot = x.insts.iter().zip(y.insts.iter()).any(|(p, q)| (&p.0, &p.1, p.2, p.3, p.4) == (&q.0, &q.1, q.2, q.3, q.4) && p.5 != q.5);
            return Some((if rot { "instance-rotation".into() } else { "instances".into() }, format!("cell {}: {:?} vs {:?}", n, x.insts, y.insts).chars().take(700).collect()));
        }
        f!(annotations, "annotations");
        f!(shapes, "shapes");
        f!(outline, "abstract-outline");
        f!(ports, "abstract-ports");
        f!(blockages, "abstract-blockages");
    }
    None
}

/// Independent raw -> proto writer (used to build messages for the proto -> raw -> proto direction). Cells in creation (dependency) order.
pub fn proto_of(g: &GenRaw) -> Result<proto::Library, String> {
    let layers = g.lib.layers.read().map_err(|_| "lock")?;
    let mut p = proto::Library::default();
    p.domain = g.lib.name.clone();
    p.units = match g.lib.units {
        raw::Units::Micro => proto::Units::Micro as i32,
        raw::Units::Nano => proto::Units::Nano as i32,
        raw::Units::Angstrom => proto::Units::Angstrom as i32,
        raw::Units::Pico => return Err("pico".into()),
    };
    let add = |ls: &mut proto::LayerShapes, s: &Shape, net: &str| match s {
        Shape::Rect(r) => {
            let (x0, y0, x1, y1) = (r.p0.x.min(r.p1.x) as i64, r.p0.y.min(r.p1.y) as i64, r.p0.x.max(r.p1.x) as i64, r.p0.y.max(r.p1.y) as i64);
            ls.rectangles.push(proto::Rectangle { net: net.into(), lower_left: Some(proto::Point::new(x0, y0)), width: x1 - x0, height: y1 - y0 });
        }
        Shape::Polygon(g2) => ls.polygons.push(proto::Polygon { net: net.into(), vertices: g2.points.iter().map(|q| proto::Point::new(q.x as i64, q.y as i64)).collect() }),
        Shape::Path(g2) => ls.paths.push(proto::Path { net: net.into(), width: g2.width as i64, points: g2.points.iter().map(|q| proto::Point::new(q.x as i64, q.y as i64)).collect() }),
    };
    // creation order = names order
    let all = all_cells(&g.lib)?;
    for name in &g.names {
        let c = all.iter().find(|c| c.read().unwrap().name == *name).ok_or("cell")?;
        let c = c.read().unwrap();
        let mut pc = proto::Cell::default();
        pc.name = c.name.clone();
        if let Some(lay) = &c.layout {
            let mut pl = proto::Layout::default();
            pl.name = lay.name.clone();
            for i in &lay.insts {
                pl.instances.push(proto::Instance {
                    name: i.inst_name.clone(),
                    cell: Some(proto::Reference { to: Some(proto::reference::To::Local(i.cell.read().unwrap().name.clone())) }),
                    origin_location: Some(proto::Point::new(i.loc.x as i64, i.loc.y as i64)),
                    reflect_vert: i.reflect_vert,
                    rotation_clockwise_degrees: angle_deg(i.angle).ok_or("angle")? as i32,
                });
            }
            for t in &lay.annotations {
                pl.annotations.push(proto::TextElement { string: t.string.clone(), loc: Some(proto::Point::new(t.loc.x as i64, t.loc.y as i64)) });
            }
            for e in &lay.elems {
                let l = layers.get(e.layer).ok_or("layer")?;
                let key = (l.layernum as i64, g.defs.num_of(e.layer, &e.purpose).or_else(|| l.num(&e.purpose)).ok_or("purpose")? as i64);
                let idx = match pl.shapes.iter().position(|ls| ls.layer.as_ref().map(|x| (x.number, x.purpose)) == Some(key)) {
                    Some(i) => i,
                    None => {
                        pl.shapes.push(proto::LayerShapes { layer: Some(proto::Layer::new(key.0, key.1)), ..Default::default() });
                        pl.shapes.len() - 1
                    }
                };
                add(&mut pl.shapes[idx], &e.inner, e.net.as_deref().unwrap_or(""));
            }
            pc.layout = Some(pl);
        }
        if let Some(a) = &c.abs {
            let mut pa = proto::Abstract::default();
            pa.name = a.name.clone();
            pa.outline = Some(proto::Polygon { net: String::new(), vertices: a.outline.points.iter().map(|q| proto::Point::new(q.x as i64, q.y as i64)).collect() });
            for port in &a.ports {
                let mut pp = proto::AbstractPort { net: port.net.clone(), shapes: vec![] };
                let mut keys: Vec<_> = port.shapes.keys().collect();
                keys.sort_by_key(|k| layers.get(**k).map(|l| l.layernum));
                for k in keys {
                    let l = layers.get(*k).ok_or("layer")?;
                    let mut ls = proto::LayerShapes { layer: Some(proto::Layer::new(l.layernum as i64, g.defs.num_of(*k, &raw::LayerPurpose::Pin).or_else(|| l.num(&raw::LayerPurpose::Pin)).ok_or("pin")? as i64)), ..Default::default() };
                    for s in &port.shapes[k] {
                        add(&mut ls, s, "");
                    }
                    pp.shapes.push(ls);
                }
                pa.ports.push(pp);
            }
            let mut keys: Vec<_> = a.blockages.keys().collect();
            keys.sort_by_key(|k| layers.get(**k).map(|l| l.layernum));
            for k in keys {
                let l = layers.get(*k).ok_or("layer")?;
                let mut ls = proto::LayerShapes { layer: Some(proto::Layer::new(l.layernum as i64, g.defs.num_of(*k, &raw::LayerPurpose::Obstruction).or_else(|| l.num(&raw::LayerPurpose::Obstruction)).ok_or("obs")? as i64)), ..Default::default() };
                for s in &a.blockages[k] {
                    add(&mut ls, s, "");
                }
                pa.blockages.push(ls);
            }
            pc.r#abstract = Some(pa);
        }
        p.cells.push(pc);
    }
    Ok(p)
}
fn deps_first(p: &proto::Library) -> bool {
    let mut seen: Vec<&str> = Vec::new();
    for c in &p.cells {
        if let Some(l) = &c.layout {
            for i in &l.instances {
                if let Some(proto::reference::To::Local(n)) = i.cell.as_ref().and_then(|r| r.to.as_ref()) {
                    if !seen.contains(&n.as_str()) {
                        return false;
                    }
                }
            }
        }
        seen.push(&c.name);
    }
    true
}

impl Prop for C14 {
    fn id(&self) -> &'static str {
        "C14"
    }
    fn rule(&self) -> String {
        "Raw libraries from gen/rawgen.rs with layouts and abstracts (ports on 1-4 layers, blockages), named instances in all reflection/right-angle combinations, annotations, all shape kinds with and without nets on 1-4 layers x 6 purposes, units Micro/Nano/Angstrom, cells listed in straight/reversed/shuffled order. \
         Direction 1: from_proto(to_proto(lib)) compared with lib on name, units, cell set, view presence, instances (name, target, loc, reflect, rotation), annotations, per-(layer,purpose) shape multisets (rectangles by normalised corners, widths, nets), abstract outline/ports/blockages (per-layer maps); exported cell order must list dependencies first and the import must not fail. \
         Direction 2: a protobuf message built by an independent writer (cells dependencies-first) must satisfy to_proto(from_proto(P)) == P (cell order exact; repeated per-layer fields compared as maps, since the raw model keeps them in maps by layer). One library in four leaves an instantiated cell out of lib.cells (the export must define it all the same); one in twelve carries a fractional angle, which the export may refuse but not accept; imported instance targets are members of lib.cells by identity. distinct_nontrivial = distinct libraries (summary hash) having an instance, net or abstract."
            .into()
    }
    fn assumptions(&self) -> Vec<String> {
        vec!["Units::Pico is outside the schema and not generated".into(), "instance angle None and 0 are identified (the schema has a plain integer)".into(),
             "port/blockage purposes are not stored in the raw model: messages use the Pin/Obstruction numbers of the supplied Layers".into()]
    }
    fn miri_gen(&self) -> Option<&'static str> {
        Some("raw-proto-raw")
    }
    fn plan(&self, tier: Tier) -> Vec<GenSpec> {
        vec![
            GenSpec::random("raw-proto-raw", tier.pick(30_000, 400_000)),
            GenSpec::random("proto-raw-proto", tier.pick(30_000, 400_000)),
            // an abstract whose port has shapes on two layers that share a layer number (met1 68/x and via 68/y, as in the crate's own layer set)
            GenSpec::random("split-layer-abstract", tier.pick(40, 1_000)),
        ]
    }
    fn run_case(&self, cx: &mut Cx) {
        if cx.gen == "split-layer-abstract" {
            use raw::{Abstract, AbstractPort, Cell, Layer, LayerPurpose, Layers, Point, Polygon, Rect};
            cx.eval();
            let num = cx.rng.range(1, 200) as i16;
            // two, three or four layers on ONE layer number (met1 / via / met1res ... 68/x), each with a pin purpose number of its own,
            // defined in a shuffled order; the port has one rectangle on each of them
            let k = 2 + cx.rng.usize(3);
            let mut pins: Vec<i16> = Vec::new();
            while pins.len() < k {
                let q = cx.rng.range(1, 60) as i16;
                if !pins.contains(&q) {
                    pins.push(q);
                }
            }
            let (pin_a, pin_b) = (pins[0], pins[1]);
            let salt = cx.rng.below(1 << 20);
            cx.nontrivial(((num as u64) << 24) ^ ((pin_a as u64) << 16) ^ ((pin_b as u64) << 8) ^ k as u64 ^ (salt << 32));
            let mut layers = Layers::default();
            let mut keys = Vec::new();
            for (i, pin) in pins.iter().enumerate() {
                let name = ["met1", "via", "met1res", "met1fill"][i];
                keys.push(layers.add(Layer::new(num, name).add_pairs(&[(100 + i as i16, LayerPurpose::Drawing), (*pin, LayerPurpose::Pin), (61 + i as i16, LayerPurpose::Obstruction)]).unwrap()));
            }
            let mut lib = Library::new("split", raw::Units::Nano);
            lib.layers = raw::utils::Ptr::new(layers);
            let mut abs = Abstract::new("cellA", Polygon { points: vec![Point::new(0, 0), Point::new(100, 0), Point::new(100, 100), Point::new(0, 100)] });
            let mut port = AbstractPort::new("p");
            let rect_of = |i: usize| Shape::Rect(Rect { p0: Point::new(1 + 20 * i as isize, 1), p1: Point::new(9 + 20 * i as isize, 9) });
            let mut order: Vec<usize> = (0..k).collect();
            cx.rng.shuffle(&mut order);
            for &i in &order {
                port.shapes.insert(keys[i], vec![rect_of(i)]);
            }
            abs.ports.push(port);
            lib.cells.add(Cell::from(abs));
            let r = guard(|| -> Result<usize, String> {
                let p = lib.to_proto().map_err(|e| format!("export: {:?}", e))?;
                let back = Library::from_proto(p.clone(), Some(lib.layers.clone())).map_err(|e| format!("import: {:?}", e))?;
                let n = {
                    let c = back.cells[0].read().unwrap();
                    let a = c.abs.as_ref().ok_or("no abstract")?;
                    // every rectangle back under the key of ITS layer
                    for i in 0..k {
                        let here = a.ports.iter().any(|p| p.shapes.get(&keys[i]).map_or(false, |v| v.iter().any(|s| format!("{:?}", s) == format!("{:?}", rect_of(i)))));
                        if !here {
                            return Err(format!("WRONG-LAYER: the rectangle of layer {} of {} (pin number {}) is not under that layer's key after the trip", i, k, pins[i]));
                        }
                    }
                    a.ports.iter().map(|p| p.shapes.values().map(|v| v.len()).sum::<usize>()).sum()
                };
                let p2 = back.to_proto().map_err(|e| format!("re-export: {:?}", e))?;
                if p2 != p {
                    return Err("RE-EXPORT-DIFFERS: the imported library does not export to the same message".to_string());
                }
                Ok(n)
            });
            match r {
                Err(c) => cx.violation(&format!("split-layer-abstract|panic|{}", c.norm_msg()), json!({"panic": c.msg})),
                Ok(Err(e)) if e.starts_with("WRONG-LAYER") => cx.violation("split-layer-abstract|port-shape-on-the-wrong-layer", json!({"what": e, "layer_number": num, "pin_numbers": pins})),
                Ok(Err(e)) if e.starts_with("RE-EXPORT") => cx.violation("split-layer-abstract|re-export-differs", json!({"what": e, "layer_number": num, "pin_numbers": pins})),
                Ok(Err(e)) => cx.violation("split-layer-abstract|error", json!({"error": e.chars().take(300).collect::<String>()})),
                Ok(Ok(n)) if n == k => cx.count("split_layer_abstract_ports_preserved"),
                Ok(Ok(n)) => cx.violation("split-layer-abstract|port-shapes-lost", json!({"layer_number": num, "pin_numbers": pins, "port_shapes_exported": k, "port_shapes_after_the_trip": n})),
            }
            return;
        }
        let mut cfg = RawCfg::proto();
        cfg.unlisted_cells = true;
        // every third library: a technology in which distinct layers share a layer number and give the same purpose different numbers
        // (met1 68/20 and via 68/44, as in the crate's own test layer set)
        // Layout views only: an abstract keys its shapes by layer, and `Layers` resolves a number to ONE layer (its `add` carries a FIXME
        // about conflicting numbers), so abstracts over such a technology are outside what the converters - and this check - can tell apart.
        if cx.n % 3 == 1 {
            cfg.shared_layer_numbers = true;
            cfg.abstracts = false;
            cx.count("libraries_with_shared_layer_numbers");
        }
        let g = rand_raw_lib(&mut cx.rng, &cfg);
        cx.eval();
        let want = match summarize_raw(&g.lib, &g.defs) {
            Ok(w) => w,
            Err(e) => {
                cx.inconclusive(format!("generator: {}", e));
                return;
            }
        };
        if want.cells.values().any(|c| !c.insts.is_empty() || c.has_abstract || c.shapes.values().any(|v| v.iter().any(|s| !s.1.is_empty()))) {
            cx.nontrivial(crate::rt::prng::strhash(&format!("{:?}", want)));
        }
        match cx.gen.as_str() {
            "raw-proto-raw" => {
                // one library in twelve: an instance whose angle is not a whole number of degrees, by a hair (computed angles: (0.1+0.2)*100,
                // 90+1e-12, 1e-10) or plainly (22.5). The schema stores whole degrees, so such a rotation cannot be preserved: the export
                // may refuse; what it may not do is succeed (the rotation that comes back would be another one)
                if cx.n % 12 == 7 {
                    let mut placed = None;
                    for c in g.lib.cells.iter() {
                        let mut c = c.write().unwrap();
                        if let Some(l) = c.layout.as_mut() {
                            if let Some(i) = l.insts.first_mut() {
                                let base = i.angle.unwrap_or(0.0);
                                let a = match cx.rng.below(5) {
                                    0 => (0.1 + 0.2) * 100.0,
                                    1 => base + 1e-12 * (1.0 + base.abs()),
                                    2 => 1e-10,
                                    3 => base - 3e-13 * (1.0 + base.abs()),
                                    _ => base + 22.5,
                                };
                                if a.fract() != 0.0 {
                                    i.angle = Some(a);
                                    placed = Some(a);
                                }
                                break;
                            }
                        }
                    }
                    if let Some(a) = placed {
                        cx.eval();
                        match guard(|| g.lib.to_proto()) {
                            Err(c) => cx.violation(&format!("export-panic|{}|{}", c.site(), c.norm_msg()), json!({"panic": c.msg, "angle": a})),
                            Ok(Err(_)) => cx.count("fractional_angle_export_refused"),
                            Ok(Ok(_)) => cx.violation(if (a - a.round()).abs() < 1e-6 { "export|near-whole-angle-rounded" } else { "export|fractional-angle-accepted" }, json!({"angle": a, "angle_bits": format!("{:016x}", a.to_bits())})),
                        }
                    } else {
                        cx.count("fractional_angle_case_without_instance");
                    }
                    return;
                }
                let p = match guard(|| g.lib.to_proto()) {
                    Err(c) => {
                        cx.violation(&format!("export-panic|{}|{}", c.site(), c.norm_msg()), json!({"panic": c.msg}));
                        return;
                    }
                    Ok(Err(e)) => {
                        cx.violation("export-error", json!({"error": format!("{:?}", e).chars().take(400).collect::<String>()}));
                        return;
                    }
                    Ok(Ok(p)) => p,
                };
                if !deps_first(&p) {
                    cx.violation("export|user-listed-before-dependency", json!({"cells": p.cells.iter().map(|c| c.name.clone()).collect::<Vec<_>>()}));
                    return;
                }
                cx.count("exports_dependency_ordered");
                // one case in six: a CLONE of the library (`Library: Clone`, as a caller keeping a snapshot makes one) exports to the same message
                if cx.n % 6 == 4 {
                    match guard(|| g.lib.clone().to_proto()) {
                        Ok(Ok(p2)) if p2 == p => cx.count("clone_exports_to_the_same_message"),
                        Ok(Ok(p2)) => {
                            cx.violation("export-of-a-clone-differs", json!({"cells": p.cells.iter().map(|c| c.name.clone()).collect::<Vec<_>>(), "cells_of_clone": p2.cells.iter().map(|c| c.name.clone()).collect::<Vec<_>>()}));
                            return;
                        }
                        Ok(Err(e)) => {
                            cx.violation("export-of-a-clone-fails", json!({"error": format!("{:?}", e).chars().take(300).collect::<String>()}));
                            return;
                        }
                        Err(c) => {
                            cx.violation(&format!("export-panic|clone|{}|{}", c.site(), c.norm_msg()), json!({"panic": c.msg}));
                            return;
                        }
                    }
                }
                // the message itself must already carry the content (boundary observation)
                if let Some((class, at)) = first_diff(&want, &summarize_proto(&p)) {
                    cx.violation(&format!("export|{}", class), json!({"at": at}));
                    return;
                }
                // one case in five: an import that must FAIL goes into the same (shared) layer set first - the message with one more cell whose
                // layout places a cell nobody defined, after all the shapes. The layer set it was lent must be as useful afterwards as before.
                if cx.n % 5 == 2 {
                    let mut bad = p.clone();
                    let mut pc = proto::Cell::default();
                    pc.name = "refers_to_nothing".into();
                    let mut pl = proto::Layout::default();
                    pl.name = "refers_to_nothing".into();
                    if let Some(src) = p.cells.iter().filter_map(|c| c.layout.as_ref()).find(|l| !l.shapes.is_empty()) {
                        pl.shapes = src.shapes.clone();
                    }
                    pl.instances.push(proto::Instance {
                        name: "dangling".into(),
                        cell: Some(proto::Reference { to: Some(proto::reference::To::Local("no_such_cell_anywhere".into())) }),
                        origin_location: Some(proto::Point::new(1, 2)),
                        reflect_vert: false,
                        rotation_clockwise_degrees: 0,
                    });
                    pc.layout = Some(pl);
                    bad.cells.push(pc);
                    match guard(|| Library::from_proto(bad, Some(g.lib.layers.clone())).map(|_| ())) {
                        Ok(Err(_)) => cx.count("earlier_import_that_failed_into_the_same_layer_set"),
                        Ok(Ok(())) => cx.count("message_with_undefined_reference_accepted"),
                        Err(c) => {
                            cx.violation(&format!("import-panic|undefined-reference|{}|{}", c.site(), c.norm_msg()), json!({"panic": c.msg}));
                            return;
                        }
                    }
                    // the untouched library still exports, to the same message
                    match guard(|| g.lib.to_proto()) {
                        Ok(Ok(p2)) if p2 == p => cx.count("export_unchanged_after_a_failed_import"),
                        Ok(Ok(_)) => {
                            cx.violation("export-differs-after-a-failed-import-into-the-library's-layer-set", json!({"library": g.lib.name}));
                            return;
                        }
                        Ok(Err(e)) => {
                            cx.violation("export-error-after-a-failed-import-into-the-library's-layer-set", json!({"error": format!("{:?}", e).chars().take(300).collect::<String>()}));
                            return;
                        }
                        Err(c) => {
                            cx.violation(&format!("export-panic|{}|{}", c.site(), c.norm_msg()), json!({"panic": c.msg}));
                            return;
                        }
                    }
                }
                let back = match guard(|| Library::from_proto(p.clone(), Some(g.lib.layers.clone()))) {
                    Err(c) => {
                        cx.violation(&format!("import-panic|{}|{}", c.site(), c.norm_msg()), json!({"panic": c.msg}));
                        return;
                    }
                    Ok(Err(e)) => {
                        let es = format!("{:?}", e);
                        cx.violation(if es.contains("undefined cell") { "import-error|undefined-cell" } else { "import-error" }, json!({"error": es.chars().take(400).collect::<String>()}));
                        return;
                    }
                    Ok(Ok(l)) => l,
                };
                if let Some((c, t)) = super::c07::foreign_target(&back) {
                    cx.violation("import|instance-target-is-not-a-cell-of-the-library", json!({"cell": c, "target": t}));
                    return;
                }
                match summarize_raw(&back, &g.defs) {
                    Err(e) => cx.violation("import|unresolvable", json!({"error": e})),
                    Ok(got) => match first_diff(&want, &got) {
                        Some((class, at)) => cx.violation(&format!("roundtrip|{}", class), json!({"at": at})),
                        None => cx.count("raw_roundtrip_ok"),
                    },
                }
                cx.sample(|| json!({"cells": want.cells.keys().collect::<Vec<_>>(), "units": want.units}));
            }
            "proto-raw-proto" => {
                let p = match proto_of(&g) {
                    Ok(p) => p,
                    Err(e) => {
                        cx.inconclusive(format!("writer: {}", e));
                        return;
                    }
                };
                let lib = match guard(|| Library::from_proto(p.clone(), Some(g.lib.layers.clone()))) {
                    Err(c) => {
                        cx.violation(&format!("import-panic|{}|{}", c.site(), c.norm_msg()), json!({"panic": c.msg}));
                        return;
                    }
                    Ok(Err(e)) => {
                        cx.violation("import-error", json!({"error": format!("{:?}", e).chars().take(400).collect::<String>()}));
                        return;
                    }
                    Ok(Ok(l)) => l,
                };
                let p2 = match guard(|| lib.to_proto()) {
                    Err(c) => {
                        cx.violation(&format!("reexport-panic|{}|{}", c.site(), c.norm_msg()), json!({"panic": c.msg}));
                        return;
                    }
                    Ok(Err(e)) => {
                        cx.violation("reexport-error", json!({"error": format!("{:?}", e).chars().take(400).collect::<String>()}));
                        return;
                    }
                    Ok(Ok(p2)) => p2,
                };
                let (n1, n2): (Vec<&String>, Vec<&String>) = (p.cells.iter().map(|c| &c.name).collect(), p2.cells.iter().map(|c| &c.name).collect());
                if n1 != n2 {
                    cx.violation("message|cell-order", json!({"want": n1, "got": n2}));
                    return;
                }
                match first_diff(&summarize_proto(&p), &summarize_proto(&p2)) {
                    Some((class, at)) => cx.violation(&format!("message|{}", class), json!({"at": at})),
                    None => cx.count("proto_roundtrip_ok"),
                }
                cx.sample(|| json!({"message_cells": n1}));
            }
            other => cx.inconclusive(format!("unknown generator {}", other)),
        }
    }
}
