//! C08 — compiled gridded layouts realise exactly their tracks, cuts, vias and nets.

use crate::rt::*;
use layout21tetris as tet;
use serde_json::json;
use std::collections::BTreeMap;
use tet::cell::Cell;
use tet::conv::raw::RawExporter;
use tet::coords::{DbUnits, PrimPitches, Xy};
use tet::instance::Instance;
use tet::layout::Layout;
use tet::library::Library;
use tet::outline::Outline;
use tet::placement::Place;
use tet::raw;
use tet::raw::Dir;
use tet::stack::*;
use tet::tracks::*;
use tet::utils::Ptr;

pub struct C08;

// ------------------------------------------------------------------ reference model of a layer stack

#[derive(Clone, Copy, Debug, PartialEq, Eq)]
pub enum Kind {
    Gap,
    Sig,
    Pwr,
    Gnd,
}
#[derive(Clone, Debug)]
pub struct RMetal {
    pub horiz: bool,
    pub cutsize: i64,
    pub entries: Vec<(Kind, i64)>,
    pub offset: i64,
    pub overlap: i64,
    pub flip: bool,
}
impl RMetal {
    pub fn total(&self) -> i64 {
        self.entries.iter().map(|e| e.1).sum()
    }
    pub fn pitch(&self) -> i64 {
        self.total() - self.overlap
    }
    pub fn nsig(&self) -> usize {
        self.entries.iter().filter(|e| e.0 == Kind::Sig).count()
    }
    /// Tracks of period `n` in spatially ascending order: (kind, start, width). Odd periods of a flipped layer mirror the entry order.
    pub fn period(&self, n: i64) -> Vec<(Kind, i64, i64)> {
        let mut cursor = self.offset + self.pitch() * n;
        let mut out = Vec::new();
        let order: Vec<&(Kind, i64)> = if self.flip && n % 2 == 1 { self.entries.iter().rev().collect() } else { self.entries.iter().collect() };
        for (k, w) in order {
            if *k != Kind::Gap {
                out.push((*k, cursor, *w));
            }
            cursor += *w;
        }
        out
    }
    /// Signal track `idx` (counted spatially ascending across periods): (start, width)
    pub fn signal(&self, idx: usize) -> (i64, i64) {
        let ns = self.nsig();
        let (n, k) = (idx / ns, idx % ns);
        let sigs: Vec<(Kind, i64, i64)> = self.period(n as i64).into_iter().filter(|t| t.0 == Kind::Sig).collect();
        (sigs[k].1, sigs[k].2)
    }
    pub fn center(&self, idx: usize) -> i64 {
        let (s, w) = self.signal(idx);
        s + w / 2
    }
    pub fn asymmetric(&self) -> bool {
        let rev: Vec<(Kind, i64)> = self.entries.iter().rev().cloned().collect();
        rev != self.entries
    }
}
#[derive(Clone, Debug)]
pub struct RStack {
    pub px: i64,
    pub py: i64,
    pub metals: Vec<RMetal>,
    /// via i connects metal i (bottom) and i+1: size (x, y)
    pub vias: Vec<(i64, i64)>,
}

fn gcd(a: i64, b: i64) -> i64 {
    if b == 0 { a } else { gcd(b, a % b) }
}
fn lcm(a: i64, b: i64) -> i64 {
    a / gcd(a, b) * b
}

pub struct BuiltStack {
    pub stack: Stack,
    pub r: RStack,
    pub metal_keys: Vec<raw::LayerKey>,
    pub via_keys: Vec<raw::LayerKey>,
    /// multiples (in primitive pitches) every outline/instance dimension must have per axis
    pub lx: i64,
    pub ly: i64,
}

pub fn gen_stack(rng: &mut Rng) -> BuiltStack {
    let nmetals = 2 + rng.usize(4);
    let mut px = *rng.pick(&[24i64, 40, 60, 100]);
    let mut py = *rng.pick(&[24i64, 40, 60, 100]);
    // one stack in twenty-five has a primitive pitch of hundreds of millions of database units in one direction (picometre units, a
    // wide block): track centres, cuts and vias then lie beyond 2^31, where every coordinate still has to be exact
    if rng.chance(1, 25) {
        if rng.bool() {
            px *= 10_000_000;
        } else {
            py *= 10_000_000;
        }
    }
    let (px, py) = (px, py);
    let mut layers = raw::Layers::default();
    let boundary = layers.add(raw::Layer::new(0, "boundary"));
    let first_horiz = rng.bool();
    let mut metals: Vec<MetalLayer> = Vec::new();
    let mut rmetals: Vec<RMetal> = Vec::new();
    let mut metal_keys = Vec::new();
    let (mut lx, mut ly) = (1i64, 1i64);
    for i in 0..nmetals {
        // alternate layers often share one track pattern (as metals 1/3/5 of the sample stack do): their track centres then coincide exactly
        if i >= 2 && rng.chance(1, 3) {
            let key = layers.add(raw::Layer::new(10 + i as i16, format!("met{}", i + 1)));
            let mut ml = metals[i - 2].clone();
            ml.name = format!("met{}", i + 1);
            ml.raw = Some(key);
            metals.push(ml);
            let rm = rmetals[i - 2].clone();
            rmetals.push(rm);
            metal_keys.push(key);
            continue;
        }
        let horiz = (i % 2 == 0) == first_horiz;
        let unit = if horiz { py } else { px };
        let m = rng.range(1, 4);
        let pitch = m * unit;
        if horiz { ly = lcm(ly, m) } else { lx = lcm(lx, m) }
        // entry kinds
        let shared_rail = rng.chance(1, 3);
        let k = 2 + rng.usize(6);
        let mut kinds: Vec<Kind> = (0..k).map(|_| *rng.pick(&[Kind::Gap, Kind::Sig, Kind::Sig, Kind::Sig, Kind::Pwr, Kind::Gnd])).collect();
        if !kinds.contains(&Kind::Sig) {
            kinds[k / 2] = Kind::Sig;
        }
        let mut overlap = if rng.chance(1, 4) { 2 * rng.range(1, 4) } else { 0 };
        let rail_w = 2 * rng.range(2, 8);
        if shared_rail {
            let rk = if rng.bool() { Kind::Pwr } else { Kind::Gnd };
            kinds[0] = rk;
            kinds[k - 1] = rk;
            if !kinds.contains(&Kind::Sig) {
                kinds.insert(1, Kind::Sig);
            }
            overlap = rail_w;
        }
        let k = kinds.len();
        let total = pitch + overlap;
        // even widths >= 2 summing to `total`
        let mut widths = vec![2i64; k];
        if shared_rail {
            widths[0] = rail_w;
            widths[k - 1] = rail_w;
        }
        let mut rest = total - widths.iter().sum::<i64>();
        if rest < 0 {
            // not enough room: fall back to a minimal two-entry pattern
            kinds = vec![Kind::Sig, Kind::Gap];
            widths = vec![pitch / 2 - (pitch / 2) % 2, 0];
            widths[1] = pitch - widths[0];
            overlap = 0;
            rest = 0;
        }
        let k = kinds.len();
        while rest > 0 {
            let j = if shared_rail && k > 2 { 1 + rng.usize(k - 2) } else { rng.usize(k) };
            let add = if rest > 1000 { ((rest / 2) & !1).max(2) } else { (2 * rng.range(1, 10)).min(rest) };
            widths[j] += add;
            rest -= add;
        }
        let overlap = overlap;
        let symmetric_wish = rng.chance(1, 3);
        let mut entries: Vec<(Kind, i64)> = kinds.iter().cloned().zip(widths.iter().cloned()).collect();
        if symmetric_wish && !shared_rail {
            // mirror the first half onto the second where the sum allows it (keeps total)
            let n = entries.len();
            for a in 0..n / 2 {
                let b = n - 1 - a;
                let s = entries[a].1 + entries[b].1;
                if s % 4 == 0 {
                    entries[a].1 = s / 2;
                    entries[b].1 = s / 2;
                    entries[b].0 = entries[a].0;
                }
            }
            if !entries.iter().any(|e| e.0 == Kind::Sig) {
                let mid = entries.len() / 2;
                entries[mid].0 = Kind::Sig;
            }
        }
        let offset = if shared_rail { -rail_w / 2 } else { 2 * rng.range(-10, 10) };
        let flip = rng.bool();
        let cutsize = 2 * rng.range(1, 6);
        // the library-side spec, optionally folding a run of equal entries into a Repeat
        let to_entry = |e: &(Kind, i64)| TrackEntry { width: DbUnits(e.1 as isize), ttype: match e.0 { Kind::Gap => TrackType::Gap, Kind::Sig => TrackType::Signal, Kind::Pwr => TrackType::Rail(RailKind::Pwr), Kind::Gnd => TrackType::Rail(RailKind::Gnd) } };
        let mut specs: Vec<TrackSpec> = Vec::new();
        let mut j = 0;
        while j < entries.len() {
            // find a repeated block of length 1 or 2 starting here
            let mut used = false;
            for bl in [2usize, 1] {
                if j + 2 * bl <= entries.len() && entries[j..j + bl] == entries[j + bl..j + 2 * bl] && rng.chance(2, 3) {
                    let mut reps = 2;
                    while j + (reps + 1) * bl <= entries.len() && entries[j..j + bl] == entries[j + reps * bl..j + (reps + 1) * bl] {
                        reps += 1;
                    }
                    specs.push(TrackSpec::Repeat(Repeat::new(entries[j..j + bl].iter().map(to_entry).collect::<Vec<_>>(), reps)));
                    j += reps * bl;
                    used = true;
                    break;
                }
            }
            if !used {
                specs.push(TrackSpec::Entry(to_entry(&entries[j])));
                j += 1;
            }
        }
        let key = layers.add(raw::Layer::new(10 + i as i16, format!("met{}", i + 1)));
        metal_keys.push(key);
        metals.push(MetalLayer {
            name: format!("met{}", i + 1),
            dir: if horiz { Dir::Horiz } else { Dir::Vert },
            cutsize: DbUnits(cutsize as isize),
            entries: specs,
            offset: DbUnits(offset as isize),
            overlap: DbUnits(overlap as isize),
            flip: if flip { FlipMode::EveryOther } else { FlipMode::None },
            prim: PrimitiveMode::Stack,
            raw: Some(key),
        });
        rmetals.push(RMetal { horiz, cutsize, entries, offset, overlap, flip });
    }
    let mut vias = Vec::new();
    let mut rvias = Vec::new();
    let mut via_keys = Vec::new();
    for i in 0..nmetals - 1 {
        let size = (2 * rng.range(1, 8), 2 * rng.range(1, 8));
        let key = layers.add(raw::Layer::new(50 + i as i16, format!("via{}", i + 1)));
        via_keys.push(key);
        vias.push(ViaLayer { name: format!("via{}", i + 1), top: ViaTarget::Metal(i + 1), bot: ViaTarget::Metal(i), size: Xy::new(DbUnits(size.0 as isize), DbUnits(size.1 as isize)), raw: Some(key) });
        rvias.push(size);
    }
    // one stack in three also has a contact layer: a via from the primitive (base) layers up to metal 0, of a size of its own and a raw
    // layer of its own, listed first (bottom-up, the natural order), last, or in between. No assignment ever refers to it: nothing may be
    // drawn on its layer (an element there is a `shape-on-unknown-layer`), and it may not stand in for a via between metals.
    if rng.chance(1, 3) {
        let key = layers.add(raw::Layer::new(49, "contact"));
        let contact = ViaLayer { name: "contact".into(), top: ViaTarget::Metal(0), bot: ViaTarget::Primitive, size: Xy::new(DbUnits(2 * rng.range(9, 12) as isize), DbUnits(2 * rng.range(9, 12) as isize)), raw: Some(key) };
        let at = match rng.below(3) {
            0 => 0,
            1 => vias.len(),
            _ => rng.usize(vias.len() + 1),
        };
        vias.insert(at, contact);
    }
    let stack = Stack { units: raw::Units::Nano, prim: PrimitiveLayer::new((px as isize, py as isize).into()), metals, vias, rawlayers: Some(Ptr::new(layers)), boundary_layer: Some(boundary) };
    BuiltStack { stack, r: RStack { px, py, metals: rmetals, vias: rvias }, metal_keys, via_keys, lx, ly }
}

// ------------------------------------------------------------------ cells

#[derive(Clone, Debug)]
pub struct RInst {
    name: String,
    sub: usize,
    /// bounding box in primitive pitches (x0, y0, x1, y1)
    bbox: (i64, i64, i64, i64),
    rh: bool,
    rv: bool,
}
#[derive(Clone, Debug)]
pub struct RCell {
    metals: usize,
    nx: i64,
    ny: i64,
    insts: Vec<RInst>,
    /// sub-cell definitions: (metals, sx, sy) in primitive pitches
    subs: Vec<(usize, i64, i64)>,
    /// (layer, track, cross layer, cross track)
    cuts: Vec<(usize, usize, usize, usize)>,
    assigns: Vec<(String, usize, usize, usize, usize)>,
}

/// Interval bookkeeping along one track: closed intervals that are cut or blocked
type Occ = BTreeMap<(usize, i64, usize), Vec<(i64, i64)>>; // (layer, period, track-in-period incl. rails) -> intervals

impl RCell {
    fn span_breadth(&self, r: &RStack, l: usize) -> (i64, i64) {
        let (x, y) = (self.nx * r.px, self.ny * r.py);
        if r.metals[l].horiz { (x, y) } else { (y, x) }
    }
    fn nperiods(&self, r: &RStack, l: usize) -> i64 {
        self.span_breadth(r, l).1 / r.metals[l].pitch()
    }
    /// Blocked interval along the track, for layer l and period n, from instances
    fn blocks(&self, r: &RStack, l: usize, n: i64) -> Vec<(i64, i64)> {
        let m = &r.metals[l];
        let mut v = Vec::new();
        for i in &self.insts {
            if self.subs[i.sub].0 <= l {
                continue;
            }
            let (bx0, by0, bx1, by1) = (i.bbox.0 * r.px, i.bbox.1 * r.py, i.bbox.2 * r.px, i.bbox.3 * r.py);
            let (per0, per1, al0, al1) = if m.horiz { (by0, by1, bx0, bx1) } else { (bx0, bx1, by0, by1) };
            if per1 > m.pitch() * n && per0 < m.pitch() * (n + 1) {
                v.push((al0, al1));
            }
        }
        v
    }
}

fn pieces(span: i64, removed: &[(i64, i64)]) -> Vec<(i64, i64)> {
    let mut r: Vec<(i64, i64)> = removed.to_vec();
    r.sort();
    let mut out = Vec::new();
    let mut cur = 0;
    for (a, b) in r {
        if a > cur {
            out.push((cur, a));
        }
        cur = cur.max(b);
    }
    if cur < span {
        out.push((cur, span));
    }
    out
}

pub fn gen_cell(rng: &mut Rng, b: &BuiltStack, with_insts: bool) -> RCell {
    let r = &b.r;
    let metals = 1 + rng.usize(r.metals.len());
    let (rx, ry) = if with_insts { (rng.range(2, 5), rng.range(2, 5)) } else { (rng.range(1, 3), rng.range(1, 3)) };
    let (nx, ny) = (b.lx * rx, b.ly * ry);
    let mut cell = RCell { metals, nx, ny, insts: vec![], subs: vec![], cuts: vec![], assigns: vec![] };
    if with_insts {
        // sub-cells: 0..=metals metal layers (a zero-metal cell blocks nothing); positions either on the common layer-pitch grid or on the
        // primitive grid only
        let fine = rng.bool();
        for s in 0..1 + rng.usize(2) {
            // (sizes stay on the common layer-pitch grid: the compiler rejects cells whose size is not a multiple of their layers' pitches)
            let (sx, sy) = (b.lx * rng.range(1, (rx - 1).max(1)), b.ly * rng.range(1, (ry - 1).max(1)));
            cell.subs.push((rng.usize(metals + 1), sx, sy));
            let _ = s;
        }
        for k in 0..1 + rng.usize(3) {
            let sub = rng.usize(cell.subs.len());
            let (sx, sy) = (cell.subs[sub].1, cell.subs[sub].2);
            // a position inside the outline: on the common layer-pitch grid, or on the primitive grid only (off the pitch of coarser layers)
            let (x0, y0) = if fine { (rng.range(0, nx - sx), rng.range(0, ny - sy)) } else { (b.lx * rng.range(0, (nx - sx) / b.lx), b.ly * rng.range(0, (ny - sy) / b.ly)) };
            let bbox = (x0, y0, x0 + sx, y0 + sy);
            // keep a strict gap to every earlier instance in at least one axis
            // no overlap with earlier instances; exact abutment is allowed (rows of cells abut, mirrored pairs share an origin)
            let ok = cell.insts.iter().all(|o| bbox.0 >= o.bbox.2 || bbox.2 <= o.bbox.0 || bbox.1 >= o.bbox.3 || bbox.3 <= o.bbox.1);
            if ok {
                // instance names need not be unique (nothing asks for it): in a third of the cells every instance is called inst0
                let name = if (nx + ny) % 3 == 0 { "inst0".to_string() } else { format!("inst{}", k) };
                cell.insts.push(RInst { name, sub, bbox, rh: rng.bool(), rv: rng.bool() });
            }
        }
    }
    // occupied intervals per signal track (global signal index), from instance blockages
    let mut occ: BTreeMap<(usize, usize), Vec<(i64, i64)>> = BTreeMap::new();
    let sig_occ = |cell: &RCell, occ: &BTreeMap<(usize, usize), Vec<(i64, i64)>>, l: usize, t: usize| -> Vec<(i64, i64)> {
        let n = (t / r.metals[l].nsig()) as i64;
        let mut v = cell.blocks(r, l, n);
        if let Some(c) = occ.get(&(l, t)) {
            v.extend(c.iter().cloned());
        }
        v
    };
    // cuts: usually a handful; one cell in six is cut densely (up to ~50 requests), half of those with every cut on one layer and within
    // its first period, so that per-layer / per-period containers see ten, sixteen, thirty entries
    let dense = rng.chance(1, 6);
    let focus: Option<usize> = if dense && rng.bool() { Some(rng.usize(metals)) } else { None };
    let ncuts = if dense { 8 + rng.usize(44) } else { rng.usize(8) };
    for _ in 0..ncuts {
        let l = focus.unwrap_or_else(|| rng.usize(metals));
        let cl = if l == 0 { 1 } else if l + 1 >= r.metals.len() || rng.bool() { l - 1 } else { l + 1 };
        if cl >= r.metals.len() {
            continue;
        }
        let nt = cell.nperiods(r, l) as usize * r.metals[l].nsig();
        let nc = cell.nperiods(r, cl) as usize * r.metals[cl].nsig();
        if nt == 0 || nc == 0 {
            continue;
        }
        let (t, c) = (if focus.is_some() { rng.usize(nt.min(r.metals[l].nsig().max(1))) } else { rng.usize(nt) }, rng.usize(nc));
        let ctr = r.metals[cl].center(c);
        let (a, bnd) = (ctr - r.metals[l].cutsize / 2, ctr + r.metals[l].cutsize / 2);
        let span = cell.span_breadth(r, l).0;
        if a <= 0 || bnd >= span {
            continue;
        }
        if sig_occ(&cell, &occ, l, t).iter().any(|(x, y)| a <= *y + 1 && bnd >= *x - 1) {
            continue;
        }
        occ.entry((l, t)).or_default().push((a, bnd));
        cell.cuts.push((l, t, cl, c));
        // the same track cut against its OTHER neighbour layer at the same crossing index (a different place on the track)
        if rng.chance(1, 3) && l >= 1 && l + 1 < r.metals.len() {
            let other = if cl == l + 1 { l - 1 } else { l + 1 };
            let nco = cell.nperiods(r, other) as usize * r.metals[other].nsig();
            if c < nco {
                let ctr2 = r.metals[other].center(c);
                let (a2, b2) = (ctr2 - r.metals[l].cutsize / 2, ctr2 + r.metals[l].cutsize / 2);
                if a2 > 0 && b2 < span && !sig_occ(&cell, &occ, l, t).iter().any(|(x, y)| a2 <= *y + 1 && b2 >= *x - 1) {
                    occ.entry((l, t)).or_default().push((a2, b2));
                    cell.cuts.push((l, t, other, c));
                }
            }
        }
    }
    // assignments: each wire piece used at most once
    let mut used: std::collections::HashSet<(usize, usize, i64)> = Default::default();
    for k in 0..rng.usize(8) {
        if metals < 2 {
            break;
        }
        let bot = rng.usize(metals - 1);
        let top = bot + 1;
        let (nb, ntp) = (cell.nperiods(r, bot) as usize * r.metals[bot].nsig(), cell.nperiods(r, top) as usize * r.metals[top].nsig());
        if nb == 0 || ntp == 0 {
            continue;
        }
        let (tb, tt) = (rng.usize(nb), rng.usize(ntp));
        // position along the bottom track = centre of the top track, and vice versa
        let (pos_b, pos_t) = (r.metals[top].center(tt), r.metals[bot].center(tb));
        let find_piece = |l: usize, t: usize, pos: i64| -> Option<i64> {
            let span = cell.span_breadth(r, l).0;
            pieces(span, &sig_occ(&cell, &occ, l, t)).into_iter().find(|(a, z)| pos > *a && pos < *z).map(|p| p.0)
        };
        // the crossing may also fall exactly on the FAR end of a wire piece, where a cut or an instance begins (track centres and instance
        // edges both sit on the primitive grid in many stacks): that piece is the only wire touching the crossing, and it is the first
        // thing on the track that does, so it carries the net (or the cell is refused). The near end is left out: there the cut or
        // blockage comes first, and what then "covers" the crossing is a tie the statement does not settle.
        let find_piece_or_far_end = |l: usize, t: usize, pos: i64| -> Option<i64> {
            let span = cell.span_breadth(r, l).0;
            pieces(span, &sig_occ(&cell, &occ, l, t)).into_iter().find(|(a, z)| pos > *a && (pos < *z || (pos == *z && *z < span))).map(|p| p.0)
        };
        if let (Some(pb), Some(ptp)) = (find_piece_or_far_end(bot, tb, pos_b), find_piece(top, tt, pos_t)) {
            if used.contains(&(bot, tb, pb)) || used.contains(&(top, tt, ptp)) {
                continue;
            }
            used.insert((bot, tb, pb));
            used.insert((top, tt, ptp));
            // a via stack: the same net continued one layer up at the same spot, where the layer above `top` shares `bot`'s track pattern
            let mut stack_up: Option<(usize, i64)> = None;
            if top + 1 < metals && format!("{:?}", r.metals[top + 1]) == format!("{:?}", r.metals[bot]) && rng.chance(2, 3) {
                let up = top + 1;
                let nup = cell.nperiods(r, up) as usize * r.metals[up].nsig();
                if tb < nup {
                    if let Some(pu) = find_piece(up, tb, r.metals[top].center(tt)) {
                        if !used.contains(&(up, tb, pu)) {
                            stack_up = Some((up, pu));
                        }
                    }
                }
            }
            // net names are the caller's strings, carried verbatim: blanks at either end, inner blanks, other scripts
            let net = match (k as i64 + nx) % 6 {
                0 => format!("net{} ", k),
                1 => format!(" net{}", k),
                2 => format!("Net {}<{}>", k, k),
                3 => format!("нетто{}", k),
                _ => format!("net{}", k),
            };
            // either orientation of the TrackCross
            if rng.bool() {
                cell.assigns.push((net.clone(), bot, tb, top, tt));
            } else {
                cell.assigns.push((net.clone(), top, tt, bot, tb));
            }
            if let Some((up, pu)) = stack_up {
                used.insert((up, tb, pu));
                cell.assigns.push((net, top, tt, up, tb));
            }
        }
    }
    cell
}


/// Intervals removed from signal track (l, t) by the cell's cuts and instance blockages
fn track_removed(r: &RStack, cell: &RCell, l: usize, t: usize) -> Vec<(i64, i64)> {
    let n = (t / r.metals[l].nsig()) as i64;
    let mut v = cell.blocks(r, l, n);
    for (cl, ct, xl, xt) in &cell.cuts {
        if *cl == l && *ct == t {
            let ctr = r.metals[*xl].center(*xt);
            v.push((ctr - r.metals[l].cutsize / 2, ctr + r.metals[l].cutsize / 2));
        }
    }
    v
}


/// Does some assignment already put a net on the wire piece of signal track (l, t) that contains `pos`? (or is there no such piece)
fn piece_taken(r: &RStack, cell: &RCell, l: usize, t: usize, pos: i64) -> bool {
    if l >= cell.metals {
        return false;
    }
    let span = cell.span_breadth(r, l).0;
    let piece = match pieces(span, &track_removed(r, cell, l, t)).into_iter().find(|(a, z)| pos >= *a && pos <= *z) {
        Some(p) => p,
        None => return false,
    };
    cell.assigns.iter().any(|(_, l1, t1, l2, t2)| {
        (*l1 == l && *t1 == t && { let p = r.metals[*l2].center(*t2); p >= piece.0 && p <= piece.1 }) || (*l2 == l && *t2 == t && { let p = r.metals[*l1].center(*t1); p >= piece.0 && p <= piece.1 })
    })
}

/// Is `pos` exactly an end point of a cut or blockage on signal track (l, t)? (which piece "covers" such a crossing is a tie the statement does not settle)
fn on_boundary(r: &RStack, cell: &RCell, l: usize, t: usize, pos: i64) -> bool {
    l < cell.metals && track_removed(r, cell, l, t).iter().any(|(a, z)| pos == *a || pos == *z)
}

/// Turn a well-formed cell into an ill-formed one by one injected conflict. Returns the kind, or None if this cell offers no place for it.
pub fn inject_conflict(rng: &mut Rng, b: &BuiltStack, cell: &mut RCell) -> Option<&'static str> {
    let r = &b.r;
    let ntracks = |cell: &RCell, l: usize| cell.nperiods(r, l) as usize * r.metals[l].nsig();
    let adjacent = |rng: &mut Rng, l: usize, lim: usize| -> Option<usize> {
        let mut c = Vec::new();
        if l > 0 {
            c.push(l - 1);
        }
        if l + 1 < lim {
            c.push(l + 1);
        }
        if c.is_empty() { None } else { Some(*rng.pick(&c)) }
    };
    match rng.below(7) {
        0 => {
            if cell.cuts.is_empty() {
                return None;
            }
            let c = *rng.pick(&cell.cuts);
            cell.cuts.push(c);
            Some("duplicate-cut")
        }
        1 => {
            // an assignment whose crossing lies inside a cut of its own track
            let cands: Vec<_> = cell.cuts.iter().filter(|c| c.0 < cell.metals && c.2 < cell.metals).cloned().collect();
            if cands.is_empty() {
                return None;
            }
            let (l, t, cl, c) = *rng.pick(&cands);
            if piece_taken(r, cell, cl, c, r.metals[l].center(t)) || on_boundary(r, cell, cl, c, r.metals[l].center(t)) {
                return None; // would put a second net on the crossing track's piece: a different (out-of-domain) conflict
            }
            cell.assigns.push(("onCut".into(), l, t, cl, c));
            Some("assignment-on-a-cut")
        }
        2 | 3 => {
            // a cut (2) or an assignment (3) at a crossing strictly inside an instance's blockage
            let kind = if rng.bool() { 2 } else { 3 };
            if cell.insts.is_empty() || cell.metals < 2 {
                return None;
            }
            for _ in 0..20 {
                let l = rng.usize(cell.metals);
                let cl = adjacent(rng, l, cell.metals)?;
                let nt = ntracks(cell, l);
                let nc = ntracks(cell, cl);
                if nt == 0 || nc == 0 {
                    continue;
                }
                let (t, c) = (rng.usize(nt), rng.usize(nc));
                let n = (t / r.metals[l].nsig()) as i64;
                let ctr = r.metals[cl].center(c);
                let half = r.metals[l].cutsize / 2 + 1;
                if cell.blocks(r, l, n).iter().any(|(a, z)| ctr - half > *a && ctr + half < *z) {
                    if kind == 2 {
                        cell.cuts.push((l, t, cl, c));
                        return Some("cut-inside-a-blockage");
                    } else {
                        if piece_taken(r, cell, cl, c, r.metals[l].center(t)) || piece_taken(r, cell, l, t, ctr) || on_boundary(r, cell, cl, c, r.metals[l].center(t)) {
                            continue;
                        }
                        cell.assigns.push(("inBlk".into(), l, t, cl, c));
                        return Some("assignment-inside-a-blockage");
                    }
                }
            }
            None
        }
        4 => {
            // a cut on a track index beyond the outline
            let l = rng.usize(cell.metals);
            let cl = adjacent(rng, l, r.metals.len())?;
            let (nt, nc) = (ntracks(cell, l), ntracks(cell, cl));
            if nc == 0 {
                return None;
            }
            cell.cuts.push((l, nt + rng.usize(3), cl, rng.usize(nc)));
            Some("cut-on-track-beyond-outline")
        }
        5 => {
            // a cut whose crossing track lies beyond the outline
            let l = rng.usize(cell.metals);
            let cl = adjacent(rng, l, r.metals.len())?;
            let (nt, nc) = (ntracks(cell, l), ntracks(cell, cl));
            if nt == 0 {
                return None;
            }
            cell.cuts.push((l, rng.usize(nt), cl, nc + 1 + rng.usize(3)));
            Some("cut-at-crossing-beyond-outline")
        }
        _ => {
            // a second, different net on a wire piece that already carries one
            if cell.assigns.is_empty() {
                return None;
            }
            let (_, l1, t1, l2, t2) = rng.pick(&cell.assigns).clone();
            let span = cell.span_breadth(r, l1).0;
            let pos = r.metals[l2].center(t2);
            let piece = pieces(span, &track_removed(r, cell, l1, t1)).into_iter().find(|(a, z)| pos > *a && pos < *z)?;
            let nc = ntracks(cell, l2);
            let others: Vec<usize> = (0..nc).filter(|c| *c != t2 && { let p = r.metals[l2].center(*c); p > piece.0 && p < piece.1 }).collect();
            if others.is_empty() {
                return None;
            }
            let c2 = *rng.pick(&others);
            cell.assigns.push(("secondNet".into(), l1, t1, l2, c2));
            Some("two-nets-on-one-wire-piece")
        }
    }
}

type OutRect = (usize, (i64, i64, i64, i64), Option<String>); // (layer slot: metal i => i, via i => 100+i), rect, net

/// What the compiled cell must contain
fn expected(r: &RStack, cell: &RCell) -> Vec<OutRect> {
    let mut out = Vec::new();
    for l in 0..cell.metals {
        let m = &r.metals[l];
        let (span, _) = cell.span_breadth(r, l);
        let ns = m.nsig();
        for n in 0..cell.nperiods(r, l) {
            let blocks = cell.blocks(r, l, n);
            let mut sig_k = 0usize;
            for (kind, start, width) in m.period(n) {
                let mut removed = blocks.clone();
                let mut nets: Vec<(i64, String)> = Vec::new();
                if kind == Kind::Sig {
                    let t = n as usize * ns + sig_k;
                    sig_k += 1;
                    for (cl, ct, xl, xt) in &cell.cuts {
                        if *cl == l && *ct == t {
                            let ctr = r.metals[*xl].center(*xt);
                            removed.push((ctr - m.cutsize / 2, ctr + m.cutsize / 2));
                        }
                    }
                    for (net, l1, t1, l2, t2) in &cell.assigns {
                        if *l1 == l && *t1 == t {
                            nets.push((r.metals[*l2].center(*t2), net.clone()));
                        }
                        if *l2 == l && *t2 == t {
                            nets.push((r.metals[*l1].center(*t1), net.clone()));
                        }
                    }
                }
                for (a, z) in pieces(span, &removed) {
                    let net = match kind {
                        Kind::Pwr => Some("VDD".to_string()),
                        Kind::Gnd => Some("VSS".to_string()),
                        _ => nets.iter().find(|(p, _)| *p >= a && *p <= z).map(|x| x.1.clone()),
                    };
                    let rect = if m.horiz { (a, start, z, start + width) } else { (start, a, start + width, z) };
                    out.push((l, rect, net));
                }
            }
        }
    }
    for (net, l1, t1, l2, t2) in &cell.assigns {
        let (bot, tb, top, tt) = if l1 < l2 { (*l1, *t1, *l2, *t2) } else { (*l2, *t2, *l1, *t1) };
        let (cb, ct) = (r.metals[bot].center(tb), r.metals[top].center(tt));
        // the bottom track's centre is a coordinate on its periodic axis
        let (x, y) = if r.metals[bot].horiz { (ct, cb) } else { (cb, ct) };
        let (sx, sy) = r.vias[bot];
        out.push((100 + bot, (x - sx / 2, y - sy / 2, x + sx / 2, y + sy / 2), Some(net.clone())));
    }
    out.sort();
    out
}

pub fn build_lib(b: &BuiltStack, cell: &RCell) -> Library {
    let mut lib = Library::new("c08lib");
    // sub-cells: layouts with rectangular outlines, or (one in three, when big enough) abstract-only cells with a two-step "tetris"
    // outline of the same extent - an instance blocks its whole extent either way
    let subs: Vec<Ptr<Cell>> = cell
        .subs
        .iter()
        .enumerate()
        .map(|(i, s)| {
            if (i as i64 + cell.ny) % 3 == 1 && s.1 >= 2 && s.2 >= 2 {
                let o = Outline::from_prim_pitches(vec![PrimPitches::x(s.1 as isize), PrimPitches::x((s.1 / 2) as isize)], vec![PrimPitches::y((s.2 / 2) as isize), PrimPitches::y(s.2 as isize)]).unwrap();
                lib.cells.add(Cell::from(tet::abs::Abstract::new(format!("sub{}", i), s.0, o)))
            } else {
                lib.cells.add(Layout::new(format!("sub{}", i), s.0, Outline::rect(s.1 as isize, s.2 as isize).unwrap()))
            }
        })
        .collect();
    let mut lay = Layout::new("top", cell.metals, Outline::rect(cell.nx as isize, cell.ny as isize).unwrap());
    for (k, i) in cell.insts.iter().enumerate() {
        let loc = (if i.rh { i.bbox.2 } else { i.bbox.0 }, if i.rv { i.bbox.3 } else { i.bbox.1 });
        // every third instance is handed over through the equivalent entry point: a one-element array instance with the same
        // location and reflections (the placer expands it before compilation)
        if (k as i64 + cell.nx) % 3 == 0 {
            use tet::array::{Array, ArrayInstance, Arrayable};
            use tet::placement::{Placeable, Separation};
            let arr = Ptr::new(Array { name: format!("arr{}", k), unit: Arrayable::Instance(subs[i.sub].clone()), count: 1, sep: Separation::new(None, None, None) });
            lay.places.push(Placeable::Array(Ptr::new(ArrayInstance { name: i.name.clone(), array: arr, loc: Place::Abs(Xy::new(PrimPitches::x(loc.0 as isize), PrimPitches::y(loc.1 as isize))), reflect_vert: i.rv, reflect_horiz: i.rh })));
            continue;
        }
        lay.instances.add(Instance { inst_name: i.name.clone(), cell: subs[i.sub].clone(), loc: Place::Abs(Xy::new(PrimPitches::x(loc.0 as isize), PrimPitches::y(loc.1 as isize))), reflect_horiz: i.rh, reflect_vert: i.rv });
    }
    // cuts and assignments through both equivalent entry points: pushed as values, or requested with the convenience methods
    let by_method = (cell.nx + cell.ny + cell.cuts.len() as i64) % 2 == 0;
    for (l, t, cl, c) in &cell.cuts {
        if by_method {
            lay.cut(*l, *t, *c, if *cl == *l + 1 { RelZ::Above } else { RelZ::Below });
        } else {
            lay.cuts.push(TrackCross::new(TrackRef::new(*l, *t), TrackRef::new(*cl, *c)));
        }
    }
    for (k, (net, l1, t1, l2, t2)) in cell.assigns.iter().enumerate() {
        let relz = if *l2 == *l1 + 1 { RelZ::Above } else { RelZ::Below };
        match (by_method, k % 2) {
            (true, 0) => lay.assign(net.clone(), *l1, *t1, *t2, relz),
            (true, _) => {
                lay.net(net.clone()).at(*l1, *t1, *t2, relz);
            }
            _ => lay.assignments.push(Assign::new(net.clone(), TrackCross::new(TrackRef::new(*l1, *t1), TrackRef::new(*l2, *t2)))),
        }
    }
    let _ = b;
    lib.cells.add(lay);
    lib
}

impl Prop for C08 {
    fn id(&self) -> &'static str {
        "C08"
    }
    fn rule(&self) -> String {
        "Layer stacks: 2-5 metals alternating direction, primitive pitches from {24,40,60,100}, layer pitch 1-4 primitive pitches, 2-8 track entries (gap/signal/power/ground) of even widths incl. Repeat patterns, offsets (incl. half-rail negative offsets), overlaps (incl. rails shared by adjacent periods), flipping on/off, symmetric and asymmetric patterns, even cut and via sizes. \
         Cells: rectangular outlines whose sides are multiples of every layer pitch, 1..all metals, 0-8 (one cell in six: up to ~50, possibly all in one period of one layer) cuts at in-range crossings kept 1 unit clear of each other and of blockages, 0-8 assignments each on its own wire piece on both layers (TrackCross given in either orientation), 0-3 instances of lower-metal sub-cells (layouts with rectangular outlines, or abstract-only cells with a two-step outline of the same extent) on the pitch grid or off it, in all four reflections, abutting or apart, possibly all with the same instance name; net names carried verbatim (blank-edged, non-ASCII). \
         Oracle (refs in props/c08.rs): the multiset of (layer, rectangle, net) of the compiled top cell, zero-area rectangles dropped, must equal: for every layer, period and track the maximal pieces of [0, span] minus cut intervals (centred on the flip-aware centre of the crossing track) minus instance extents along the track, at the track's flip-aware position and width; rails named VDD/VSS; the piece containing an assignment's crossing carries its net, no other signal piece carries a net; one via of the stack's size centred on each crossing. \
         Generator ill-formed adds ONE conflict to a well-formed cell. In the statement's domain (in-range crossings): a duplicated cut, an assignment on a cut, an assignment inside an instance blockage -> an error is fine, an accepted cell must still match the oracle exactly (one via per assignment; a net only on pieces that cover the crossing); a cut strictly inside a blockage -> only an error is allowed (nothing can tile without overlap). \
         Outside the domain (cut on a track or at a crossing beyond the outline, two different nets on one wire piece): outcome counted, not judged. \
         distinct_nontrivial = distinct (stack, cell) pairs with at least one cut, assignment or instance."
            .into()
    }
    fn assumptions(&self) -> Vec<String> {
        vec![
            "even cut/via/track sizes (odd sizes make 'centred' ambiguous); rectangular outlines (others are documented unsupported)".into(),
            "track indices count spatially ascending in every period; flipped (odd) periods mirror the entry order, so the reference positions are flip-aware".into(),
            "an Err from the compiler satisfies the statement; counted per message, and the run is inconclusive if fewer than 70% of well-formed cells compile".into(),
        ]
    }
    fn miri_gen(&self) -> Option<&'static str> {
        Some("with-instances")
    }
    fn plan(&self, tier: Tier) -> Vec<GenSpec> {
        vec![
            GenSpec::random("plain", tier.pick(40_000, 400_000)),
            GenSpec::random("with-instances", tier.pick(30_000, 300_000)),
            // a well-formed cell plus one injected conflict (see rule): error paths of the compiler
            GenSpec::random("ill-formed", tier.pick(30_000, 300_000)),
        ]
    }
    fn run_case(&self, cx: &mut Cx) {
        let b = gen_stack(&mut cx.rng);
        let ill = cx.gen == "ill-formed";
        let with_insts = cx.gen == "with-instances" || (ill && cx.rng.bool());
        let mut cell = gen_cell(&mut cx.rng, &b, with_insts);
        let ill_kind = if ill {
            match inject_conflict(&mut cx.rng, &b, &mut cell) {
                Some(k) => Some(k),
                None => {
                    cx.count("ill_formed.no_place_for_conflict");
                    return;
                }
            }
        } else {
            None
        };
        let cell = cell;
        cx.eval();
        if !cell.cuts.is_empty() || !cell.assigns.is_empty() || !cell.insts.is_empty() {
            cx.nontrivial(crate::rt::prng::strhash(&format!("{:?}{:?}", b.r, cell)));
        }
        let want = expected(&b.r, &cell);
        let lib = build_lib(&b, &cell);
        let stack = match b.stack.clone().validate() {
            Ok(s) => s,
            Err(e) => {
                cx.inconclusive(format!("generated stack does not validate: {:?}", e));
                return;
            }
        };
        let involved_flip_asym = |ls: &[usize]| ls.iter().any(|l| b.r.metals[*l].flip && b.r.metals[*l].asymmetric());
        let any_flip_asym = (0..b.r.metals.len()).any(|l| b.r.metals[l].flip && b.r.metals[l].asymmetric());
        let refl_along_track = cell.insts.iter().any(|i| i.rh || i.rv);
        let describe = || json!({"stack": format!("{:?}", b.r), "cell": format!("{:?}", cell)});
        let out = match guard(|| RawExporter::convert(lib, stack)) {
            Err(c) => {
                if matches!(ill_kind, Some("cut-on-track-beyond-outline") | Some("cut-at-crossing-beyond-outline") | Some("two-nets-on-one-wire-piece")) {
                    cx.count(&format!("ill_formed.out_of_domain_panicked.{}", ill_kind.unwrap()));
                    return;
                }
                cx.violation(&format!("panic|{}|{}", c.site(), c.norm_msg()), json!({"panic": c.msg, "at": format!("{}:{}", c.file, c.line), "injected": ill_kind, "case": describe()}));
                return;
            }
            Ok(Err(_)) if ill_kind.is_some() => {
                cx.count(&format!("ill_formed.rejected.{}", ill_kind.unwrap()));
                return;
            }
            Ok(Ok(_)) if ill_kind == Some("cut-inside-a-blockage") => {
                // in the statement's domain (an in-range crossing), and no output can tile "without overlap": only an error is allowed
                cx.violation("conflict-accepted|cut-inside-a-blockage", json!({"injected": ill_kind, "case": describe()}));
                return;
            }
            Ok(Ok(_)) if matches!(ill_kind, Some("cut-on-track-beyond-outline") | Some("cut-at-crossing-beyond-outline") | Some("two-nets-on-one-wire-piece")) => {
                // outside the statement's domain (out-of-range crossing / differing nets not separated by a cut): observed, not judged
                cx.count(&format!("ill_formed.out_of_domain_accepted.{}", ill_kind.unwrap()));
                return;
            }
            Ok(Err(e)) => {
                let es = format!("{:?}", e);
                let class: String = es.split(|c: char| c == '{' || c == '\n' || c == ':').next().unwrap_or("").chars().filter(|c| !c.is_ascii_digit()).take(40).collect();
                cx.count(&format!("compile_err.{}", class.trim()));
                // the innermost message (digits dropped) tells the kinds of rejection apart
                let inner: String = es.rsplit("message: \"").next().unwrap_or("").chars().filter(|c| !c.is_ascii_digit()).take(60).collect();
                cx.count(&format!("compile_err_msg.{}", inner.trim()));
                // an error satisfies the statement; it is counted, and too many of them make the run inconclusive (non-vacuity)
                cx.count("compile_err_total");
                let _ = (any_flip_asym, refl_along_track);
                return;
            }
            Ok(Ok(l)) => l,
        };
        match ill_kind {
            Some(k) => cx.count(&format!("ill_formed.compiled_and_compared.{}", k)),
            None => cx.count("compiled"),
        }
        let rawlib = out.read().unwrap();
        let top = match rawlib.cells.iter().find(|c| c.read().unwrap().name == "top") {
            Some(c) => c.clone(),
            None => {
                cx.violation("top-cell-missing", describe());
                return;
            }
        };
        let top = top.read().unwrap();
        let lay = match &top.layout {
            Some(l) => l,
            None => {
                cx.violation("top-cell-without-layout", describe());
                return;
            }
        };
        let mut got: Vec<OutRect> = Vec::new();
        let mut zero_area = 0;
        for e in &lay.elems {
            let slot = if let Some(i) = b.metal_keys.iter().position(|k| *k == e.layer) {
                i
            } else if let Some(i) = b.via_keys.iter().position(|k| *k == e.layer) {
                100 + i
            } else {
                cx.violation("shape-on-unknown-layer", describe());
                return;
            };
            match &e.inner {
                raw::Shape::Rect(rc) => {
                    let rect = (rc.p0.x.min(rc.p1.x) as i64, rc.p0.y.min(rc.p1.y) as i64, rc.p0.x.max(rc.p1.x) as i64, rc.p0.y.max(rc.p1.y) as i64);
                    if rect.0 == rect.2 || rect.1 == rect.3 {
                        zero_area += 1;
                        continue;
                    }
                    got.push((slot, rect, e.net.clone()));
                }
                other => {
                    cx.violation("non-rectangle-emitted", json!({"shape": format!("{:?}", other)}));
                    return;
                }
            }
        }
        cx.count_n("zero_area_rects_dropped", zero_area);
        got.sort();
        cx.count_n("rectangles_compared", want.len() as u64);
        if got != want {
            // classify the first discrepancy
            let missing = want.iter().find(|x| !got.contains(x));
            let extra = got.iter().find(|x| !want.contains(x));
            let slot = missing.or(extra).map(|x| x.0).unwrap_or(0);
            let what = if slot >= 100 {
                "via"
            } else if let (Some(m), Some(e)) = (missing, extra) {
                if m.1 == e.1 { "net" } else { "wire-geometry" }
            } else {
                "wire-geometry"
            };
            // which ingredient is involved?
            let layer = slot % 100;
            let neighbours = [layer.saturating_sub(1), layer, (layer + 1).min(b.r.metals.len() - 1)];
            let cause = if involved_flip_asym(&neighbours) {
                "flipped-asymmetric-layer"
            } else if !cell.insts.is_empty() && refl_along_track {
                "reflected-instance"
            } else if !cell.insts.is_empty() {
                "instance"
            } else {
                "plain"
            };
            cx.violation(&format!("{}|{}", what, cause), json!({"missing": format!("{:?}", missing), "extra": format!("{:?}", extra), "want": want.len(), "got": got.len(), "case": describe()}));
            return;
        }
        cx.count("cells_exact");
        cx.sample(|| json!({"metals": b.r.metals.len(), "cell": format!("{:?}", cell).chars().take(500).collect::<String>(), "rectangles": want.len()}));
    }
    fn finish(&self, total: &mut Rec, _tier: Tier) {
        let ok = total.counters.get("compiled").copied().unwrap_or(0);
        let err = total.counters.get("compile_err_total").copied().unwrap_or(0);
        if ok + err > 0 && (ok as f64) < 0.7 * (ok + err) as f64 {
            total.inconclusive.push(format!("non-vacuity: only {} of {} well-formed cells compiled", ok, ok + err));
        }
    }
}
