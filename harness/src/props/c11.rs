//! C11 — the LEF reader never crashes or hangs on any input text.

use super::c04::REPO_LEF_DIRS;
use crate::gen::lefgen::*;
use crate::rt::*;
use layout21utils::verif;
use lef21::LefLibrary;
use serde_json::json;

pub struct C11;

const KEYWORDS: &[&str] = &[
    "LIBRARY", "VERSION", "FOREIGN", "ORIGIN", "SOURCE", "NAMESCASESENSITIVE", "NOWIREEXTENSIONATPIN", "MACRO", "END", "PIN", "PORT", "OBS", "LAYER", "DIRECTION", "USE", "SHAPE", "PATH", "POLYGON", "RECT", "VIA",
    "WIDTH", "CLASS", "SYMMETRY", "ROWPATTERN", "SITE", "SIZE", "DO", "ITERATE", "STEP", "BY", "BUSBITCHARS", "DIVIDERCHAR", "BEGINEXT", "ENDEXT", "TRISTATE", "INPUT", "OUTPUT", "INOUT", "FEEDTHRU", "EXCEPTPGNET",
    "DESIGNRULEWIDTH", "SPACING", "BUMP", "EEQ", "FIXEDMASK", "MASK", "USEMINSPACING", "TAPERRULE", "NETEXPR", "SUPPLYSENSITIVITY", "GROUNDSENSITIVITY", "MUSTJOIN", "PROPERTY", "MANUFACTURINGGRID", "CLEARANCEMEASURE",
    "DENSITY", "UNITS", "TIME", "NANOSECONDS", "CAPACITANCE", "PICOFARADS", "RESISTANCE", "OHMS", "POWER", "MILLIWATTS", "CURRENT", "MILLIAMPS", "VOLTAGE", "VOLTS", "DATABASE", "MICRONS", "FREQUENCY", "MEGAHERTZ",
    "ANTENNAMODEL", "ANTENNADIFFAREA", "ANTENNAGATEAREA", "ANTENNAPARTIALMETALAREA", "ANTENNAMAXCUTCAR", "DEFAULT", "VIARULE", "CUTSIZE", "LAYERS", "CUTSPACING", "ENCLOSURE", "ROWCOL", "OFFSET", "PATTERN",
    "PROPERTYDEFINITIONS", "STRING", "REAL", "RANGE", "INTEGER", "MAXVIASTACK", "GENERATE", "NONDEFAULTRULE", "CORE", "PAD", "ON", "OFF", "X", "R90", "N", "FS",
];
const NONASCII: &[&str] = &[
    "é", "ß", "Ω", "中", "語", "😀", "\u{00A0}", "\u{2003}", "\u{FEFF}", "\u{2028}", "д", "\u{0301}",
    // numerals outside ASCII (decimal digits of other scripts, fractions, superscripts, circled and Roman numerals)
    "５", "٣", "९", "½", "²", "①", "Ⅷ",
    // characters whose upper/lower-case form has another length (case-insensitive keyword matching), title case, ligatures
    "ŉ", "ﬁ", "İ", "ǅ", "ı",
    // more white-space and format characters: vertical tab, form feed, NEL, ideographic space, zero-width joiner, right-to-left mark
    "\u{0B}", "\u{0C}", "\u{85}", "\u{3000}", "\u{200D}", "\u{200F}",
];

/// Token spans (byte ranges) of a LEF text by the language's lexical rules: whitespace-separated, `#` comments to end of line, "..." literals
fn token_spans(text: &str) -> (Vec<(usize, usize)>, Vec<(usize, usize)>) {
    let b = text.as_bytes();
    let mut toks = Vec::new();
    let mut comments = Vec::new();
    let mut i = 0;
    while i < b.len() {
        let c = b[i];
        if c.is_ascii_whitespace() {
            i += 1;
        } else if c == b'#' {
            let s = i;
            while i < b.len() && b[i] != b'\n' {
                i += 1;
            }
            comments.push((s, i));
        } else if c == b'"' {
            let s = i;
            i += 1;
            while i < b.len() && b[i] != b'"' {
                i += 1;
            }
            i = (i + 1).min(b.len());
            toks.push((s, i));
        } else {
            let s = i;
            while i < b.len() && !b[i].is_ascii_whitespace() {
                i += 1;
            }
            toks.push((s, i));
        }
    }
    (toks, comments)
}

impl C11 {
    fn probe(&self, cx: &mut Cx, text: &[u8], class: &str) -> Option<bool> {
        cx.eval();
        let path = cx.tmp("c11.lef");
        std::fs::write(&path, text).expect("tmpfs write");
        let nchars = match std::str::from_utf8(text) {
            Ok(s) => s.chars().count() as u64,
            Err(_) => text.len() as u64,
        };
        // upper bound on tokens: one per two bytes
        let ntok_bound = text.len() as u64 / 2 + 2;
        verif::reset();
        verif::set_budget(verif::LEF_CHAR, nchars + 2);
        verif::set_budget(verif::LEF_STEP, 40 * ntok_bound + 200);
        verif::set_budget(verif::LEF_STATE, 201 * (ntok_bound + 2));
        let r = guard(|| LefLibrary::open(&path));
        let ctr = verif::counters();
        verif::reset();
        let _ = std::fs::remove_file(&path);
        cx.count_n("hook.lef_chars", ctr[verif::LEF_CHAR]);
        cx.count_n("hook.lef_parser_steps", ctr[verif::LEF_STEP]);
        cx.count_n("hook.lef_error_report_chars", ctr[verif::LEF_STATE]);
        if !text.is_empty() {
            cx.max("max.parser_steps_per_100_bytes", ctr[verif::LEF_STEP] * 100 / text.len() as u64);
        }
        match r {
            Err(c) if c.is_budget() => {
                cx.violation(&format!("{}|step-budget-exceeded", class), json!({"counters": {"chars": ctr[verif::LEF_CHAR], "steps": ctr[verif::LEF_STEP], "state": ctr[verif::LEF_STATE]}, "len": text.len(), "text": String::from_utf8_lossy(text).chars().take(1500).collect::<String>()}));
                None
            }
            Err(c) => {
                let in_report = c.file.contains("read.rs") && c.msg.contains("char boundary");
                cx.violation(
                    &format!("{}|panic|{}|{}", class, c.site(), if in_report { "slice not on a char boundary".to_string() } else { c.norm_msg() }),
                    json!({"panic": c.msg, "at": format!("{}:{}", c.file, c.line), "text": String::from_utf8_lossy(text).chars().take(1500).collect::<String>()}),
                );
                None
            }
            Ok(Err(e)) => {
                cx.count("rejected");
                // the error itself must be usable: rendering it for a person ({} and {:?}) is part of "building the error report"
                match guard(|| (format!("{}", e), format!("{:?}", e), e.to_string())) {
                    Err(c) => cx.violation(&format!("{}|error-rendering-panic|{}|{}", class, c.site(), if c.msg.contains("char boundary") { "slice not on a char boundary".to_string() } else { c.norm_msg() }), json!({"panic": c.msg, "at": format!("{}:{}", c.file, c.line), "text": String::from_utf8_lossy(text).chars().take(1500).collect::<String>()})),
                    Ok((d, g, t)) => {
                        // a report that quotes the source cut in the middle of a character does not crash when the cut is made on bytes and
                        // decoded leniently: it shows as U+FFFD in a report about a text that has none
                        let src_has = std::str::from_utf8(text).map(|s| s.contains('\u{FFFD}')).unwrap_or(true);
                        if !src_has && (d.contains('\u{FFFD}') || g.contains('\u{FFFD}') || t.contains('\u{FFFD}')) {
                            cx.violation(&format!("{}|error-report-cut-inside-a-character", class), json!({"report": d.chars().take(400).collect::<String>(), "text": String::from_utf8_lossy(text).chars().take(1500).collect::<String>()}));
                        } else {
                            cx.count("errors_rendered");
                        }
                    }
                }
                Some(false)
            }
            Ok(Ok(lib)) => {
                cx.count("accepted");
                // whatever is returned can be written and read again without a crash
                let again = guard(|| match lib.to_string() {
                    Ok(t) => {
                        let p2 = cx.tmp("c11b.lef");
                        std::fs::write(&p2, &t).unwrap();
                        let r = LefLibrary::open(&p2).is_ok();
                        let _ = std::fs::remove_file(&p2);
                        (true, r)
                    }
                    Err(_) => (false, false),
                });
                match again {
                    Err(c) => cx.violation(&format!("{}|rewrite-panic|{}|{}", class, c.site(), c.norm_msg()), json!({"panic": c.msg, "text": String::from_utf8_lossy(text).chars().take(1500).collect::<String>()})),
                    Ok((w, r)) => cx.count(if w && r { "rewrite_reread_ok" } else if w { "rewrite_ok_reread_err" } else { "rewrite_err" }),
                }
                Some(true)
            }
        }
    }
    fn seed_text(&self, cx: &mut Cx, nonascii: bool) -> String {
        let cfg = LefCfg { max_macros: 2, max_pins: 2, ..Default::default() };
        let g = rand_lef(&mut cx.rng, &cfg);
        let mut style = Style::random(&mut cx.rng);
        style.nonascii_comments = nonascii;
        if nonascii {
            style.comments = true;
        }
        render(&g, &cfg, &mut cx.rng, style).0
    }
    fn token_faults(&self, cx: &mut Cx, text: &str) {
        let (toks, _) = token_spans(text);
        let splice = |a: usize, b: usize, repl: &str| -> Vec<u8> {
            let mut v = text.as_bytes()[..a].to_vec();
            v.extend_from_slice(repl.as_bytes());
            v.extend_from_slice(&text.as_bytes()[b..]);
            v
        };
        for (i, &(a, b)) in toks.iter().enumerate() {
            let tok = &text[a..b];
            self.probe(cx, &splice(a, b, ""), "token-fault");
            cx.count("fault.delete");
            self.probe(cx, &splice(a, b, &format!("{} {}", tok, tok)), "token-fault");
            cx.count("fault.duplicate");
            if i + 1 < toks.len() {
                let (c, d) = toks[i + 1];
                let mut v = text.as_bytes()[..a].to_vec();
                v.extend_from_slice(text[c..d].as_bytes());
                v.extend_from_slice(text[b..c].as_bytes());
                v.extend_from_slice(tok.as_bytes());
                v.extend_from_slice(&text.as_bytes()[d..]);
                self.probe(cx, &v, "token-fault");
                cx.count("fault.swap");
            }
            for j in 0..6 {
                let k = KEYWORDS[(i * 7 + j * 13 + cx.n as usize) % KEYWORDS.len()];
                self.probe(cx, &splice(a, b, k), "token-fault");
                cx.count("fault.keyword");
            }
            for k in ["END", "MACRO", "LAYER", "PROPERTY", "BEGINEXT", "PIN"] {
                self.probe(cx, &splice(a, b, k), "token-fault");
                cx.count("fault.keyword");
            }
            for r in ["17", "-0.5", "1e9", "-", ".", "1.2.3", "99999999999999999999999999999999999", ";", "\"unterminated", "\"\"", "#",
                // numbers at the edges of what a 96-bit decimal / machine integers can hold
                "79228162514264337593543950335", "-79228162514264337593543950335", "10000000000000000000000000000", "7922816251426433759354395034", "0.0000000000000000000000000001",
                "9223372036854775807", "4294967296", "2147483648", "-2147483649", "5.99999999999999999999999999",
                // legal values written with many fractional zeros (mantissa beyond 2^32 / 2^64)
                "20000.000000", "1000.0000000000", "100.00000000000000000000", "5.8000000000000000000000", "-0.000000000000000000000000000"] {
                self.probe(cx, &splice(a, b, r), "token-fault");
                cx.count("fault.literal");
            }
            // a number replaced by its wrap-around twins: the same value plus or minus 2^32 / 2^64 (a check done on a narrowed copy of a
            // number accepts them where it accepts the number itself), with and without a fractional tail of zeros
            let whole: &str = if tok.contains('.') { tok.trim_end_matches('0').trim_end_matches('.') } else { tok };
            if let Ok(v) = whole.parse::<i128>() {
                for twin in [v + (1i128 << 32), v - (1i128 << 32), v + (2i128 << 32), v + (1i128 << 64), v - (1i128 << 64)] {
                    self.probe(cx, &splice(a, b, &twin.to_string()), "token-fault");
                    self.probe(cx, &splice(a, b, &format!("{}.000", twin)), "token-fault");
                    cx.count("fault.wraparound-twin");
                }
            }
        }
    }
    fn nonascii_faults(&self, cx: &mut Cx, text: &str) {
        let (toks, comments) = token_spans(text);
        let ins = |at: usize, s: &str| -> Vec<u8> {
            let mut v = text.as_bytes()[..at].to_vec();
            v.extend_from_slice(s.as_bytes());
            v.extend_from_slice(&text.as_bytes()[at..]);
            v
        };
        // into names / numbers / string literals: start, middle, end of a sample of tokens
        for _ in 0..40.min(toks.len() * 3) {
            let (a, b) = *cx.rng.pick(&toks);
            let at = match cx.rng.below(3) {
                0 => a,
                1 => a + (b - a) / 2,
                _ => b,
            };
            if !text.is_char_boundary(at) {
                continue;
            }
            let s = *cx.rng.pick(NONASCII);
            let class = if text[a..b].starts_with('"') { "nonascii-in-string" } else { "nonascii-in-token" };
            self.probe(cx, &ins(at, s), class);
            cx.count(&format!("fault.{}", class));
        }
        // into comments
        for &(a, b) in comments.iter().take(10) {
            let at = a + 1 + cx.rng.usize((b - a).max(1));
            let at = at.min(b);
            if text.is_char_boundary(at) {
                let s = *cx.rng.pick(NONASCII);
                self.probe(cx, &ins(at, s), "nonascii-in-comment");
                cx.count("fault.nonascii-in-comment");
            }
        }
        // at line starts, and a leading BOM / comment
        let mut starts = vec![0usize];
        starts.extend(text.match_indices('\n').map(|(i, _)| i + 1));
        for _ in 0..10 {
            let at = *cx.rng.pick(&starts);
            let s = *cx.rng.pick(NONASCII);
            self.probe(cx, &ins(at, s), "nonascii-at-line-start");
            self.probe(cx, &ins(at, &format!("# {} commentaire\n", s)), "nonascii-comment-line");
            cx.count_n("fault.nonascii-line", 2);
        }
        // a word that BEGINS with such a character as the last thing in the input (optionally one blank or one more multi-byte character after it)
        for _ in 0..if toks.is_empty() { 0 } else { 12 } {
            let (a, _) = *cx.rng.pick(&toks);
            let s = *cx.rng.pick(NONASCII);
            let tail = *cx.rng.pick(&["", " ", "é", "x", "9", "\n"]);
            let mut v = text.as_bytes()[..a].to_vec();
            v.extend_from_slice(s.as_bytes());
            v.extend_from_slice(tail.as_bytes());
            self.probe(cx, &v, "nonascii-word-at-end");
            cx.count("fault.nonascii-word-at-end");
        }
        // CRLF everywhere
        self.probe(cx, text.replace('\n', "\r\n").as_bytes(), "crlf");
    }
}

impl Prop for C11 {
    fn id(&self) -> &'static str {
        "C11"
    }
    fn level(&self) -> &'static str {
        "fault_enumeration"
    }
    fn rule(&self) -> String {
        "Seeds: LEF texts from the independent renderer (random lexical style, with and without non-ASCII comments) and the repository's .lef files. Per seed: EVERY prefix at a character boundary plus mid-character cuts (invalid UTF-8 must surface as an I/O error); for EVERY token: deleted, duplicated, swapped with its neighbour, \
         replaced by 12 keywords (6 rotating through the full keyword list + END/MACRO/LAYER/PROPERTY/BEGINEXT/PIN), by numbers (17, -0.5, 1e9, '-', '.', '1.2.3', a 35-digit number), by ';', by an unterminated string, by an empty string, by '#'; insertion of 2/3/4-byte characters, combining marks, BOM, non-ASCII numerals (other scripts' digits, fractions, superscripts, Roman), characters whose case mapping changes length, and non-ASCII whitespace/format characters (U+000B/000C/0085/00A0/2003/2028/3000/200D/200F), also as the first character of the last word of the input, \
         into names, numbers, string literals, comments and at line starts; CRLF conversion; whole libraries on one >200-byte line threaded with multi-byte characters and then truncated / faulted (error reports over long non-ASCII lines); numeric literals at the limits of 96-bit decimals and machine integers; random noise. Monitors on each LefLibrary::open: panic capture; logical step budgets via hooks (characters consumed <= chars+2, parser steps <= 40*tokens+200, error-report scan <= 201 chars per report); every Ok(lib) must survive to_string -> open without a crash. \
         distinct_nontrivial = distinct seed texts."
            .into()
    }
    fn assumptions(&self) -> Vec<String> {
        vec![
            "'time proportional to input length' is decided as bounded progress on hook-counted steps (next_char, next_token/peek_token, state()); wall-clock is a watchdog only".into(),
            "the only public entry point is a file: inputs go through a tmpfs file; invalid UTF-8 is rejected by read_to_string before the lexer".into(),
        ]
    }
    fn plan(&self, tier: Tier) -> Vec<GenSpec> {
        vec![
            GenSpec::random("prefixes", tier.pick(200, 3_000)),
            GenSpec::random("token-faults", tier.pick(150, 2_500)),
            GenSpec::random("nonascii", tier.pick(1_500, 30_000)),
            GenSpec::random("long-lines", tier.pick(1_000, 40_000)),
            GenSpec::enumerated("repo-files", 1),
            GenSpec::random("noise", tier.pick(100, 10_000)),
            GenSpec::enumerated("scaling", tier.pick(6, 9)),
            // interpreter-sized cases for the Miri leg (tools/legs.sh); not part of the native plan
            GenSpec::random("giant-tokens", tier.pick(10, 200)),
            GenSpec::random("miri-sample", 0),
            // instruction-count leg (tools/irleg.sh, valgrind --tool=cachegrind): one read of a library of 32 * 2^(n/2) macros;
            // odd n: the same text with an error at the very end (the error report is part of the cost). Not part of the native plan.
            GenSpec::enumerated("ir-scale", 0),
        ]
    }
    fn run_case(&self, cx: &mut Cx) {
        // seeds here are enumerated prefix by prefix and token by token: keep them short (long lines have their own generator)
        crate::gen::lefgen::set_long_statements(false);
        match cx.gen.as_str() {
            "prefixes" => {
                let na = cx.n % 2 == 0;
                let text = self.seed_text(cx, na);
                cx.nontrivial(crate::rt::prng::strhash(&text));
                let b = text.as_bytes();
                let mut boundary = 0;
                let mut mid = 0;
                for cut in 0..=b.len() {
                    if text.is_char_boundary(cut) {
                        self.probe(cx, &b[..cut], "prefix");
                        boundary += 1;
                    } else {
                        // mid-character cut: invalid UTF-8 file
                        let r = self.probe(cx, &b[..cut], "prefix-mid-character");
                        if r == Some(true) {
                            cx.violation("prefix-mid-character|invalid-utf8-accepted", json!({"cut": cut}));
                        }
                        mid += 1;
                    }
                }
                cx.count_n("prefixes_at_char_boundary", boundary);
                cx.count_n("prefixes_mid_character", mid);
                cx.sample(|| json!({"seed_text": text.chars().take(500).collect::<String>(), "prefixes": b.len() + 1}));
            }
            "token-faults" => {
                let na = cx.n % 3 == 0;
                let text = self.seed_text(cx, na);
                cx.nontrivial(crate::rt::prng::strhash(&text));
                self.token_faults(cx, &text);
                cx.sample(|| json!({"seed_text": text.chars().take(500).collect::<String>(), "tokens": token_spans(&text).0.len()}));
            }
            "nonascii" => {
                let text = self.seed_text(cx, cx.n % 2 == 0);
                cx.nontrivial(crate::rt::prng::strhash(&text));
                self.nonascii_faults(cx, &text);
                cx.sample(|| json!({"seed_text": text.chars().take(300).collect::<String>()}));
            }
            "giant-tokens" => {
                // ONE token of more than 64 KiB (a name made of multi-byte letters, a word where a keyword is expected, a string literal that
                // never ends), and numbers with more fractional digits than the decimal type holds: lengths and scales that a narrower
                // integer cannot say
                let ch = *cx.rng.pick(&["語", "é", "😀", "x", "क"]);
                let n = 66_000 / ch.len() + cx.rng.usize(40_000);
                let word: String = std::iter::repeat(ch).take(n).collect();
                let zeros: String = std::iter::repeat('0').take(29 + cx.rng.usize(14)).collect();
                let texts = [
                    format!("VERSION 5.8 ;\nMACRO {w}\n  SIZE 1 BY 1 ;\nEND {w}\nEND LIBRARY\n", w = word),
                    format!("VERSION 5.8 ;\n{} ;\nEND LIBRARY\n", word),
                    format!("VERSION 5.8 ;\nMACRO m\n  PROPERTY p \"{}\" ;\nEND m\nEND LIBRARY\n", word),
                    format!("VERSION 5.8 ;\nMACRO m\n  PROPERTY p \"{}\n", word),
                    format!("VERSION 5.8 ;\nMACRO m\n  SIZE 0.{z} BY 1 ;\nEND m\nEND LIBRARY\n", z = zeros),
                    format!("VERSION 5.8 ;\nMACRO m\n  SIZE 0.{z}1 BY -0.{z} ;\nEND m\nEND LIBRARY\n", z = zeros),
                    format!("VERSION 5.8 ;\nMANUFACTURINGGRID 0.{z}5 ;\nEND LIBRARY\n", z = &zeros[..28]),
                ];
                for t in texts.iter() {
                    cx.nontrivial(crate::rt::prng::strhash(t));
                    self.probe(cx, t.as_bytes(), "giant-token");
                }
                cx.count("giant_token_texts");
                cx.sample(|| json!({"token_bytes": word.len(), "fraction_digits": zeros.len()}));
            }
            "long-lines" => {
                // LEF is whitespace-insensitive: put a whole library on ONE long line, thread runs of multi-byte characters through its names,
                // then provoke errors (so that the error reporter must quote a >200-byte line full of non-ASCII text)
                let cfg = LefCfg { max_macros: 2, max_pins: 2, ..Default::default() };
                let g = rand_lef(&mut cx.rng, &cfg);
                let (plain, _) = render(&g, &cfg, &mut cx.rng, Style::plain());
                let (toks, _) = token_spans(&plain);
                let mut line = String::new();
                let mut bounds: Vec<usize> = Vec::new();
                for (a, b) in &toks {
                    let t = &plain[*a..*b];
                    bounds.push(line.len());
                    line.push_str(t);
                    let is_name = t.chars().next().map_or(false, |c| c.is_ascii_alphabetic()) && !KEYWORDS.contains(&t.to_ascii_uppercase().as_str());
                    if is_name && cx.rng.chance(1, 2) {
                        for _ in 0..1 + cx.rng.usize(12) {
                            line.push_str(*cx.rng.pick(&["é", "ß", "中", "語", "😀", "д", "Ω"]));
                        }
                    }
                    line.push(' ');
                }
                cx.nontrivial(crate::rt::prng::strhash(&line));
                cx.max("max.long_line_bytes", line.len() as u64);
                // the names at END <name> no longer match: already an error case; plus truncations and token faults
                self.probe(cx, line.as_bytes(), "long-line");
                for _ in 0..12 {
                    let cut = *cx.rng.pick(&bounds);
                    self.probe(cx, line[..cut].as_bytes(), "long-line");
                    let at = *cx.rng.pick(&bounds);
                    let mut v = line[..at].to_string();
                    v.push_str(*cx.rng.pick(&["; ", "END ", "\"x ", "17 ", "MACRO ", "é "]));
                    v.push_str(&line[at..]);
                    self.probe(cx, v.as_bytes(), "long-line");
                }
                // same, with a comment at the very start of the long line
                let mut c = String::from("# ");
                for _ in 0..cx.rng.usize(120) {
                    c.push_str(*cx.rng.pick(&["é", "x", "中", " ", "😀"]));
                }
                let with_comment = format!("{}\n{}", c, line);
                self.probe(cx, with_comment.as_bytes(), "long-line");
                let long_comment_then_error = format!("VERSION 5.8 ; {} MACRO ;", c);
                self.probe(cx, long_comment_then_error.as_bytes(), "long-line");
                cx.sample(|| json!({"one_line_library_bytes": line.len(), "head": line.chars().take(200).collect::<String>()}));
            }
            "repo-files" => {
                for d in REPO_LEF_DIRS {
                    if let Ok(rd) = std::fs::read_dir(d) {
                        for e in rd.flatten() {
                            let p = e.path();
                            if p.extension().map_or(false, |x| x == "lef") {
                                if let Ok(text) = std::fs::read_to_string(&p) {
                                    if text.len() > 20_000 {
                                        continue;
                                    }
                                    cx.nontrivial(crate::rt::prng::strhash(&text));
                                    cx.count("repo_seed_files");
                                    let step = (text.len() / 400).max(1);
                                    for cut in (0..=text.len()).step_by(step) {
                                        if text.is_char_boundary(cut) {
                                            self.probe(cx, &text.as_bytes()[..cut], "prefix");
                                        }
                                    }
                                    if text.len() < 4000 {
                                        self.token_faults(cx, &text);
                                    }
                                    self.nonascii_faults(cx, &text);
                                }
                            }
                        }
                    }
                }
                cx.sample(|| json!({"repo_lef_dirs": REPO_LEF_DIRS}));
            }
            "noise" => {
                for _ in 0..50 {
                    let n = cx.rng.usize(200);
                    let mut s = String::new();
                    for _ in 0..n {
                        match cx.rng.below(10) {
                            0 => s.push_str(*cx.rng.pick(KEYWORDS)),
                            1 => s.push_str(*cx.rng.pick(NONASCII)),
                            2 => s.push(' '),
                            3 => s.push('\n'),
                            4 => s.push(';'),
                            5 => s.push('"'),
                            6 => s.push_str(&format!("{} ", cx.rng.range(-99, 99))),
                            _ => s.push((32 + cx.rng.below(95)) as u8 as char),
                        }
                    }
                    cx.nontrivial(crate::rt::prng::strhash(&s));
                    self.probe(cx, s.as_bytes(), "noise");
                }
                cx.sample(|| json!({"noise_inputs": 50}));
            }
            "miri-sample" => {
                let cfg = LefCfg { max_macros: 1, max_pins: 1, ..Default::default() };
                let g = rand_lef(&mut cx.rng, &cfg);
                let mut style = Style::random(&mut cx.rng);
                style.comments = true;
                style.nonascii_comments = true;
                let text = render(&g, &cfg, &mut cx.rng, style).0;
                self.probe(cx, text.as_bytes(), "miri");
                let mut cut = cx.rng.usize(text.len());
                while !text.is_char_boundary(cut) {
                    cut -= 1;
                }
                self.probe(cx, &text.as_bytes()[..cut], "miri");
                let (toks, _) = token_spans(&text);
                if !toks.is_empty() {
                    let (a, b) = *cx.rng.pick(&toks);
                    let mut v = text.as_bytes()[..a].to_vec();
                    v.extend_from_slice("é\"".as_bytes());
                    v.extend_from_slice(&text.as_bytes()[b..]);
                    self.probe(cx, &v, "miri");
                }
                cx.nontrivial(crate::rt::prng::strhash(&text));
            }
            "ir-scale" => {
                // n = 100 * shape + 2 * size index + path; shapes: 0 many macros, 1 one BEGINEXT block of many words, 2 one macro with many pins,
                // 3 many PROPERTYDEFINITIONS entries, 4 one very long comment line followed by an error, 5 many ports followed by a long extension block
                let (shape, k) = (cx.n / 100, cx.n % 100);
                if shape > 0 {
                    let n = 400usize << (k / 2);
                    let mut text = String::from("VERSION 5.8 ;\n");
                    match shape {
                        1 => {
                            text.push_str("BEGINEXT \"tag\"\n");
                            for i in 0..n {
                                text.push_str(&format!("word{} ", i % 977));
                                if i % 16 == 15 {
                                    text.push('\n');
                                }
                            }
                            text.push_str("\nENDEXT\n");
                        }
                        2 => {
                            text.push_str("MACRO wide\n  SIZE 1 BY 1 ;\n");
                            for i in 0..n {
                                text.push_str(&format!("  PIN p{}\n    DIRECTION INPUT ;\n  END p{}\n", i, i));
                            }
                            text.push_str("END wide\n");
                        }
                        3 => {
                            text.push_str("PROPERTYDEFINITIONS\n");
                            for i in 0..n {
                                text.push_str(&format!("  MACRO prop{} INTEGER ;\n", i));
                            }
                            text.push_str("END PROPERTYDEFINITIONS\n");
                        }
                        5 => {
                            // two things that are each linear, one after the other: a macro with many ports, then an extension block of as
                            // many words (work per word that depends on what was read before - a context stack that was never popped,
                            // a growing table that is scanned - shows as their product)
                            text.push_str("MACRO ported\n  SIZE 1 BY 1 ;\n");
                            for i in 0..n {
                                text.push_str(&format!("  PIN p{}\n    DIRECTION INPUT ;\n    PORT\n      LAYER m1 ;\n      RECT 0 0 1 1 ;\n    END\n  END p{}\n", i, i));
                            }
                            text.push_str("END ported\nBEGINEXT \"tag\"\n");
                            for i in 0..n {
                                text.push_str(&format!("word{} ", i % 977));
                                if i % 16 == 15 {
                                    text.push('\n');
                                }
                            }
                            text.push_str("\nENDEXT\n");
                        }
                        _ => {
                            text.push_str("# ");
                            for i in 0..n * 8 {
                                text.push(if i % 7 == 0 { 'é' } else { 'c' });
                            }
                            text.push('\n');
                        }
                    }
                    text.push_str(if k % 2 == 1 || shape == 4 { "MACRO x PIN ;\n" } else { "END LIBRARY\n" });
                    let path = cx.tmp("ir.lef");
                    std::fs::write(&path, &text).expect("tmpfs write");
                    cx.eval();
                    let r = guard(|| LefLibrary::open(&path));
                    let _ = std::fs::remove_file(&path);
                    cx.count(match r { Ok(Ok(_)) => "ir_scale_accepted", Ok(Err(_)) => "ir_scale_rejected", Err(_) => "ir_scale_panicked" });
                    cx.max("max.ir_scale_bytes", text.len() as u64);
                    return;
                }
                let nm = 32usize << (k / 2);
                let mut rng = Rng::new(0x1A5C); // the same macro at every size, independent of the seed
                let cfg = LefCfg { max_macros: 1, max_pins: 2, ..Default::default() };
                let mut g = rand_lef(&mut rng, &cfg);
                let m = rand_macro(&mut rng, &cfg, false);
                g.lib.macros = (0..nm).map(|i| { let mut mm = m.clone(); mm.name = format!("M{}", i); mm }).collect();
                g.lib.version = None;
                g.lib.names_case_sensitive = None;
                g.lib.no_wire_extension_at_pin = None;
                for mm in g.lib.macros.iter_mut() { mm.source = None; }
                let (mut text, _) = render(&g, &cfg, &mut rng, Style::plain());
                if k % 2 == 1 {
                    text.push_str(" MACRO x PIN ;");
                }
                let path = cx.tmp("ir.lef");
                std::fs::write(&path, &text).expect("tmpfs write");
                cx.eval();
                let r = guard(|| LefLibrary::open(&path));
                let _ = std::fs::remove_file(&path);
                cx.count(match r { Ok(Ok(_)) => "ir_scale_accepted", Ok(Err(_)) => "ir_scale_rejected", Err(_) => "ir_scale_panicked" });
                cx.max("max.ir_scale_bytes", text.len() as u64);
            }
            "scaling" => {
                // 2^k macros: the step counts per byte must stay within the same budget
                let k = 2 + cx.n;
                let cfg = LefCfg { max_macros: 1, max_pins: 2, ..Default::default() };
                let mut g = rand_lef(&mut cx.rng, &cfg);
                let m = rand_macro(&mut cx.rng, &cfg, false);
                g.lib.macros = (0..(1usize << k)).map(|i| { let mut mm = m.clone(); mm.name = format!("M{}", i); mm }).collect();
                g.lib.version = None;
                g.lib.names_case_sensitive = None;
                g.lib.no_wire_extension_at_pin = None;
                for mm in g.lib.macros.iter_mut() { mm.source = None; }
                let (text, _) = render(&g, &cfg, &mut cx.rng, Style::plain());
                cx.nontrivial(crate::rt::prng::strhash(&text));
                let r = self.probe(cx, text.as_bytes(), "scaling");
                if r != Some(true) {
                    cx.count("scaling_seed_not_accepted");
                }
                // error at the very end: the report must still be cheap
                let mut t2 = text.clone();
                t2.push_str(" MACRO x PIN ;");
                self.probe(cx, t2.as_bytes(), "scaling");
                cx.max("max.scaling_bytes", text.len() as u64);
                cx.sample(|| json!({"macros": 1usize << k, "bytes": text.len()}));
            }
            other => cx.inconclusive(format!("unknown generator {}", other)),
        }
    }
    fn finish(&self, total: &mut Rec, _tier: Tier) {
        if total.counters.get("hook.lef_chars").copied().unwrap_or(0) == 0 {
            total.inconclusive.push("step-counter hook never fired".into());
        }
        if total.counters.get("accepted").copied().unwrap_or(0) == 0 {
            total.inconclusive.push("no input was accepted".into());
        }
    }
}
