//! C16 — importing LEF into the raw model keeps every coordinate in place.

use crate::rt::*;
use layout21raw as raw;
use lef21::*;
use raw::lef::LefImporter;
use serde_json::json;
use std::collections::BTreeMap;

pub struct C16;

/// A LEF number worth `v` raw units (angstroms, 1e-4 micron), spelled with a random admissible number of decimals
fn dec_of(rng: &mut Rng, v: i64) -> LefDecimal {
    // v / 10^4, reduced
    let mut m = v;
    let mut scale = 4u32;
    while scale > 0 && m % 10 == 0 {
        m /= 10;
        scale -= 1;
    }
    // pad with trailing zeros: usually up to 6 decimals; one number in twelve up to 22 (what `%.16f` or a decimal type with a fixed scale
    // prints: 1234.5000000000000000) - the value is the same, the mantissa has 19 digits and more
    let extra = if rng.chance(1, 12) { 7 + rng.below(16) as u32 } else { rng.below((6 - scale) as u64 + 1) as u32 };
    // (the decimal type holds 96-bit mantissas, about 7.9e28, and at most 28 decimals)
    let digits = (m.unsigned_abs().max(1) as f64).log10().floor() as u32 + 1;
    let extra = extra.min(26 - scale).min(27u32.saturating_sub(digits));
    LefDecimal::from_i128_with_scale(m as i128 * 10i128.pow(extra), scale + extra)
}
fn coord(rng: &mut Rng) -> i64 {
    match rng.below(6) {
        0 => rng.range(-50, 50),
        1 => rng.range(-50, 50) * 10_000,
        2 => rng.range(-5_000, 5_000) * 100,
        3 => 0,
        // up to +-30 cm: ten and more digits when written with six decimals (4294.967296 um is 2^32 millionths)
        4 => rng.range(-3_000_000_000, 3_000_000_000),
        _ => rng.range(-9_999_999, 9_999_999),
    }
}
#[derive(Clone, Debug, PartialEq)]
enum XShape {
    Rect((i64, i64), (i64, i64)),
    Poly(Vec<(i64, i64)>),
    Path(Vec<(i64, i64)>, i64),
}
fn xy(rng: &mut Rng) -> (i64, i64) {
    // x and y are always different, so that a swap or duplication is visible
    loop {
        let p = (coord(rng), coord(rng));
        if p.0 != p.1 {
            return p;
        }
    }
}
fn lp(rng: &mut Rng, p: (i64, i64)) -> LefPoint {
    LefPoint::new(dec_of(rng, p.0), dec_of(rng, p.1))
}

struct Built {
    lef: LefLibrary,
    /// per macro: (name, size, pins: [(name, layer -> shapes)], obs: layer -> shapes)
    want: Vec<(String, (i64, i64), Vec<(String, BTreeMap<String, Vec<XShape>>)>, BTreeMap<String, Vec<XShape>>)>,
}

fn layer_geoms(rng: &mut Rng, lname: &str, acc: &mut BTreeMap<String, Vec<XShape>>) -> LefLayerGeometries {
    let n = 1 + rng.usize(4);
    let width = rng.range(1, 4000);
    let mut geoms = Vec::new();
    let mut has_path = false;
    for _ in 0..n {
        let (g, x) = match rng.below(3) {
            0 => {
                let (a, b) = (xy(rng), xy(rng));
                (LefShape::Rect(None, lp(rng, a), lp(rng, b)), XShape::Rect(a, b))
            }
            1 => {
                let mut pts: Vec<(i64, i64)> = (0..3 + rng.usize(5)).map(|_| xy(rng)).collect();
                coincide(rng, &mut pts);
                (LefShape::Polygon(None, pts.iter().map(|p| lp(rng, *p)).collect()), XShape::Poly(pts))
            }
            _ => {
                has_path = true;
                let mut pts: Vec<(i64, i64)> = (0..2 + rng.usize(4)).map(|_| xy(rng)).collect();
                coincide(rng, &mut pts);
                (LefShape::Path(None, pts.iter().map(|p| lp(rng, *p)).collect()), XShape::Path(pts, width))
            }
        };
        geoms.push(LefGeometry::Shape(g.clone()));
        acc.entry(lname.to_string()).or_default().push(x.clone());
        // the same shape written twice in a row (typical of generated / flattened abstracts): both must arrive
        if rng.chance(1, 5) {
            geoms.push(LefGeometry::Shape(g));
            acc.entry(lname.to_string()).or_default().push(x);
        }
    }
    LefLayerGeometries {
        layer_name: lname.to_string(),
        geometries: geoms,
        vias: vec![],
        except_pg_net: None,
        spacing: if rng.chance(1, 6) { Some(LefLayerSpacing::Spacing(LefDecimal::ZERO)) } else { None },
        width: if has_path || rng.chance(1, 4) { Some(dec_of(rng, width)) } else { None },
    }
}

/// Point lists as real abstracts have them: Manhattan (consecutive vertices share a coordinate), a doubled vertex, an explicitly closed ring, x == y
fn coincide(rng: &mut Rng, pts: &mut Vec<(i64, i64)>) {
    match rng.below(6) {
        0 => {
            for k in 1..pts.len() {
                if k % 2 == 1 {
                    pts[k].1 = pts[k - 1].1;
                } else {
                    pts[k].0 = pts[k - 1].0;
                }
            }
        }
        1 => {
            let k = rng.usize(pts.len());
            let c = pts[k];
            pts.insert(k, c);
        }
        2 => {
            let c = pts[0];
            pts.push(c);
        }
        3 => {
            let k = rng.usize(pts.len());
            pts[k].1 = pts[k].0;
        }
        _ => {}
    }
}

fn build(rng: &mut Rng) -> Built {
    let nlayers = 1 + rng.usize(6);
    let mut layers: Vec<String> = (0..nlayers).map(|i| format!("{}{}", rng.pick(&["met", "via", "li", "poly", "M"]), i + 1)).collect();
    // one library in three: few layers, one of whose names is the beginning of another's (via / via2, met1 / met10, li / li1), so that the
    // statements alternate between them
    if rng.chance(1, 3) {
        let (a, b) = *rng.pick(&[("via", "via2"), ("met1", "met10"), ("li", "li1"), ("m", "m1"), ("poly", "polycont"), ("metal_layer_number_1", "metal_layer_number_10")]);
        layers = vec![a.to_string(), b.to_string()];
        if rng.chance(1, 3) {
            layers.push(format!("{}x", b));
        }
    }
    let mut lef = LefLibrary::new();
    if rng.bool() {
        lef.units = Some(LefUnits { database_microns: Some(LefDbuPerMicron(*rng.pick(&[100u32, 200, 400, 800, 1000, 2000, 4000, 8000, 10_000, 20_000]))), ..Default::default() });
    }
    let mut want = Vec::new();
    for mi in 0..1 + rng.usize(3) {
        let name = format!("mac{}_{}", mi, rng.below(1000));
        let size = (rng.range(1, 500) * 100, rng.range(501, 999) * 100);
        let mut m = LefMacro::new(name.clone());
        m.size = Some((dec_of(rng, size.0), dec_of(rng, size.1)));
        let mut pins = Vec::new();
        for pi in 0..rng.usize(4) {
            let pname = format!("p{}", pi);
            let mut acc = BTreeMap::new();
            let nports = 1 + rng.usize(3);
            let mut ports = Vec::new();
            for _ in 0..nports {
                let nl = if rng.chance(1, 4) { 3 + rng.usize(4) } else { 1 + rng.usize(2) };
                let ls: Vec<LefLayerGeometries> = (0..nl).map(|_| { let l = rng.pick(&layers).clone(); layer_geoms(rng, &l, &mut acc) }).collect();
                ports.push(LefPort { class: None, layers: ls });
            }
            m.pins.push(LefPin { name: pname.clone(), ports, ..Default::default() });
            pins.push((pname, acc));
        }
        let mut obs = BTreeMap::new();
        for _ in 0..rng.usize(3) {
            let l = rng.pick(&layers).clone();
            m.obs.push(layer_geoms(rng, &l, &mut obs));
        }
        lef.macros.push(m);
        want.push((name, size, pins, obs));
    }
    Built { lef, want }
}

fn xshape_of(s: &raw::Shape) -> XShape {
    let p = |q: &raw::Point| (q.x as i64, q.y as i64);
    match s {
        raw::Shape::Rect(r) => XShape::Rect(p(&r.p0), p(&r.p1)),
        raw::Shape::Polygon(g) => XShape::Poly(g.points.iter().map(p).collect()),
        raw::Shape::Path(g) => XShape::Path(g.points.iter().map(p).collect(), g.width as i64),
    }
}
fn scale_x(x: &XShape, s: i64) -> XShape {
    // expected values are generated in angstroms (1e4 per micron); rescale to the unit the importer reports
    let f = |p: &(i64, i64)| (p.0 * s / 10_000, p.1 * s / 10_000);
    match x {
        XShape::Rect(a, b) => XShape::Rect(f(a), f(b)),
        XShape::Poly(v) => XShape::Poly(v.iter().map(f).collect()),
        XShape::Path(v, w) => XShape::Path(v.iter().map(f).collect(), w * s / 10_000),
    }
}
fn first_coord_class(w: &XShape, g: &XShape) -> &'static str {
    // how does the first wrong point differ?
    let pts = |x: &XShape| -> Vec<(i64, i64)> {
        match x {
            XShape::Rect(a, b) => vec![*a, *b],
            XShape::Poly(v) => v.clone(),
            XShape::Path(v, _) => v.clone(),
        }
    };
    if std::mem::discriminant(w) != std::mem::discriminant(g) {
        return "shape-kind";
    }
    let (pw, pg) = (pts(w), pts(g));
    if pw.len() != pg.len() {
        return "point-count";
    }
    for (a, b) in pw.iter().zip(pg.iter()) {
        if a != b {
            if b.0 == a.0 && b.1 == a.0 {
                return "y-is-x";
            }
            if b.0 == a.1 && b.1 == a.0 {
                return "x-y-swapped";
            }
            if a.0 != 0 && b.0 % a.0 == 0 && b.0 / a.0 != 1 {
                return "scaled-by-decimal-digits";
            }
            return "coordinate";
        }
    }
    if let (XShape::Path(_, a), XShape::Path(_, b)) = (w, g) {
        if a != b {
            return if *a != 0 && b % a == 0 { "path-width-scaled-by-decimal-digits" } else { "path-width" };
        }
    }
    "other"
}

impl Prop for C16 {
    fn id(&self) -> &'static str {
        "C16"
    }
    fn rule(&self) -> String {
        "LefLibrary values built directly (import takes the struct): 1-3 macros with SIZE, 0-3 pins with 1-3 ports, obstructions, rectangles/polygons/paths (with layer WIDTH) on 1-6 layer names; every coordinate is chosen as an integer number of raw units with x != y and spelled as a LefDecimal with a random admissible number of decimals \
         (0..6, incl. trailing zeros, negatives). Oracle: one abstract cell per macro, outline (0,0)-(size*s), per pin and per layer name the imported shapes equal the LEF geometries of that layer in order with every coordinate = value*s (s from the returned lib.units), layer resolved by name. \
         Every third import goes into a caller-supplied layer set (half already populated by an earlier import) and is read through the caller's handle. Separate generator: one coordinate with a non-zero fraction of a raw unit (a fifth/sixth decimal, or 1e-13..1e-18 of representation noise) => import must be Err. distinct_nontrivial = distinct LEF libraries (hash) having at least one shape."
            .into()
    }
    fn assumptions(&self) -> Vec<String> {
        vec!["features the importer documents as unsupported (EXCEPTPGNET, non-zero SPACING, ITERATE, vias) are outside the claim".into(),
             "multiple ports of a pin are merged per layer (documented); shape order within a layer is the LEF order".into()]
    }
    fn miri_gen(&self) -> Option<&'static str> {
        Some("import")
    }
    fn plan(&self, tier: Tier) -> Vec<GenSpec> {
        vec![GenSpec::random("import", tier.pick(20_000, 2_000_000)), GenSpec::random("fractional", tier.pick(5_000, 400_000))]
    }
    fn run_case(&self, cx: &mut Cx) {
        match cx.gen.as_str() {
            "import" => {
                let b = build(&mut cx.rng);
                cx.eval();
                let nshapes: usize = b.want.iter().map(|m| m.2.iter().map(|p| p.1.values().map(|v| v.len()).sum::<usize>()).sum::<usize>() + m.3.values().map(|v| v.len()).sum::<usize>()).sum();
                if nshapes > 0 {
                    cx.nontrivial(crate::rt::prng::strhash(&format!("{:?}", b.lef)));
                }
                cx.count_n("lef_shapes_generated", nshapes as u64);
                // every third import goes into a layer set supplied by the caller (half of them already populated by an earlier import of another
                // LEF library, the normal way of bringing several files into one technology); the layer names are then read through the
                // caller's own handle
                let supplied: Option<raw::utils::Ptr<raw::Layers>> = if cx.rng.chance(1, 3) {
                    let shared = raw::utils::Ptr::new(raw::Layers::default());
                    if cx.rng.bool() {
                        // what went into the set before: another library; this library with its layer names in the other letter case (MET1 next
                        // to met1: two layers, not one); or this library with a pin appended that is off the grid, so that the earlier
                        // import FAILED after it had met every layer name
                        let mut earlier = match cx.rng.below(3) {
                            0 => build(&mut cx.rng).lef,
                            _ => b.lef.clone(),
                        };
                        let swap = |n: &str| -> String { n.chars().map(|c| if c.is_ascii_lowercase() { c.to_ascii_uppercase() } else { c.to_ascii_lowercase() }).collect() };
                        match cx.rng.below(2) {
                            0 => {
                                for m in earlier.macros.iter_mut() {
                                    for g in m.obs.iter_mut() {
                                        g.layer_name = swap(&g.layer_name);
                                    }
                                    for pin in m.pins.iter_mut() {
                                        for port in pin.ports.iter_mut() {
                                            for g in port.layers.iter_mut() {
                                                g.layer_name = swap(&g.layer_name);
                                            }
                                        }
                                    }
                                }
                                cx.count("earlier_import_with_layer_names_in_the_other_case");
                            }
                            _ => {
                                if let Some(m) = earlier.macros.last_mut() {
                                    m.pins.push(LefPin {
                                        name: "offgrid".into(),
                                        ports: vec![LefPort { class: None, layers: vec![LefLayerGeometries { layer_name: "met1".into(), geometries: vec![LefGeometry::Shape(LefShape::Rect(None, LefPoint::new(LefDecimal::new(1, 0), LefDecimal::new(123456, 6)), LefPoint::new(LefDecimal::new(3, 0), LefDecimal::new(4, 0))))], ..Default::default() }] }],
                                        ..Default::default()
                                    });
                                }
                                cx.count("earlier_import_that_failed");
                            }
                        }
                        let _ = guard(|| LefImporter::import(&earlier, Some(shared.clone())));
                        cx.count("imports_into_an_already_populated_layer_set");
                    } else {
                        cx.count("imports_into_a_supplied_empty_layer_set");
                    }
                    Some(shared)
                } else {
                    None
                };
                // one case in six takes the LEF library the way users have it - as a file: written by lef21's writer, read by lef21's reader.
                // (a library the writer or reader refuses is C05's / C04's business and counted here; the in-memory value is imported then)
                let via_text: Option<LefLibrary> = if cx.n % 6 == 1 {
                    let path = cx.tmp("c16.lef");
                    let r = guard(|| b.lef.save(&path).ok().and_then(|_| LefLibrary::open(&path).ok()));
                    let _ = std::fs::remove_file(&path);
                    match r {
                        Ok(Some(l)) => {
                            cx.count("imports_of_a_library_read_from_a_file");
                            Some(l)
                        }
                        _ => {
                            cx.count("file_route_refused_by_writer_or_reader_(C04/C05)");
                            None
                        }
                    }
                } else {
                    None
                };
                let source: &LefLibrary = via_text.as_ref().unwrap_or(&b.lef);
                let lib = match guard(|| LefImporter::import(source, supplied.clone())) {
                    Err(c) => {
                        cx.violation(&format!("panic|{}|{}", c.site(), c.norm_msg()), json!({"panic": c.msg, "lef": format!("{:?}", b.lef).chars().take(1500).collect::<String>()}));
                        return;
                    }
                    Ok(Err(e)) => {
                        cx.violation("in-domain-library-rejected", json!({"error": format!("{:?}", e).chars().take(400).collect::<String>(), "lef": format!("{:?}", b.lef).chars().take(1500).collect::<String>()}));
                        return;
                    }
                    Ok(Ok(l)) => l,
                };
                let s: i64 = match lib.units {
                    raw::Units::Micro => 1,
                    raw::Units::Nano => 1_000,
                    raw::Units::Angstrom => 10_000,
                    raw::Units::Pico => 1_000_000,
                };
                if s < 10_000 {
                    // units coarser than the grid the values were drawn on: the coordinates below are judged against value x units-per-micron
                    // all the same (a value that is not a whole number of such units should have been refused, and will not compare equal)
                    cx.count("imports_with_units_coarser_than_a_tenth_of_a_nanometre");
                }
                let detail = |what: &str| json!({"what": what, "lef": format!("{:?}", b.lef).chars().take(2500).collect::<String>()});
                if lib.cells.len() != b.want.len() {
                    cx.violation("cell-count", detail(&format!("{} cells for {} macros", lib.cells.len(), b.want.len())));
                    return;
                }
                let layers_ptr = supplied.clone().unwrap_or_else(|| lib.layers.clone());
                let layers = layers_ptr.read().unwrap();
                for (cell, (name, size, pins, obs)) in lib.cells.iter().zip(b.want.iter()) {
                    let cell = cell.read().unwrap();
                    let abs = match &cell.abs {
                        Some(a) => a,
                        None => {
                            cx.violation("no-abstract", detail(name));
                            return;
                        }
                    };
                    if cell.name != *name || abs.name != *name {
                        cx.violation("cell-name", detail(name));
                        return;
                    }
                    let (sx, sy) = (size.0 * s / 10_000, size.1 * s / 10_000);
                    let outline: Vec<(i64, i64)> = abs.outline.points.iter().map(|p| (p.x as i64, p.y as i64)).collect();
                    if outline != vec![(0, 0), (sx, 0), (sx, sy), (0, sy)] {
                        let class = if outline.len() == 4 && outline[2] == (sx, sx) { "outline|y-is-x" } else if outline.len() == 4 && outline[2].0 != 0 && sx != 0 && outline[2].0 % sx == 0 { "outline|scaled-by-decimal-digits" } else { "outline" };
                        cx.violation(class, json!({"want": [(0, 0), (sx, 0), (sx, sy), (0, sy)], "got": outline, "macro": name, "size": format!("{:?}", b.lef.macros.iter().find(|m| m.name == *name).unwrap().size)}));
                        return;
                    }
                    if abs.ports.len() != pins.len() {
                        cx.violation("pin-count", detail(name));
                        return;
                    }
                    let by_name = |m: &std::collections::HashMap<raw::LayerKey, Vec<raw::Shape>>| -> Option<BTreeMap<String, Vec<XShape>>> {
                        let mut out = BTreeMap::new();
                        for (k, v) in m {
                            let n = layers.get_name(*k)?.clone();
                            out.insert(n, v.iter().map(xshape_of).collect());
                        }
                        Some(out)
                    };
                    let mut cmp = |cx: &mut Cx, what: &str, want: &BTreeMap<String, Vec<XShape>>, got: Option<BTreeMap<String, Vec<XShape>>>| -> bool {
                        let got = match got {
                            Some(g) => g,
                            None => {
                                cx.violation(&format!("{}|shape-on-unnamed-layer", what), detail(name));
                                return false;
                            }
                        };
                        let want: BTreeMap<String, Vec<XShape>> = want.iter().map(|(k, v)| (k.clone(), v.iter().map(|x| scale_x(x, s)).collect())).collect();
                        if want.keys().collect::<Vec<_>>() != got.keys().collect::<Vec<_>>() {
                            cx.violation(&format!("{}|layer-names", what), json!({"want": want.keys().collect::<Vec<_>>(), "got": got.keys().collect::<Vec<_>>()}));
                            return false;
                        }
                        for (k, w) in &want {
                            let g = &got[k];
                            if w.len() != g.len() {
                                cx.violation(&format!("{}|shape-count", what), json!({"layer": k, "want": w.len(), "got": g.len()}));
                                return false;
                            }
                            for (a, b2) in w.iter().zip(g.iter()) {
                                if a != b2 {
                                    cx.violation(&format!("{}|{}", what, first_coord_class(a, b2)), json!({"layer": k, "want": format!("{:?}", a), "got": format!("{:?}", b2)}));
                                    return false;
                                }
                            }
                        }
                        true
                    };
                    for (port, (pname, pshapes)) in abs.ports.iter().zip(pins.iter()) {
                        if port.net != *pname {
                            cx.violation("pin-name", detail(pname));
                            return;
                        }
                        if !cmp(cx, "pin", pshapes, by_name(&port.shapes)) {
                            return;
                        }
                    }
                    if !cmp(cx, "obs", obs, by_name(&abs.blockages)) {
                        return;
                    }
                }
                cx.count("imports_exact");
                cx.sample(|| json!({"lef": format!("{:?}", b.lef).chars().take(700).collect::<String>(), "units": format!("{:?}", lib.units)}));
            }
            "fractional" => {
                // one coordinate is not a whole number of raw units: must be reported as an error, not rounded
                let mut b = build(&mut cx.rng);
                cx.eval();
                // off the grid by a lot (a fifth or sixth decimal), or by next to nothing (the representation noise of a value that went
                // through binary floating point: 0.28500000000000003, 2.99999999999999): either way it is not a whole number of units
                let near_grid = cx.rng.chance(1, 3);
                let bad = if near_grid {
                    let d = 13 + cx.rng.below(6) as u32; // 13..18 decimals
                    let v = cx.rng.range(1, 9000); // raw units
                    let r = cx.rng.range(1, 9);
                    let m = v * 10i64.pow(d - 4);
                    LefDecimal::new(if cx.rng.bool() { m + r } else { m - r }, d)
                } else {
                    LefDecimal::new(cx.rng.range(1, 9) + 10 * cx.rng.range(-99_999, 99_999), if cx.rng.bool() { 5 } else { 6 })
                };
                let m = cx.rng.usize(b.lef.macros.len());
                let where_ = match cx.rng.below(3) {
                    0 => {
                        b.lef.macros[m].size = Some((bad, LefDecimal::new(7, 0)));
                        "size"
                    }
                    1 if !b.lef.macros[m].obs.is_empty() => {
                        let g = &mut b.lef.macros[m].obs[0];
                        g.geometries[0] = LefGeometry::Shape(LefShape::Rect(None, LefPoint::new(LefDecimal::new(1, 0), bad), LefPoint::new(LefDecimal::new(3, 0), LefDecimal::new(4, 0))));
                        "obs-rect-y"
                    }
                    _ => {
                        b.lef.macros[m].pins.push(LefPin {
                            name: "frac".into(),
                            ports: vec![LefPort { class: None, layers: vec![LefLayerGeometries { layer_name: "met1".into(), geometries: vec![LefGeometry::Shape(LefShape::Polygon(None, vec![LefPoint::new(LefDecimal::new(1, 0), LefDecimal::new(2, 0)), LefPoint::new(bad, LefDecimal::new(5, 0)), LefPoint::new(LefDecimal::new(6, 0), LefDecimal::new(9, 0))]))], ..Default::default() }] }],
                            ..Default::default()
                        });
                        "pin-polygon-x"
                    }
                };
                cx.nontrivial(crate::rt::prng::strhash(&format!("{:?}", b.lef)));
                match guard(|| LefImporter::import(&b.lef, None)) {
                    Err(c) => cx.violation(&format!("fractional|panic|{}", c.norm_msg()), json!({"panic": c.msg, "where": where_, "value": bad.to_string()})),
                    Ok(Ok(lib)) => {
                        // only a violation if the importer's unit really cannot hold the value
                        let fine_enough = matches!(lib.units, raw::Units::Pico) && bad.scale() <= 6;
                        if !fine_enough {
                            cx.violation(&format!("fractional|accepted{}|{}", if near_grid { "-near-grid-value" } else { "" }, where_), json!({"where": where_, "value": bad.to_string(), "units": format!("{:?}", lib.units)}));
                        }
                    }
                    Ok(Err(_)) => cx.count(if near_grid { "fractional_near_grid_rejected" } else { "fractional_rejected" }),
                }
                cx.sample(|| json!({"where": where_, "value": bad.to_string()}));
            }
            other => cx.inconclusive(format!("unknown generator {}", other)),
        }
    }
    fn finish(&self, total: &mut Rec, _tier: Tier) {
        if total.counters.get("imports_exact").copied().unwrap_or(0) == 0 && total.violations.is_empty() {
            total.inconclusive.push("no import was checked to the end".into());
        }
    }
}
