//! C12 — instance transforms compose like the geometric operations they name.

use crate::refs::geom::*;
use crate::rt::*;
use layout21raw::utils::Ptr;
use layout21raw::{Cell, Element, Instance, LayerKey, LayerPurpose, Layout, Path, Point, Polygon, Rect, Shape, Transform};
use serde_json::json;

pub struct C12;

/// The 14 orientation letters: reflect x angle in {None, 0, 90, 180, 270, -90, 360}
const ANGLES: [(Option<f64>, i64); 7] = [(None, 0), (Some(0.0), 0), (Some(90.0), 1), (Some(180.0), 2), (Some(270.0), 3), (Some(-90.0), 3), (Some(360.0), 0)];
const OFFSETS: [P; 9] = [(0, 0), (7, 0), (0, -7), (-3, 5), (1, 1), (-7, -7), (5, -2), (2, 7), (-6, 3)];

/// vertex counts of the `point-counts` generator
const POINT_COUNTS: [usize; 280] = {
    let mut a = [0usize; 280];
    let mut i = 0;
    while i < 260 {
        a[i] = i + 1;
        i += 1;
    }
    let extra = [383, 384, 385, 511, 512, 513, 640, 767, 768, 1023, 1024, 1025, 2047, 2048, 2049, 4095, 4096, 4097, 8191, 8192];
    let mut k = 0;
    while k < 20 {
        a[260 + k] = extra[k];
        k += 1;
    }
    a
};
#[derive(Clone, Copy, Debug)]
struct Letter {
    reflect: bool,
    angle: Option<f64>,
    quarter: i64,
    loc: P,
}
fn letter(i: usize, loc: P) -> Letter {
    let (angle, quarter) = ANGLES[i % 7];
    Letter { reflect: i / 7 == 1, angle, quarter, loc }
}
fn pt(p: P) -> Point {
    Point::new(p.0 as isize, p.1 as isize)
}
fn tp(p: &Point) -> P {
    (p.x as i64, p.y as i64)
}
fn describe(word: &[Letter]) -> serde_json::Value {
    json!(word.iter().map(|l| json!({"loc": l.loc, "reflect": l.reflect, "angle": l.angle})).collect::<Vec<_>>())
}

/// Build a hierarchy: leaf cell with test shapes, each level instantiating the one below with word[i]; word[0] is outermost.
fn build_hierarchy(word: &[Letter], tri: &[P], rect: (P, P), path: &[P]) -> Layout {
    let mk = |s: Shape| Element { net: None, layer: LayerKey::default(), purpose: LayerPurpose::Drawing, inner: s };
    let mut cur = Layout {
        name: "leaf".into(),
        insts: vec![],
        elems: vec![
            mk(Shape::Polygon(Polygon { points: tri.iter().map(|p| pt(*p)).collect() })),
            mk(Shape::Rect(Rect { p0: pt(rect.0), p1: pt(rect.1) })),
            mk(Shape::Path(Path { points: path.iter().map(|p| pt(*p)).collect(), width: 2 })),
        ],
        annotations: vec![],
    };
    for (i, l) in word.iter().enumerate().rev() {
        let cell: Ptr<Cell> = Ptr::new(Cell::from(cur));
        cur = Layout {
            name: format!("level{}", i),
            insts: vec![Instance { inst_name: format!("i{}", i), cell, loc: pt(l.loc), reflect_vert: l.reflect, angle: l.angle }],
            elems: vec![],
            annotations: vec![],
        };
    }
    cur
}

/// A hierarchy with SIBLING placements (the chain hierarchy has one instance per level): top holds [mid @ word[0], leaf @ word[last]];
/// mid holds one leaf per remaining letter. The leaf is a single triangle.
fn build_siblings(word: &[Letter], tri: &[P]) -> Layout {
    let mk = |s: Shape| Element { net: None, layer: LayerKey::default(), purpose: LayerPurpose::Drawing, inner: s };
    let leaf: Ptr<Cell> = Ptr::new(Cell::from(Layout { name: "leaf".into(), insts: vec![], elems: vec![mk(Shape::Polygon(Polygon { points: tri.iter().map(|p| pt(*p)).collect() }))], annotations: vec![] }));
    let inst = |name: String, cell: &Ptr<Cell>, l: &Letter| Instance { inst_name: name, cell: cell.clone(), loc: pt(l.loc), reflect_vert: l.reflect, angle: l.angle };
    let mid = Layout { name: "mid".into(), insts: word[1..].iter().enumerate().map(|(i, l)| inst(format!("m{}", i), &leaf, l)).collect(), elems: vec![], annotations: vec![] };
    let mid: Ptr<Cell> = Ptr::new(Cell::from(mid));
    // ... followed by a mirrored pair about a common origin: the same cell at the same place and angle, with opposite reflection
    let twin = Letter { reflect: !word[0].reflect, ..word[0] };
    Layout { name: "top".into(), insts: vec![inst("a".into(), &mid, &word[0]), inst("b".into(), &leaf, &word[word.len() - 1]), inst("c".into(), &leaf, &word[0]), inst("d".into(), &leaf, &twin)], elems: vec![], annotations: vec![] }
}

impl C12 {
    /// Flattening a hierarchy with sibling instances: every leaf triangle must be the image under ITS OWN path's composition
    fn check_siblings(&self, cx: &mut Cx, word: &[Letter]) {
        if word.len() < 2 {
            return;
        }
        let tri = [(0i64, 0i64), (3, 0), (0, 2)];
        let top = build_siblings(word, &tri);
        let m0 = IMap::instance(word[0].loc, word[0].reflect, word[0].quarter);
        let mut want: Vec<Vec<P>> = word[1..].iter().map(|l| IMap::compose(&m0, &IMap::instance(l.loc, l.reflect, l.quarter))).map(|m| tri.iter().map(|q| m.apply(*q)).collect()).collect();
        let last = &word[word.len() - 1];
        let ml = IMap::instance(last.loc, last.reflect, last.quarter);
        want.push(tri.iter().map(|q| ml.apply(*q)).collect());
        want.push(tri.iter().map(|q| m0.apply(*q)).collect());
        let mt = IMap::instance(word[0].loc, !word[0].reflect, word[0].quarter);
        want.push(tri.iter().map(|q| mt.apply(*q)).collect());
        want.sort();
        cx.eval();
        match guard(|| top.flatten()) {
            Err(c) => cx.violation(&format!("siblings|flatten-panic|{}", c.norm_msg()), json!({"word": describe(word), "panic": c.msg})),
            Ok(Err(e)) => cx.violation("siblings|flatten-error", json!({"word": describe(word), "error": format!("{:?}", e)})),
            Ok(Ok(elems)) => {
                let mut got: Vec<Vec<P>> = elems.iter().filter_map(|e| if let Shape::Polygon(p) = &e.inner { Some(p.points.iter().map(tp).collect()) } else { None }).collect();
                got.sort();
                if got != want {
                    cx.count("sibling_flatten_mismatches");
                    cx.violation("siblings|flatten-shapes", json!({"word": describe(word), "got": got, "exact": want}));
                } else {
                    cx.count("sibling_flatten_agree");
                }
            }
        }
    }
    /// All clauses for one right-angle placement chain (exact arithmetic expected)
    fn check_word(&self, cx: &mut Cx, word: &[Letter], points: &[P]) {
        let class = format!("depth{}", word.len().min(2)); // depth1 | depth2(+)
        let refl_rot = word.iter().any(|l| l.reflect && l.quarter % 2 == 1);
        let tag = if refl_rot { "reflected-and-rotated" } else { "other" };
        // integer reference: outermost first
        let mut imap = IMap::identity();
        for l in word {
            imap = IMap::compose(&imap, &IMap::instance(l.loc, l.reflect, l.quarter));
        }
        // the library's composition
        let composed = guard(|| {
            let mut t = Transform::identity();
            for l in word {
                t = Transform::cascade(&t, &Transform::from_instance(&pt(l.loc), l.reflect, l.angle));
            }
            t
        });
        let t = match composed {
            Ok(t) => t,
            Err(c) => {
                cx.violation(&format!("{}|panic|{}", class, c.norm_msg()), json!({"word": describe(word), "panic": c.msg}));
                return;
            }
        };
        for &p in points {
            cx.eval();
            let want = imap.apply(p);
            let got = tp(&pt(p).transform(&t));
            if got != want {
                cx.count("point_mismatches");
                cx.violation(&format!("{}|composed-map|{}", class, tag), json!({"word": describe(word), "point": p, "got": got, "exact": want}));
                break;
            }
            cx.count("points_agree");
        }
        if word.len() == 1 {
            // identical to composing the library's own elementary transforms: translate . rotate . reflect
            let l = word[0];
            let elem = guard(|| {
                let mut inner = Transform::identity();
                if l.reflect {
                    inner = Transform::reflect_vert();
                }
                if let Some(a) = l.angle {
                    inner = Transform::cascade(&Transform::rotate(a), &inner);
                }
                Transform::cascade(&Transform::translate(l.loc.0 as f64, l.loc.1 as f64), &inner)
            });
            if let Ok(te) = elem {
                for &p in points {
                    cx.eval();
                    let a = tp(&pt(p).transform(&te));
                    let b = tp(&pt(p).transform(&t));
                    let want = imap.apply(p);
                    if a != want {
                        cx.violation(&format!("elementary-composition|{}", tag), json!({"word": describe(word), "point": p, "got": a, "exact": want}));
                        break;
                    }
                    if a != b {
                        cx.violation(&format!("from_instance-vs-elementary|{}", tag), json!({"word": describe(word), "point": p, "from_instance": b, "elementary": a}));
                        break;
                    }
                }
            }
        }
        // flatten the nested hierarchy
        let tri = [(0i64, 0i64), (3, 0), (0, 2)];
        let rect = ((-1i64, -2i64), (2, 1));
        let path = [(0i64, 0i64), (0, 3), (2, 3)];
        let top = build_hierarchy(word, &tri, rect, &path);
        cx.eval();
        match guard(|| top.flatten()) {
            Err(c) => cx.violation(&format!("{}|flatten-panic|{}", class, c.norm_msg()), json!({"word": describe(word), "panic": c.msg})),
            Ok(Err(e)) => cx.violation(&format!("{}|flatten-error", class), json!({"word": describe(word), "error": format!("{:?}", e)})),
            Ok(Ok(elems)) => {
                if elems.len() != 3 {
                    cx.violation(&format!("{}|flatten-count", class), json!({"word": describe(word), "elements": elems.len()}));
                    return;
                }
                for e in &elems {
                    let ok = match &e.inner {
                        Shape::Polygon(p) => {
                            let got: Vec<P> = p.points.iter().map(tp).collect();
                            let want: Vec<P> = tri.iter().map(|q| imap.apply(*q)).collect();
                            // mirror image: orientation sign flips exactly when the composed map has determinant -1
                            let sign_ok = got.len() == 3 && (cross(got[0], got[1], got[2]).signum() == (cross(tri[0], tri[1], tri[2]).signum() * imap.det() as i128));
                            got == want && sign_ok
                        }
                        Shape::Rect(r) => {
                            let (a, b) = (tp(&r.p0), tp(&r.p1));
                            let (wa, wb) = (imap.apply(rect.0), imap.apply(rect.1));
                            (a.0.min(b.0), a.1.min(b.1), a.0.max(b.0), a.1.max(b.1)) == (wa.0.min(wb.0), wa.1.min(wb.1), wa.0.max(wb.0), wa.1.max(wb.1))
                        }
                        Shape::Path(p) => {
                            let got: Vec<P> = p.points.iter().map(tp).collect();
                            let want: Vec<P> = path.iter().map(|q| imap.apply(*q)).collect();
                            got == want && p.width == 2
                        }
                    };
                    if !ok {
                        cx.count("flatten_mismatches");
                        cx.violation(&format!("{}|flatten-shape|{}", class, tag), json!({"word": describe(word), "shape": format!("{:?}", e.inner)}));
                        return;
                    }
                }
                cx.count("flatten_agree");
            }
        }
        self.check_siblings(cx, word);
    }
    fn word_from_index(&self, mut idx: u64, depth: usize, offvar: usize) -> Vec<Letter> {
        let mut w = Vec::new();
        for level in 0..depth {
            let i = (idx % 14) as usize;
            idx /= 14;
            w.push(letter(i, OFFSETS[(offvar + level * 2) % 9]));
        }
        w
    }
}

/// sin/cos of an angle in degrees with exact range reduction (reference for general angles)
fn sincos_deg(a: f64) -> (f64, f64) {
    let mut r = a % 360.0;
    if r < 0.0 {
        r += 360.0;
    }
    let q = (r / 90.0).floor();
    let rem = r - 90.0 * q;
    let (s, c) = if rem == 0.0 { (0.0, 1.0) } else { (rem.to_radians().sin(), rem.to_radians().cos()) };
    match q as i64 % 4 {
        0 => (s, c),
        1 => (c, -s),
        2 => (-s, -c),
        _ => (-c, s),
    }
}

impl Prop for C12 {
    fn id(&self) -> &'static str {
        "C12"
    }
    fn rule(&self) -> String {
        "EXHAUSTIVE over right-angle placement chains: 14 orientation letters (reflect x angle in {None,0,90,180,270,-90,360}) at depth 1..4, i.e. all 14^d words, each with 9 offset assignments (depth 4: 1 in quick, 9 in thorough) from {-7..7}^2, \
         applied to all 49 points of the grid {-3..3}^2: Point::transform(cascade of Transform::from_instance) must equal the composed integer maps (reflect, rotate CCW, translate; refs/geom.rs) exactly; at depth 1 also equal to cascade(translate, cascade(rotate, reflect_vert)); \
         Layout::flatten of the nested hierarchy (triangle, rectangle, path in the leaf) must give the images of the points, with the triangle's orientation sign flipped exactly when the composition has determinant -1. \
         Words of depth >= 2 are also laid out with SIBLING placements (top holds mid@w0 and leaf@w_last, mid holds one leaf per remaining letter) and the flattened triangles compared as a multiset with each path's own composition. \
         SEEDED: the same with offsets/points up to +-2^30, and general angles against a range-reduced sin/cos reference with tolerance 0.5+1e-5, through cascade and through Layout::flatten of the nested hierarchy (vertex k of the flattened polygon/path is the image of vertex k, rounded once; path width unchanged); for every placement Transform::from_instance must equal cascade(translate, cascade(rotate, reflect_vert)) entry for entry. distinct_nontrivial = distinct (word, offsets) chains."
            .into()
    }
    fn assumptions(&self) -> Vec<String> {
        vec!["angle is in degrees counter-clockwise, reflection is about the x-axis and applied first (as documented on raw::Instance and GdsStrans)".into(),
             "general angles: reference is f64 with exact range reduction; judged only to 0.5+1e-5 units".into()]
    }
    fn miri_gen(&self) -> Option<&'static str> {
        Some("general-angles")
    }
    fn plan(&self, tier: Tier) -> Vec<GenSpec> {
        let mut v = vec![
            GenSpec::enumerated("words-depth1", 14 * 9),
            GenSpec::enumerated("words-depth2", 196 * 9),
            GenSpec::enumerated("words-depth3", 2744 * 9),
        ];
        // depth 4: one offset assignment in quick, all nine in thorough
        v.push(GenSpec::enumerated("words-depth4", 38416 * tier.pick(1, 9)));
        // beyond the stated depth bound, thorough only: all 14^5 words with one offset assignment
        v.push(GenSpec::enumerated("words-depth5", 537_824 * tier.pick(0, 1)));
        // polygons and paths of every point count 1..=260 and around 512 .. 4096, placed two levels deep: every vertex must move
        v.push(GenSpec::enumerated("point-counts", POINT_COUNTS.len() as u64));
        v.push(GenSpec::random("large-coordinates", tier.pick(20_000, 1_000_000)));
        v.push(GenSpec::random("general-angles", tier.pick(20_000, 1_000_000)));
        // the same placement arithmetic from several threads of one process at once (each layout is its own; nothing is shared by the caller)
        v.push(GenSpec::random("threads", tier.pick(16, 400)));
        v
    }
    fn run_case(&self, cx: &mut Cx) {
        let grid: Vec<P> = (0..49).map(|i| ((i % 7) as i64 - 3, (i / 7) as i64 - 3)).collect();
        let gen = cx.gen.clone();
        match gen.as_str() {
            g if g.starts_with("words-depth") => {
                let depth: usize = g["words-depth".len()..].parse().unwrap();
                let nvar = if depth == 4 { cx.tier.pick(1, 9) } else if depth == 5 { 1 } else { 9 };
                let word = self.word_from_index(cx.n / nvar, depth, (cx.n % nvar) as usize);
                cx.nontrivial(cx.n * 8 + depth as u64);
                self.check_word(cx, &word, &grid);
                cx.sample(|| describe(&word));
            }
            "point-counts" => {
                let n = POINT_COUNTS[cx.n as usize];
                // a closed zig-zag ring (no two points equal) and an open staircase path
                let ring: Vec<P> = (0..n).map(|i| { let a = i as i64; (1000 + 3 * a, if i % 2 == 0 { 11 + a } else { -7 - 2 * a }) }).collect();
                let stairs: Vec<P> = (0..n.max(2)).map(|i| { let a = i as i64; (-50 + (a + 1) / 2 * 5, 40 + a / 2 * 5) }).collect();
                for k in 0..4u64 {
                    let word: Vec<Letter> = (0..2).map(|j| letter(((cx.n * 7 + k * 5 + j * 3 + 1) % 14) as usize, OFFSETS[((cx.n + k + 4 * j) % 9) as usize])).collect();
                    let word: Vec<Letter> = word.iter().map(|l| Letter { loc: (l.loc.0 * 1657 + 3, l.loc.1 * 811 - 2), ..*l }).collect();
                    let mut imap = IMap::identity();
                    for l in &word {
                        imap = IMap::compose(&imap, &IMap::instance(l.loc, l.reflect, l.quarter));
                    }
                    let mk = |s: Shape| Element { net: None, layer: LayerKey::default(), purpose: LayerPurpose::Drawing, inner: s };
                    let mut cur = Layout { name: "leaf".into(), insts: vec![], elems: vec![mk(Shape::Polygon(Polygon { points: ring.iter().map(|p| pt(*p)).collect() })), mk(Shape::Path(Path { points: stairs.iter().map(|p| pt(*p)).collect(), width: 4 }))], annotations: vec![] };
                    for (i, l) in word.iter().enumerate().rev() {
                        let cell: Ptr<Cell> = Ptr::new(Cell::from(cur));
                        cur = Layout { name: format!("level{}", i), insts: vec![Instance { inst_name: format!("i{}", i), cell, loc: pt(l.loc), reflect_vert: l.reflect, angle: l.angle }], elems: vec![], annotations: vec![] };
                    }
                    cx.eval();
                    match guard(|| cur.flatten()) {
                        Err(c) => cx.violation(&format!("point-counts|flatten-panic|{}", c.norm_msg()), json!({"points": n, "word": describe(&word), "panic": c.msg})),
                        Ok(Err(e)) => cx.violation("point-counts|flatten-error", json!({"points": n, "word": describe(&word), "error": format!("{:?}", e)})),
                        Ok(Ok(elems)) => {
                            let mut seen = 0;
                            let mut wrong = false;
                            for e in &elems {
                                let (got, src): (Vec<P>, &Vec<P>) = match &e.inner {
                                    Shape::Polygon(p) => (p.points.iter().map(tp).collect(), &ring),
                                    Shape::Path(p) => (p.points.iter().map(tp).collect(), &stairs),
                                    Shape::Rect(_) => continue,
                                };
                                seen += 1;
                                let want: Vec<P> = src.iter().map(|q| imap.apply(*q)).collect();
                                if got != want {
                                    let at = got.iter().zip(want.iter()).position(|(a, b)| a != b).unwrap_or(got.len().min(want.len()));
                                    cx.violation("point-counts|flatten-shape", json!({"points": src.len(), "first_wrong_vertex": at, "got": got.get(at), "exact": want.get(at), "word": describe(&word)}));
                                    wrong = true;
                                    break;
                                }
                                cx.count("point_count_shapes_agree");
                            }
                            if seen != 2 && !wrong {
                                cx.violation("point-counts|flatten-count", json!({"points": n, "elements": elems.len()}));
                            }
                        }
                    }
                }
                cx.nontrivial(0xC0_0000 | n as u64);
                cx.sample(|| json!({"points": n}));
            }
            "large-coordinates" => {
                let depth = 1 + cx.rng.usize(4);
                let big = 1i64 << 30;
                let word: Vec<Letter> = (0..depth).map(|_| { let i = cx.rng.usize(14); letter(i, (cx.rng.range(-big, big), cx.rng.range(-big, big))) }).collect();
                // the points themselves are as arbitrary as the offsets: beyond 32 bits in two cases out of three (a coordinate is an `isize`;
                // everything up to 2^48 is exact in the library's double-precision matrices)
                let pbig = *cx.rng.pick(&[1i64 << 30, 1 << 33, 1 << 45]);
                let pts: Vec<P> = (0..6).map(|_| (cx.rng.range(-pbig, pbig), cx.rng.range(-pbig, pbig))).collect();
                cx.nontrivial(crate::rt::prng::strhash(&format!("{:?}", word)));
                self.check_word(cx, &word, &pts);
                cx.sample(|| describe(&word));
            }
            "general-angles" => {
                let depth = 1 + cx.rng.usize(3);
                let big = *cx.rng.pick(&[100i64, 10_000, 1 << 20, 1 << 30]);
                let word: Vec<Letter> = (0..depth)
                    .map(|_| {
                        let a = match cx.rng.below(4) {
                            0 => cx.rng.range(-720, 720) as f64,
                            1 => cx.rng.range(-7200, 7200) as f64 / 10.0,
                            2 => 45.0 * cx.rng.range(-8, 8) as f64,
                            _ => (cx.rng.f64_unit() - 0.5) * 720.0,
                        };
                        Letter { reflect: cx.rng.bool(), angle: Some(a), quarter: 0, loc: (cx.rng.range(-big, big), cx.rng.range(-big, big)) }
                    })
                    .collect();
                // placements are not independent in real designs: a block rotated by t inside a parent rotated by -t (or both mirrored at
                // the same angle) - the rotations cancel exactly, the composition is a pure translation again
                let mut word = word;
                if word.len() >= 2 && cx.rng.chance(1, 4) {
                    let k = cx.rng.usize(word.len() - 1);
                    let a = word[k].angle.unwrap();
                    if cx.rng.bool() {
                        word[k + 1].angle = Some(-a);
                        word[k].reflect = false;
                        word[k + 1].reflect = false;
                    } else {
                        word[k + 1].angle = Some(a);
                        word[k].reflect = true;
                        word[k + 1].reflect = true;
                    }
                    cx.count("general_words_with_cancelling_rotations");
                }
                let word = word;
                cx.nontrivial(crate::rt::prng::strhash(&format!("{:?}", word)));
                let t = guard(|| {
                    let mut t = Transform::identity();
                    for l in &word {
                        t = Transform::cascade(&t, &Transform::from_instance(&pt(l.loc), l.reflect, l.angle));
                    }
                    t
                });
                let t = match t {
                    Ok(t) => t,
                    Err(c) => {
                        cx.violation(&format!("general|panic|{}", c.norm_msg()), json!({"panic": c.msg}));
                        return;
                    }
                };
                let refl_rot = word.iter().any(|l| l.reflect);
                // "identically to composing the library's own elementary reflect, rotate and translate transforms in that order": the placement
                // matrix equals translate . rotate . reflect entry for entry (the products involved only multiply by 0 and 1, so there is no
                // rounding to forgive; -0.0 == 0.0)
                for l in &word {
                    cx.eval();
                    let r = guard(|| {
                        let placed = Transform::from_instance(&pt(l.loc), l.reflect, l.angle);
                        let mut inner = Transform::rotate(l.angle.unwrap());
                        if l.reflect {
                            inner = Transform::cascade(&inner, &Transform::reflect_vert());
                        }
                        let composed = Transform::cascade(&Transform::translate(l.loc.0 as f64, l.loc.1 as f64), &inner);
                        (placed.a, placed.b, composed.a, composed.b)
                    });
                    match r {
                        Err(c) => cx.violation(&format!("general|panic|{}", c.norm_msg()), json!({"panic": c.msg})),
                        Ok((pa, pb, ca, cb)) => {
                            if pa != ca || pb != cb {
                                cx.violation(&format!("general|placement-differs-from-composition|{}", if l.reflect { "reflected" } else { "unreflected" }), json!({"angle": l.angle, "loc": l.loc, "placement": [pa[0], pa[1], pb], "composition": [ca[0], ca[1], cb]}));
                            } else {
                                cx.count("general_placement_equals_composition");
                            }
                        }
                    }
                }
                for _ in 0..8 {
                    cx.eval();
                    let p = (cx.rng.range(-big, big), cx.rng.range(-big, big));
                    // sequential application, innermost placement first, no intermediate rounding
                    let (mut x, mut y) = (p.0 as f64, p.1 as f64);
                    for l in word.iter().rev() {
                        if l.reflect {
                            y = -y;
                        }
                        let (s, c) = sincos_deg(l.angle.unwrap());
                        let (nx, ny) = (c * x - s * y, s * x + c * y);
                        x = nx + l.loc.0 as f64;
                        y = ny + l.loc.1 as f64;
                    }
                    let got = pt(p).transform(&t);
                    let (dx, dy) = ((got.x as f64 - x).abs(), (got.y as f64 - y).abs());
                    let tol = 0.5 + 1e-5;
                    if dx > tol || dy > tol {
                        cx.violation(&format!("general|off-by-more-than-half-unit|{}", if refl_rot { "reflected" } else { "unreflected" }),
                            json!({"word": describe(&word), "point": p, "got": [got.x, got.y], "reference": [x, y]}));
                        break;
                    }
                    cx.count("general_points_agree");
                }
                // ... and through Layout::flatten of the nested hierarchy: one polygon and one path in the leaf; every flattened vertex is the
                // image of ITS source vertex (same position in the list) under the composition, rounded once at the end (so within half a unit
                // of the real-number image, not half a unit per level), and the path keeps its width (placements are isometries)
                let pts: Vec<P> = (0..6).map(|_| (cx.rng.range(-big, big), cx.rng.range(-big, big))).collect();
                let width = 2 * (1 + cx.rng.usize(40));
                let mk = |s: Shape| Element { net: None, layer: LayerKey::default(), purpose: LayerPurpose::Drawing, inner: s };
                let mut cur = Layout {
                    name: "leaf".into(),
                    insts: vec![],
                    elems: vec![mk(Shape::Polygon(Polygon { points: pts.iter().map(|p| pt(*p)).collect() })), mk(Shape::Path(Path { points: pts[..3].iter().map(|p| pt(*p)).collect(), width }))],
                    annotations: vec![],
                };
                // names play no part in geometry: one hierarchy in three gives every level the leaf's name (a user's `inv` wrapping a vendor's
                // `inv`), which is a different cell each time
                let same_names = cx.rng.chance(1, 3);
                for (i, l) in word.iter().enumerate().rev() {
                    let cell: Ptr<Cell> = Ptr::new(Cell::from(cur));
                    cur = Layout { name: if same_names { "leaf".into() } else { format!("level{}", i) }, insts: vec![Instance { inst_name: format!("i{}", i), cell, loc: pt(l.loc), reflect_vert: l.reflect, angle: l.angle }], elems: vec![], annotations: vec![] };
                }
                cx.eval();
                match guard(|| cur.flatten()) {
                    Err(c) => cx.violation(&format!("general-flatten|panic|{}", c.norm_msg()), json!({"panic": c.msg, "word": describe(&word)})),
                    Ok(Err(e)) => cx.violation("general-flatten|error", json!({"error": format!("{:?}", e).chars().take(200).collect::<String>(), "word": describe(&word)})),
                    Ok(Ok(elems)) => {
                        let image = |p: P| -> (f64, f64) {
                            let (mut x, mut y) = (p.0 as f64, p.1 as f64);
                            for l in word.iter().rev() {
                                if l.reflect {
                                    y = -y;
                                }
                                let (s, c) = sincos_deg(l.angle.unwrap());
                                let (nx, ny) = (c * x - s * y, s * x + c * y);
                                x = nx + l.loc.0 as f64;
                                y = ny + l.loc.1 as f64;
                            }
                            (x, y)
                        };
                        // f64 carries ~1e-16 relative error per operation: allow for it at 2^30-sized coordinates
                        let tol = 0.5 + 1e-5 + (big as f64) * 4e-15 * depth as f64;
                        let mut bad: Option<String> = None;
                        if elems.len() != 2 {
                            bad = Some("element-count".into());
                        }
                        for e in elems.iter() {
                            let (got, src, w): (Vec<P>, &[P], Option<usize>) = match &e.inner {
                                Shape::Polygon(g) => (g.points.iter().map(tp).collect(), &pts[..], None),
                                Shape::Path(g) => (g.points.iter().map(tp).collect(), &pts[..3], Some(g.width)),
                                Shape::Rect(_) => {
                                    bad = Some("shape-kind-changed".into());
                                    continue;
                                }
                            };
                            if got.len() != src.len() {
                                bad = Some("vertex-count".into());
                                continue;
                            }
                            for (g, sp) in got.iter().zip(src.iter()) {
                                let (x, y) = image(*sp);
                                if (g.0 as f64 - x).abs() > tol || (g.1 as f64 - y).abs() > tol {
                                    // is it the image of ANOTHER vertex of the list? then the order changed
                                    let other = src.iter().any(|q| {
                                        let (x2, y2) = image(*q);
                                        (g.0 as f64 - x2).abs() <= tol && (g.1 as f64 - y2).abs() <= tol
                                    });
                                    bad = Some(if other { "vertex-order-changed".into() } else { "vertex-off-by-more-than-half-unit".into() });
                                }
                            }
                            if let Some(w) = w {
                                if w != width {
                                    bad = Some("path-width-changed".into());
                                }
                            }
                        }
                        match bad {
                            Some(b) => cx.violation(&format!("general-flatten|{}|{}", b, if refl_rot { "reflected" } else { "unreflected" }), json!({"word": describe(&word), "points": pts, "width": width, "flattened": format!("{:?}", elems.iter().map(|e| &e.inner).collect::<Vec<_>>()).chars().take(600).collect::<String>()})),
                            None => cx.count("general_flattened_hierarchies_agree"),
                        }
                    }
                }
                cx.sample(|| describe(&word));
            }
            "threads" => {
                // four threads, each placing at its own angles, each comparing every placement with the composition of the library's own
                // elementary transforms (entry for entry) and a point's image under both
                let seeds: Vec<u64> = (0..4).map(|_| cx.rng.u64()).collect();
                let results: Vec<Result<Option<String>, Caught>> = std::thread::scope(|sc| {
                    let hs: Vec<_> = seeds
                        .iter()
                        .map(|sd| {
                            let sd = *sd;
                            sc.spawn(move || {
                                guard(move || {
                                    let mut rng = Rng::new(sd);
                                    for _ in 0..5_000 {
                                        let a = match rng.below(3) {
                                            0 => rng.range(-720, 720) as f64,
                                            1 => rng.range(-7200, 7200) as f64 / 10.0,
                                            _ => 90.0 * rng.range(-4, 4) as f64,
                                        };
                                        let (refl, loc) = (rng.bool(), (rng.range(-1000, 1000), rng.range(-1000, 1000)));
                                        let placed = Transform::from_instance(&pt(loc), refl, Some(a));
                                        let mut inner = Transform::rotate(a);
                                        if refl {
                                            inner = Transform::cascade(&inner, &Transform::reflect_vert());
                                        }
                                        let composed = Transform::cascade(&Transform::translate(loc.0 as f64, loc.1 as f64), &inner);
                                        if placed.a != composed.a || placed.b != composed.b {
                                            return Some(format!("angle {} reflect {}: placement {:?} vs composition {:?}", a, refl, placed.a, composed.a));
                                        }
                                    }
                                    None
                                })
                            })
                        })
                        .collect();
                    hs.into_iter().map(|h| h.join().unwrap_or_else(|_| Err(Caught { msg: "thread died".into(), ..Default::default() }))).collect()
                });
                for r in results {
                    cx.eval();
                    match r {
                        Err(c) => cx.violation(&format!("threads|panic|{}", c.norm_msg()), json!({"panic": c.msg})),
                        Ok(Some(w)) => cx.violation("threads|placement-differs-from-composition", json!({"what": w})),
                        Ok(None) => cx.count("threaded_placement_batches_agree"),
                    }
                }
                cx.nontrivial(seeds[0]);
            }
            other => cx.inconclusive(format!("unknown generator {}", other)),
        }
    }
}
