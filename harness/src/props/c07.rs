//! C07 — raw layout exported to GDSII and imported back is unchanged.

use crate::gen::rawgen::*;
use crate::refs::geom::*;
use crate::refs::hier::{canon_cycle, rect_cycle, CShape};
use crate::rt::*;
use layout21raw as raw;
use raw::{Library, Shape};
use serde_json::json;
use std::collections::BTreeMap;

pub struct C07;

/// (layer number, purpose number, canonical shape, net, exact form: corners / vertices in the order they are stored)
type ElemKey = (i16, i16, CShape, Option<String>, String);
type InstKey = (String, i64, i64, bool, Option<u64>);

pub fn cshape_of(s: &Shape) -> CShape {
    let p = |q: &raw::Point| (q.x as i64, q.y as i64);
    match s {
        Shape::Rect(r) => CShape::Poly(rect_cycle(p(&r.p0), p(&r.p1))),
        Shape::Polygon(g) => CShape::Poly(canon_cycle(&g.points.iter().map(p).collect::<Vec<_>>())),
        Shape::Path(g) => CShape::Path(g.points.iter().map(p).collect(), g.width as i64),
    }
}
/// An imported library is self-contained: what its instances point at are its own cell objects (members of `lib.cells`, by identity), not
/// equal copies - otherwise an edit of a cell is not seen through its instances and a re-export defines the cell twice or not at all.
/// Returns the first offending (cell, instance target) pair.
pub fn foreign_target(lib: &Library) -> Option<(String, String)> {
    for c in lib.cells.iter() {
        let c = c.read().ok()?;
        if let Some(l) = &c.layout {
            for i in &l.insts {
                if !lib.cells.iter().any(|m| *m == i.cell) {
                    return Some((c.name.clone(), i.cell.read().map(|t| t.name.clone()).unwrap_or_default()));
                }
            }
        }
    }
    None
}
/// The stored form of a shape: a rectangle's two corners as given (not normalised), a polygon's and a path's vertices in their own order.
/// `as_exported`: the form the shape is expected to come back in - GDSII has no rectangle, so a four-vertex axis-parallel polygon returns as
/// the rectangle spanned by its first and third vertices (the one identification the round trip makes); everything else returns as it was.
fn exact_form(s: &Shape, as_exported: bool) -> String {
    let p = |q: &raw::Point| (q.x as i64, q.y as i64);
    match s {
        Shape::Rect(r) => format!("R{:?}{:?}", p(&r.p0), p(&r.p1)),
        Shape::Polygon(g) => {
            let v: Vec<(i64, i64)> = g.points.iter().map(p).collect();
            let rectlike = v.len() == 4
                && ((v[0].0 == v[1].0 && v[1].1 == v[2].1 && v[2].0 == v[3].0 && v[3].1 == v[0].1) || (v[0].1 == v[1].1 && v[1].0 == v[2].0 && v[2].1 == v[3].1 && v[3].0 == v[0].0));
            if as_exported && rectlike {
                format!("R{:?}{:?}", v[0], v[2])
            } else {
                format!("G{:?}", v)
            }
        }
        Shape::Path(g) => format!("P{:?}w{}", g.points.iter().map(p).collect::<Vec<_>>(), g.width),
    }
}
/// Per cell name: (instances, elements) as sorted multisets. Err(description) if a layer/purpose cannot be resolved.
/// `defs`: the generator's own record of purpose numbers, consulted before the library's `Layer::num` (which is code under test)
pub fn summarize(lib: &Library, defs: &crate::gen::rawgen::LayerDefs, as_exported: bool) -> Result<BTreeMap<String, (Vec<InstKey>, Vec<ElemKey>)>, String> {
    let layers = lib.layers.read().map_err(|_| "layers lock")?;
    let mut out = BTreeMap::new();
    for c in lib.cells.iter() {
        let c = c.read().map_err(|_| "cell lock")?;
        if let Some(lay) = &c.layout {
            let mut insts: Vec<InstKey> = Vec::new();
            for i in &lay.insts {
                let t = i.cell.read().map_err(|_| "cell lock")?.name.clone();
                insts.push((t, i.loc.x as i64, i.loc.y as i64, i.reflect_vert, i.angle.map(|a| a.to_bits())));
            }
            insts.sort();
            let mut elems: Vec<ElemKey> = Vec::new();
            for e in &lay.elems {
                let l = layers.get(e.layer).ok_or("unknown layer key")?;
                let pn = defs.num_of(e.layer, &e.purpose).or_else(|| l.num(&e.purpose)).ok_or(format!("purpose {:?} has no number on layer {}", e.purpose, l.layernum))?;
                elems.push((l.layernum, pn, cshape_of(&e.inner), e.net.as_ref().map(|n| n.to_lowercase()), exact_form(&e.inner, as_exported)));
            }
            elems.sort();
            out.insert(c.name.clone(), (insts, elems));
        }
    }
    Ok(out)
}
fn shape_family(s: &Shape) -> &'static str {
    match s {
        Shape::Rect(_) => "rect",
        Shape::Path(_) => "path",
        Shape::Polygon(p) => {
            let n = p.points.len();
            let mut rectilinear = true;
            let mut deg45 = true;
            for k in 0..n {
                let (a, b) = (&p.points[k], &p.points[(k + 1) % n]);
                let (dx, dy) = ((b.x - a.x).abs(), (b.y - a.y).abs());
                if dx != 0 && dy != 0 {
                    rectilinear = false;
                    if dx != dy {
                        deg45 = false;
                    }
                }
            }
            if rectilinear {
                "rectilinear-polygon"
            } else if deg45 {
                "45-degree-polygon"
            } else {
                "general-polygon"
            }
        }
    }
}

impl Prop for C07 {
    fn id(&self) -> &'static str {
        "C07"
    }
    fn rule(&self) -> String {
        "Raw libraries from gen/rawgen.rs: 1-6 layout cells forming a DAG in straight/reversed/shuffled listing order, instances with both reflections and angles None/0/90/180/270/-90, rectangles (any opposite-corner pair), polyomino-outline rectilinear polygons (L/U/comb shapes), 45-degree chamfered polygons, star-shaped general polygons, Manhattan paths, \
         each in its own 1000-unit slot (no overlaps), nets on half the shapes (mixed case), 1-4 layers x 6 purposes with arbitrary layer/purpose numbers, all four Units. Oracle: to_gds must be Ok; in the exported GdsLibrary every label point lies inside its shape (exact containment) and every path keeps exactly its points; \
         from_gds(to_gds(lib), same Layers) must be Ok with equal units, cell names, and per cell equal multisets of instances (target, loc, reflect, angle bits) and elements (layer number, purpose number, canonical shape, lower-cased net, and the stored form: a rectangle's two corners as given, polygon vertices in their own order); every imported instance target is a member of lib.cells by identity; every fifth library gives layout views names of their own (the cell's name must survive); every fourth library is moved in place and converted a second time; big libraries also go through save -> load. distinct_nontrivial = distinct libraries (hash of summary) with at least one net, instance or path."
            .into()
    }
    fn assumptions(&self) -> Vec<String> {
        vec!["shapes never overlap or touch within a cell (differently named overlapping shapes are a short in GDSII label semantics)".into(),
             "a 4-vertex axis-parallel polygon returns as the rectangle spanned by its first and third vertices (GDSII has no rectangle); everything else returns vertex for vertex".into(),
             "layout-only cells, no annotations (GDSII export does not carry them and the statement does not list them)".into()]
    }
    fn miri_gen(&self) -> Option<&'static str> {
        Some("roundtrip")
    }
    fn plan(&self, tier: Tier) -> Vec<GenSpec> {
        vec![
            GenSpec::random("roundtrip", tier.pick(60_000, 600_000)),
            // bigger libraries (tens of KB of GDSII) taken through a FILE between export and import: GdsLibrary::save then GdsLibrary::load
            GenSpec::random("roundtrip-via-file", tier.pick(150, 4_000)),
            // one cell of more than 65 536 shapes (fill, a flat top cell), named shapes among the last ones: positions that do not fit 16 bits
            GenSpec::random("huge-cell", tier.pick(3, 24)),
        ]
    }
    fn run_case(&self, cx: &mut Cx) {
        let via_file = cx.gen == "roundtrip-via-file";
        let mut cfg = RawCfg::gds();
        if via_file {
            cfg.max_cells = 14;
            cfg.max_elems = 40;
        }
        // every third library uses a technology in which distinct layers share a GDSII layer number (met1 68/20 and via 68/44 style)
        if cx.n % 3 == 2 {
            cfg.shared_layer_numbers = true;
            cx.count("libraries_with_shared_layer_numbers");
        }
        // every other library: shapes on different layer numbers may overlap (labels are matched per layer number)
        if cx.n % 2 == 0 {
            cfg.cross_layer_overlap = true;
        }
        // every fifth library: layout views named differently from their cells (GDSII has one name per structure: the cell's is the one
        // references use, so it is the one that has to survive)
        if cx.n % 5 == 3 {
            cfg.view_names = true;
            cx.count("libraries_with_view_names");
        }
        let huge = cx.gen == "huge-cell";
        if huge {
            cfg.max_cells = 3;
            cfg.max_elems = 4;
        }
        let g = rand_raw_lib(&mut cx.rng, &cfg);
        if huge {
            let n = 65_530 + cx.rng.usize(300);
            let (key, _, purposes) = g.defs.table[0].clone();
            let purpose = purposes[0].0.clone();
            let target = g.lib.cells.iter().find(|c| c.read().unwrap().layout.is_some()).cloned();
            if let Some(c) = target {
                let mut c = c.write().unwrap();
                let lay = c.layout.as_mut().unwrap();
                // the existing shapes stay in front; the fill goes far away from them, 10 units apart
                for i in 0..n {
                    let (x, y) = (1_000_000 + 10 * (i % 300) as raw::Int, 1_000_000 + 10 * (i / 300) as raw::Int);
                    let late = i + 90 >= n && i % 11 == 0;
                    lay.elems.push(raw::Element {
                        net: if late || i == 7 || i == 32_768 { Some(format!("fill_net_{}", i)) } else { None },
                        layer: key,
                        purpose: purpose.clone(),
                        inner: Shape::Rect(raw::Rect { p0: raw::Point::new(x, y), p1: raw::Point::new(x + 4, y + 4) }),
                    });
                }
                cx.count("huge_cells");
                cx.max("max.shapes_in_one_cell", lay.elems.len() as u64);
            }
        }
        if !self.trip(cx, &g, via_file) {
            return;
        }
        // History: the same library converted again after an edit IN PLACE (a cell moved, as an editor's "move" does: every coordinate of
        // every element shifted, buffers and lengths unchanged). The second conversion owes nothing to the first.
        if !via_file && cx.n % 4 == 1 {
            let (dx, dy) = (cx.rng.range(-5000, 5000) as raw::Int, cx.rng.range(-5000, 5000) as raw::Int);
            for c in g.lib.cells.iter() {
                let mut c = c.write().unwrap();
                if let Some(l) = c.layout.as_mut() {
                    for e in l.elems.iter_mut() {
                        match &mut e.inner {
                            Shape::Rect(r) => {
                                r.p0.x += dx;
                                r.p0.y += dy;
                                r.p1.x += dx;
                                r.p1.y += dy;
                            }
                            Shape::Polygon(p) => p.points.iter_mut().for_each(|q| {
                                q.x += dx;
                                q.y += dy;
                            }),
                            Shape::Path(p) => p.points.iter_mut().for_each(|q| {
                                q.x += dx;
                                q.y += dy;
                            }),
                        }
                    }
                }
            }
            cx.count("second_conversions_after_in_place_edit");
            if !self.trip(cx, &g, false) {
                cx.violation("after-in-place-edit|second-conversion-wrong", json!({"shift": [dx as i64, dy as i64], "see": "the other witness of this case"}));
            }
        }
    }
}
impl C07 {
    /// One raw -> GDSII -> raw trip of `g.lib` as it is now, judged against a summary taken now. False if a violation was reported.
    fn trip(&self, cx: &mut Cx, g: &GenRaw, via_file: bool) -> bool {
        cx.eval();
        let want = match summarize(&g.lib, &g.defs, true) {
            Ok(w) => w,
            Err(e) => {
                cx.inconclusive(format!("generator: {}", e));
                return false;
            }
        };
        let interesting = want.values().any(|(i, e)| !i.is_empty() || e.iter().any(|x| x.3.is_some() || matches!(x.2, CShape::Path(..))));
        if interesting {
            cx.nontrivial(crate::rt::prng::strhash(&format!("{:?}{:?}", g.lib.units, want)));
        }
        let unit = format!("{:?}", g.lib.units);
        let gds = match guard(|| g.lib.to_gds()) {
            Err(c) => {
                cx.violation(&format!("export-panic|{}|{}", c.site(), c.norm_msg()), json!({"panic": c.msg, "at": format!("{}:{}", c.file, c.line), "lib": format!("{:?}", want).chars().take(1500).collect::<String>()}));
                return false;
            }
            Ok(Err(e)) => {
                let es = format!("{:?}", e);
                // which shape family could not be labelled?
                let fam = if es.contains("No valid label location") {
                    let mut f = "unknown";
                    for c in g.lib.cells.iter() {
                        for e in c.read().unwrap().layout.iter().flat_map(|l| l.elems.iter()) {
                            if e.net.is_some() {
                                if let Shape::Polygon(p) = &e.inner {
                                    if es.contains(&format!("{:?}", p)) {
                                        f = shape_family(&e.inner);
                                    }
                                }
                            }
                        }
                    }
                    format!("no-label-location|{}", f)
                } else {
                    "other".to_string()
                };
                cx.violation(&format!("export-error|{}", fam), json!({"error": es.chars().take(600).collect::<String>()}));
                return false;
            }
            Ok(Ok(gds)) => gds,
        };
        cx.count("exported");
        // one case in six: a clone of the library exports to the same GDSII library (dates aside: they are the time of the export)
        if cx.n % 6 == 4 && !via_file {
            let same = |a: &gds21::GdsLibrary, b: &gds21::GdsLibrary| -> bool {
                a.name == b.name && a.structs.len() == b.structs.len() && a.structs.iter().zip(b.structs.iter()).all(|(x, y)| x.name == y.name && x.elems == y.elems)
            };
            match guard(|| g.lib.clone().to_gds()) {
                Ok(Ok(g2)) if same(&gds, &g2) => cx.count("clone_exports_to_the_same_library"),
                Ok(Ok(g2)) => {
                    cx.violation("export-of-a-clone-differs", json!({"structs": gds.structs.iter().map(|s| s.name.clone()).collect::<Vec<_>>(), "structs_of_clone": g2.structs.iter().map(|s| s.name.clone()).collect::<Vec<_>>()}));
                    return false;
                }
                Ok(Err(e)) => {
                    cx.violation("export-of-a-clone-fails", json!({"error": format!("{:?}", e).chars().take(300).collect::<String>()}));
                    return false;
                }
                Err(c) => {
                    cx.violation(&format!("export-panic|clone|{}|{}", c.site(), c.norm_msg()), json!({"panic": c.msg}));
                    return false;
                }
            }
        }
        // boundary observations on the exported GDS: labels inside their shapes, open paths stay open
        for c in g.lib.cells.iter() {
            let c = c.read().unwrap();
            let lay = match &c.layout {
                Some(l) => l,
                None => continue,
            };
            let st = match gds.structs.iter().find(|s| s.name == c.name) {
                Some(s) => s,
                None => {
                    cx.violation("export|cell-missing", json!({"cell": c.name}));
                    return false;
                }
            };
            for e in &lay.elems {
                if let Some(net) = &e.net {
                    let texts: Vec<&gds21::GdsTextElem> = st.elems.iter().filter_map(|x| if let gds21::GdsElement::GdsTextElem(t) = x { if t.string == *net { Some(t) } else { None } } else { None }).collect();
                    if texts.len() != 1 {
                        cx.violation("export|label-count", json!({"net": net, "labels": texts.len()}));
                        return false;
                    }
                    let q = (texts[0].xy.x as i64, texts[0].xy.y as i64);
                    let p = |q: &raw::Point| (q.x as i64, q.y as i64);
                    let inside = match &e.inner {
                        Shape::Rect(r) => rect_contains(p(&r.p0), p(&r.p1), q),
                        Shape::Polygon(g2) => poly_contains(&g2.points.iter().map(p).collect::<Vec<_>>(), q),
                        Shape::Path(g2) => path_class(&g2.points.iter().map(p).collect::<Vec<_>>(), g2.width as i64, q) == PathClass::MustBeInside,
                    };
                    if !inside {
                        cx.violation(&format!("export|label-outside-shape|{}", shape_family(&e.inner)), json!({"net": net, "label_at": q, "shape": format!("{:?}", e.inner)}));
                        return false;
                    }
                    cx.count("labels_inside");
                }
                if let Shape::Path(path) = &e.inner {
                    let want_xy: Vec<(i32, i32)> = path.points.iter().map(|q| (q.x as i32, q.y as i32)).collect();
                    let found = st.elems.iter().any(|x| if let gds21::GdsElement::GdsPath(gp) = x { gp.xy.iter().map(|q| (q.x, q.y)).collect::<Vec<_>>() == want_xy && gp.width == Some(path.width as i32) } else { false });
                    if !found {
                        let closed = st.elems.iter().any(|x| if let gds21::GdsElement::GdsPath(gp) = x { gp.xy.len() == want_xy.len() + 1 && gp.xy.first() == gp.xy.last() } else { false });
                        cx.violation(if closed { "export|open-path-exported-closed" } else { "export|path-points-changed" }, json!({"path": format!("{:?}", path)}));
                        return false;
                    }
                    cx.count("paths_kept_open");
                }
            }
        }
        // the file leg: what is imported is what GdsLibrary::load reads back from the saved file
        let gds = if via_file {
            let path = cx.tmp("c07.gds");
            let _ = std::fs::write(&path, vec![0x33u8; 400_000]); // an older, longer file at the target
            let r = guard(|| gds.save(&path).and_then(|_| gds21::GdsLibrary::load(&path)));
            let _ = std::fs::remove_file(&path);
            match r {
                Ok(Ok(l)) => {
                    cx.count("via_file_loaded");
                    l
                }
                Ok(Err(e)) => {
                    cx.violation("via-file|save-or-load-error", json!({"error": format!("{:?}", e).chars().take(300).collect::<String>()}));
                    return false;
                }
                Err(c) => {
                    cx.violation(&format!("via-file|panic|{}|{}", c.site(), c.norm_msg()), json!({"panic": c.msg}));
                    return false;
                }
            }
        } else {
            gds
        };
        let back = match guard(|| Library::from_gds(&gds, Some(g.lib.layers.clone()))) {
            Err(c) => {
                cx.violation(&format!("import-panic|{}|{}", c.site(), c.norm_msg()), json!({"panic": c.msg}));
                return false;
            }
            Ok(Err(e)) => {
                cx.violation(&format!("import-error|units-{}", unit), json!({"error": format!("{:?}", e).chars().take(400).collect::<String>()}));
                return false;
            }
            Ok(Ok(l)) => l,
        };
        if let Some((c, t)) = foreign_target(&back) {
            cx.violation("import|instance-target-is-not-a-cell-of-the-library", json!({"cell": c, "target": t}));
            return false;
        }
        if back.units != g.lib.units {
            cx.violation(&format!("units-changed|{}", unit), json!({"want": unit, "got": format!("{:?}", back.units)}));
            return false;
        }
        let got = match summarize(&back, &g.defs, false) {
            Ok(s) => s,
            Err(e) => {
                cx.violation("import|unresolvable-layer", json!({"error": e}));
                return false;
            }
        };
        if got.keys().collect::<Vec<_>>() != want.keys().collect::<Vec<_>>() {
            cx.violation("cell-set", json!({"want": want.keys().collect::<Vec<_>>(), "got": got.keys().collect::<Vec<_>>()}));
            return false;
        }
        for (name, (wi, we)) in &want {
            let (gi, ge) = &got[name];
            if wi != gi {
                cx.violation("instances", json!({"cell": name, "want": format!("{:?}", wi), "got": format!("{:?}", gi)}));
                return false;
            }
            if we != ge {
                // classify the first differing element
                let missing = we.iter().find(|x| !ge.contains(x));
                let class = match missing {
                    Some(m) => {
                        let same_but_form = ge.iter().find(|x| x.0 == m.0 && x.1 == m.1 && x.2 == m.2 && x.3 == m.3);
                        let twin = ge.iter().find(|x| x.0 == m.0 && x.1 == m.1 && x.2 == m.2);
                        let twin_geo = ge.iter().find(|x| x.0 == m.0 && x.1 == m.1 && x.3 == m.3);
                        if same_but_form.is_some() {
                            match m.2 {
                                CShape::Path(..) => "path-geometry",
                                _ => if m.4.starts_with('R') { "rectangle-corners-changed" } else { "polygon-vertex-order-changed" },
                            }
                        } else if twin.is_some() {
                            if m.3.is_some() { "net-lost" } else { "net-gained" }
                        } else if twin_geo.is_some() {
                            match m.2 {
                                CShape::Path(..) => "path-geometry",
                                _ => "polygon-geometry",
                            }
                        } else {
                            "element-missing"
                        }
                    }
                    None => "extra-element",
                };
                cx.violation(&format!("elements|{}", class), json!({"cell": name, "missing": format!("{:?}", missing), "want": we.len(), "got": ge.len()}));
                return false;
            }
        }
        cx.count("roundtrip_ok");
        cx.sample(|| json!({"units": unit, "cells": want.iter().map(|(k, v)| format!("{}: {} insts {} elems", k, v.0.len(), v.1.len())).collect::<Vec<_>>()}));
        true
    }
}
