//! C06 — importing GDSII into the raw model preserves the flattened geometry.

use crate::gen::shapes::*;
use crate::refs::geom::*;
use crate::refs::hier::*;
use crate::rt::*;
use gds21::*;
use layout21raw as raw;
use serde_json::json;
use std::collections::BTreeMap;

pub struct C06;

fn gpt(p: P) -> GdsPoint {
    GdsPoint::new(p.0 as i32, p.1 as i32)
}
fn closed(pts: &[P]) -> Vec<GdsPoint> {
    let mut v: Vec<GdsPoint> = pts.iter().map(|p| gpt(*p)).collect();
    v.push(gpt(pts[0]));
    v
}

#[derive(Clone, Debug)]
enum Geo {
    Rect(P, P),
    Poly(Vec<P>),
    Path(Vec<P>, i64),
}
impl Geo {
    /// Some(true/false) = point definitely inside/outside; None = not judged (path end-cap band)
    fn contains(&self, p: P) -> Option<bool> {
        match self {
            Geo::Rect(a, b) => Some(rect_contains(*a, *b, p)),
            Geo::Poly(v) => Some(poly_contains(v, p)),
            Geo::Path(v, w) => match path_class(v, *w, p) {
                PathClass::MustBeInside => Some(true),
                PathClass::MustBeOutside => Some(false),
                PathClass::CapBand => None,
            },
        }
    }
    fn cshape(&self) -> CShape {
        match self {
            Geo::Rect(a, b) => CShape::Poly(rect_cycle(*a, *b)),
            Geo::Poly(v) => CShape::Poly(canon_cycle(v)),
            Geo::Path(v, w) => CShape::Path(v.clone(), *w),
        }
    }
    fn anchor(&self) -> P {
        match self {
            Geo::Rect(a, _) => *a,
            Geo::Poly(v) => v[0],
            Geo::Path(v, _) => v[0],
        }
    }
}

struct LeafShape {
    layer: i16,
    dtype: i16,
    geo: Geo,
}

fn rand_leaf_shape(rng: &mut Rng, layers: &[i16], dtypes: &[i16]) -> (GdsElement, LeafShape) {
    let layer = *rng.pick(layers);
    let dtype = *rng.pick(dtypes);
    let o = (rng.range(-2000, 2000), rng.range(-2000, 2000));
    match rng.below(10) {
        9 => {
            // an exact rectangle that is NOT axis-aligned (45-degree wire ends, diamonds): p, p+u, p+u+v, p+v with v perpendicular to u
            let (a, b) = loop {
                let (a, b) = (rng.range(-40, 40), rng.range(-40, 40));
                if a != 0 && b != 0 {
                    break (a, b);
                }
            };
            let t = rng.range(1, 5);
            let (u, v) = ((a, b), (-b * t, a * t));
            let mut q = vec![o, (o.0 + u.0, o.1 + u.1), (o.0 + u.0 + v.0, o.1 + u.1 + v.1), (o.0 + v.0, o.1 + v.1)];
            q.rotate_left(rng.usize(4));
            if rng.bool() {
                q.reverse();
            }
            (GdsBoundary { layer, datatype: dtype, xy: closed(&q), ..Default::default() }.into(), LeafShape { layer, dtype, geo: Geo::Poly(q) })
        }
        8 => {
            // a huge triangle with a long edge of slope ~1: coordinate differences whose products exceed 2^53
            let m = (1i64 << *rng.pick(&[26u32, 27, 28, 29])) - rng.range(0, 5);
            let mut q = vec![o, (o.0 + m, o.1 + m + 1), (o.0 + m, o.1)];
            q.rotate_left(rng.usize(3));
            if rng.bool() {
                q.reverse();
            }
            (GdsBoundary { layer, datatype: dtype, xy: closed(&q), ..Default::default() }.into(), LeafShape { layer, dtype, geo: Geo::Poly(q) })
        }
        7 => {
            // a right triangle with axis-parallel legs, written with one vertex repeated: four vertices, all on corners of the bounding box
            let (w, h) = (rng.range(2, 300), rng.range(2, 300));
            let corners = [o, (o.0 + w, o.1), (o.0 + w, o.1 + h), (o.0, o.1 + h)];
            let skip = rng.usize(4);
            let mut q: Vec<P> = (0..4).filter(|i| *i != skip).map(|i| corners[i]).collect();
            let dup = rng.usize(3);
            q.insert(dup, q[dup]);
            q.rotate_left(rng.usize(4));
            if rng.bool() {
                q.reverse();
            }
            (GdsBoundary { layer, datatype: dtype, xy: closed(&q), ..Default::default() }.into(), LeafShape { layer, dtype, geo: Geo::Poly(q) })
        }
        5 => {
            // four-vertex near-rectangle: a rectangle with one corner slid along a side (right trapezoid), any start vertex, either direction
            let (w, h) = (rng.range(2, 300), rng.range(2, 300));
            let mut q = vec![o, (o.0 + w, o.1), (o.0 + w, o.1 + h), (o.0, o.1 + h)];
            let k = rng.usize(4);
            if rng.bool() {
                q[k].0 = o.0 + rng.range(1, w - 1);
            } else {
                q[k].1 = o.1 + rng.range(1, h - 1);
            }
            q.rotate_left(rng.usize(4));
            if rng.bool() {
                q.reverse();
            }
            (GdsBoundary { layer, datatype: dtype, xy: closed(&q), ..Default::default() }.into(), LeafShape { layer, dtype, geo: Geo::Poly(q) })
        }
        6 => {
            // 45-degree and general simple polygons
            let poly: Vec<P> = loop {
                if rng.bool() {
                    let nc = 2 + rng.usize(6);
                    if let Some(b) = polyomino_outline(rng, nc, false) {
                        let c = chamfer45(&b);
                        if crate::refs::geom::is_simple(&c) {
                            break dress(rng, &c, 12, 0);
                        }
                    }
                } else {
                    let nv = 3 + rng.usize(7);
                    if let Some(b) = star_polygon(rng, nv, 150, (0, 0)) {
                        break b;
                    }
                }
            };
            let poly: Vec<P> = poly.iter().map(|p| (p.0 + o.0, p.1 + o.1)).collect();
            (GdsBoundary { layer, datatype: dtype, xy: closed(&poly), ..Default::default() }.into(), LeafShape { layer, dtype, geo: Geo::Poly(poly) })
        }
        0 | 1 => {
            // rectangle as a boundary, clockwise or counter-clockwise, any start corner
            let (w, h) = (rng.range(1, 300), rng.range(1, 300));
            let mut c = vec![o, (o.0 + w, o.1), (o.0 + w, o.1 + h), (o.0, o.1 + h)];
            let r = rng.usize(4);
            c.rotate_left(r);
            if rng.bool() {
                c.reverse();
            }
            (GdsBoundary { layer, datatype: dtype, xy: closed(&c), ..Default::default() }.into(), LeafShape { layer, dtype, geo: Geo::Rect(o, (o.0 + w, o.1 + h)) })
        }
        2 => {
            let ncells = 3 + rng.usize(10);
            let base = loop {
                if let Some(b) = polyomino_outline(rng, ncells, false) {
                    break b;
                }
            };
            let poly: Vec<P> = dress(rng, &base, 30, 0).iter().map(|p| (p.0 + o.0, p.1 + o.1)).collect();
            (GdsBoundary { layer, datatype: dtype, xy: closed(&poly), ..Default::default() }.into(), LeafShape { layer, dtype, geo: Geo::Poly(poly) })
        }
        3 => {
            let (w, h) = (rng.range(1, 300), rng.range(1, 300));
            let c = [o, (o.0 + w, o.1), (o.0 + w, o.1 + h), (o.0, o.1 + h), o];
            let xy = [gpt(c[0]), gpt(c[1]), gpt(c[2]), gpt(c[3]), gpt(c[4])];
            (GdsBox { layer, boxtype: dtype, xy, ..Default::default() }.into(), LeafShape { layer, dtype, geo: Geo::Rect(o, (o.0 + w, o.1 + h)) })
        }
        _ => {
            let npts = 2 + rng.usize(5);
            let pts = manhattan_path(rng, npts, 200, o);
            let w = rng.range(1, 40);
            (
                GdsPath { layer, datatype: dtype, xy: pts.iter().map(|p| gpt(*p)).collect(), width: Some(w as i32), path_type: if rng.bool() { Some(0) } else { None }, ..Default::default() }.into(),
                LeafShape { layer, dtype, geo: Geo::Path(pts, w) },
            )
        }
    }
}

fn strans_of(reflect: bool, quarter: Option<i64>, rng: &mut Rng, mag_one_in: u64) -> Option<GdsStrans> {
    if !reflect && quarter.is_none() && rng.bool() {
        return None;
    }
    Some(GdsStrans { reflected: reflect, angle: quarter.map(|q| *rng.pick(&[90.0 * q as f64, 90.0 * q as f64 - 360.0, 90.0 * q as f64 + 360.0])), mag: if rng.chance(1, mag_one_in) { Some(1.0) } else { None }, ..Default::default() })
}

struct GenLib {
    lib: GdsLibrary,
    /// per struct name: its own shapes and texts (for the label oracle)
    own: BTreeMap<String, (Vec<LeafShape>, Vec<(String, i16, P)>)>,
}

/// most shapes a generated structure may flatten to (see gen_valid)
const FLAT_CAP: u64 = 600_000;
fn gen_valid(rng: &mut Rng, big_arrays: bool) -> GenLib {
    let nstructs = 1 + rng.usize(5);
    // layer and datatype numbers are 16-bit signed: one library in four takes them from the whole range (negative ones, the two ends,
    // 255/256), few enough of them that consecutive elements share a datatype on different layers and a layer under different datatypes
    let wide = rng.chance(1, 4);
    let layers: Vec<i16> = if wide {
        (0..2 + rng.usize(2)).map(|_| *rng.pick(&[-1i16, -2, i16::MIN, i16::MAX, 255, 256, 1, 2, -32767, 0x7F00])).collect()
    } else {
        (0..1 + rng.usize(3)).map(|_| rng.range(0, 60) as i16).collect()
    };
    let dtypes: Vec<i16> = if wide { (0..1 + rng.usize(2)).map(|_| *rng.pick(&[-1i16, i16::MIN, i16::MAX, -2, 256, 0])).collect() } else { vec![0, 1, 2] };
    let mut structs: Vec<GdsStruct> = Vec::new();
    let mut flat_count: Vec<u64> = Vec::new();
    let mut own = BTreeMap::new();
    // structure names: plain indices, or families that real libraries have - names differing only in letter case, and long names that share
    // their first 32 characters (parametric device names)
    let family = rng.below(5);
    let one_char = crate::rt::prng::NameFamily::random(rng);
    let names: Vec<String> = (0..nstructs)
        .map(|i| match family {
            4 => one_char.name(i),
            0 => ["via", "VIA", "Via", "vIa", "viA", "VIa"][i].to_string(),
            1 => format!("sky130_fd_pr__rf_nfet_01v8_lvt_aM02W1p65L0p{}", 15 + i),
            _ => format!("s{}", i),
        })
        .collect();
    for i in 0..nstructs {
        let name = names[i].clone();
        let mut s = GdsStruct::new(name.clone());
        let mut shapes = Vec::new();
        let mut texts = Vec::new();
        for _ in 0..rng.usize(5) + if i == 0 { 1 } else { 0 } {
            let (e, l) = rand_leaf_shape(rng, &layers, &dtypes);
            s.elems.push(e);
            shapes.push(l);
        }
        // labels: inside / on an edge or vertex / outside / on another layer
        for k in 0..rng.usize(4) {
            if shapes.is_empty() {
                break;
            }
            let sh = &shapes[rng.usize(shapes.len())];
            let a = sh.geo.anchor();
            // bounding box and vertices of the shape, for near-miss label positions
            let verts: Vec<P> = match &sh.geo {
                Geo::Rect(p0, p1) => vec![*p0, (p1.0, p0.1), *p1, (p0.0, p1.1)],
                Geo::Poly(v) => v.clone(),
                Geo::Path(v, _) => v.clone(),
            };
            let (bx0, bx1) = (verts.iter().map(|v| v.0).min().unwrap(), verts.iter().map(|v| v.0).max().unwrap());
            let (by0, by1) = (verts.iter().map(|v| v.1).min().unwrap(), verts.iter().map(|v| v.1).max().unwrap());
            let (layer, p) = match rng.below(10) {
                9 => {
                    // within two units of an edge, anywhere along it, and right next to its far end
                    let k = rng.usize(verts.len());
                    let (u, w) = (verts[k], verts[(k + 1) % verts.len()]);
                    if rng.bool() {
                        let t = rng.range(0, 1000) as i128;
                        let f = ((u.0 as i128 + (w.0 - u.0) as i128 * t / 1000) as i64, (u.1 as i128 + (w.1 - u.1) as i128 * t / 1000) as i64);
                        (sh.layer, (f.0 + rng.range(-2, 2), f.1 + rng.range(-2, 2)))
                    } else {
                        (sh.layer, (w.0 - (w.0 - u.0).signum(), w.1 - rng.range(1, 2) * (w.1 - u.1).signum()))
                    }
                }
                0 => (sh.layer, a),                                  // a vertex / path start
                1 => (sh.layer, (a.0 + 5000, a.1 + 5000)),           // far outside everything
                2 => (sh.layer.wrapping_add(77), a),                 // other layer
                3 => (sh.layer, (rng.range(bx0 - 2, bx1 + 2), rng.range(by0 - 2, by1 + 2))), // anywhere in / just around the bounding box
                4 => {
                    // in line with a vertex (hence with the edges through it), anywhere across the bounding box: inside, on or outside
                    let v = *rng.pick(&verts);
                    if rng.bool() { (sh.layer, (v.0, rng.range(by0 - 1, by1 + 1))) } else { (sh.layer, (rng.range(bx0 - 1, bx1 + 1), v.1)) }
                }
                5 => {
                    // an edge midpoint and its neighbours
                    let k = rng.usize(verts.len());
                    let (u, w) = (verts[k], verts[(k + 1) % verts.len()]);
                    (sh.layer, ((u.0 + w.0).div_euclid(2) + rng.range(-1, 1), (u.1 + w.1).div_euclid(2) + rng.range(-1, 1)))
                }
                _ => {
                    // search a nearby lattice point that is inside
                    let mut q = a;
                    for _ in 0..30 {
                        let c = (a.0 + rng.range(-40, 320), a.1 + rng.range(-40, 320));
                        if sh.geo.contains(c) == Some(true) {
                            q = c;
                            break;
                        }
                    }
                    (sh.layer, q)
                }
            };
            // mostly identifiers; a third end in letters outside ASCII (I_10µA, Entrée, RΩ): the name of the net is the label's text in lower case
            let string = format!("{}{}_{}{}", rng.pick(&["Net", "VDD", "clk", "n", "OUT"]), i, k, rng.pick(&["", "", "", "", "µA", "É", "Ω", "_шина", "é1", "_10k\u{2126}", "\u{212A}elvin", "\u{212B}ngstr", "Stra\u{1E9E}e", "\u{130}stanbul", "\u{2126}"]));
            s.elems.push(GdsTextElem { string: string.clone(), layer, texttype: rng.range(0, 5) as i16, xy: gpt(p), ..Default::default() }.into());
            texts.push((string, layer, p));
        }
        // references to earlier structs
        // flattened size of this structure so far (its own shapes; references add their target's size times their count). Arrays nest, and
        // sizes multiply: the total is kept under FLAT_CAP shapes per structure, or one case in a few thousand asks for billions of shapes
        let mut flat_here: u64 = shapes.len() as u64;
        if i > 0 {
            for _ in 0..rng.usize(4) {
                let ti = rng.usize(i);
                let target = names[ti].clone();
                let tsize: u64 = flat_count[ti];
                let reflect = rng.bool();
                let quarter = if rng.chance(1, 4) { None } else { Some(rng.range(0, 3)) };
                let loc = (rng.range(-5000, 5000), rng.range(-5000, 5000));
                if flat_here + tsize > FLAT_CAP {
                    continue;
                }
                if rng.chance(2, 3) {
                    s.elems.push(GdsStructRef { name: target, xy: gpt(loc), strans: strans_of(reflect, quarter, rng, 5), ..Default::default() }.into());
                    flat_here += tsize;
                } else {
                    let (mut cols, mut rows) = if big_arrays && rng.chance(1, 3) { if rng.chance(1, 3) { (rng.range(256, 300), rng.range(256, 262)) } else { (rng.range(150, 200), rng.range(170, 200)) } } else { (rng.range(1, 6), rng.range(1, 6)) };
                    if flat_here + (cols * rows) as u64 * tsize > FLAT_CAP {
                        cols = rng.range(1, 6);
                        rows = rng.range(1, 6);
                    }
                    if flat_here + (cols * rows) as u64 * tsize > FLAT_CAP {
                        cols = 1;
                        rows = 1;
                    }
                    flat_here += (cols * rows) as u64 * tsize;
                    let (cp, rp) = (rng.range(1, 500), rng.range(1, 500));
                    // lattice vectors: axis-aligned, rotated with the array, or arbitrary integer (skewed)
                    let (cv, rv): (P, P) = match rng.below(4) {
                        0 | 1 => ((cp, 0), (0, rp)),
                        2 => {
                            let m = IMap::instance((0, 0), false, quarter.unwrap_or(0));
                            (m.apply((cp, 0)), m.apply((0, rp)))
                        }
                        _ => ((cp, rng.range(-50, 50)), (rng.range(-50, 50), rp)),
                    };
                    let p1 = (loc.0 + cols * cv.0, loc.1 + cols * cv.1);
                    let p2 = (loc.0 + rows * rv.0, loc.1 + rows * rv.1);
                    s.elems.push(GdsArrayRef { name: target, xy: [gpt(loc), gpt(p1), gpt(p2)], cols: cols as i16, rows: rows as i16, strans: strans_of(reflect, quarter, rng, 40), ..Default::default() }.into()); // (array magnification, even 1.0, is documented unsupported: rarely generated)
                }
            }
        }
        flat_count.push(flat_here);
        own.insert(name, (shapes, texts));
        structs.push(s);
    }
    rng.shuffle(&mut structs);
    let mut lib = GdsLibrary::new("lib");
    lib.units = rng.pick(&[GdsUnits(1e-3, 1e-9), GdsUnits(1.0, 1e-6), GdsUnits(1e-4, 1e-10), GdsUnits(0.001, 1.0000000000000001e-9)]).clone();
    lib.structs = structs;
    GenLib { lib, own }
}

/// Flatten one raw cell and canonicalise, using the library's layer table for numbers
fn raw_flat(lib: &raw::Library, cell: &raw::Cell) -> Result<Vec<FlatShape>, String> {
    let layers = lib.layers.read().map_err(|_| "lock")?;
    let layout = cell.layout.as_ref().ok_or("cell without layout")?;
    let elems = layout.flatten().map_err(|e| format!("{:?}", e))?;
    elems.iter().map(|e| flat_of(&layers, e)).collect()
}
fn flat_of(layers: &raw::Layers, e: &raw::Element) -> Result<FlatShape, String> {
    let l = layers.get(e.layer).ok_or("element on unknown layer")?;
    let dtype = l.num(&e.purpose).ok_or("element purpose without number")?;
    let p = |q: &raw::Point| (q.x as i64, q.y as i64);
    let shape = match &e.inner {
        raw::Shape::Rect(r) => CShape::Poly(rect_cycle(p(&r.p0), p(&r.p1))),
        raw::Shape::Polygon(g) => CShape::Poly(canon_cycle(&g.points.iter().map(p).collect::<Vec<_>>())),
        raw::Shape::Path(g) => CShape::Path(g.points.iter().map(p).collect(), g.width as i64),
    };
    Ok(FlatShape { layer: l.layernum, dtype, shape })
}

impl C06 {
    fn check_valid(&self, cx: &mut Cx, g: &GenLib) {
        cx.eval();
        let describe = || json!({"gds": format!("{:?}", g.lib.structs).chars().take(3000).collect::<String>()});
        // one import in four goes into a layer set the caller supplies, in which some of the library's (layer, datatype) pairs already have
        // a purpose: an enumerated one, or a NAMED one (the only purpose that owns heap memory)
        let supplied: Option<raw::utils::Ptr<raw::Layers>> = if cx.rng.chance(1, 4) {
            let mut pairs: Vec<(i16, i16)> = Vec::new();
            for s in &g.lib.structs {
                for e in &s.elems {
                    let p = match e {
                        GdsElement::GdsBoundary(x) => (x.layer, x.datatype),
                        GdsElement::GdsPath(x) => (x.layer, x.datatype),
                        GdsElement::GdsBox(x) => (x.layer, x.boxtype),
                        GdsElement::GdsTextElem(x) => (x.layer, x.texttype),
                        _ => continue,
                    };
                    if !pairs.contains(&p) {
                        pairs.push(p);
                    }
                }
            }
            let mut ls = raw::Layers::default();
            let mut nums: Vec<i16> = pairs.iter().map(|p| p.0).collect();
            nums.sort();
            nums.dedup();
            for num in nums {
                if cx.rng.chance(1, 4) {
                    continue; // left for the importer to create
                }
                let mut layer = raw::Layer::new(num, format!("supplied_{}", num));
                let mut used = [false; 5];
                for (_, dt) in pairs.iter().filter(|p| p.0 == num) {
                    let purpose = match cx.rng.below(8) {
                        0 => continue,
                        1..=3 => raw::LayerPurpose::Named(format!("purpose_number_{}_of_layer_{}", dt, num), *dt),
                        4 => raw::LayerPurpose::Other(*dt),
                        k => {
                            let i = (k - 5) as usize + if cx.rng.bool() { 2 } else { 0 };
                            if used[i] {
                                continue;
                            }
                            used[i] = true;
                            [raw::LayerPurpose::Drawing, raw::LayerPurpose::Pin, raw::LayerPurpose::Label, raw::LayerPurpose::Obstruction, raw::LayerPurpose::Outline][i].clone()
                        }
                    };
                    let _ = layer.add_purpose(*dt, purpose);
                }
                ls.add(layer);
            }
            cx.count("imports_into_a_supplied_layer_set");
            Some(raw::utils::Ptr::new(ls))
        } else {
            None
        };
        let rlib = match guard(|| raw::Library::from_gds(&g.lib, supplied.clone())) {
            Err(c) => {
                cx.violation(&format!("valid|panic|{}|{}", c.site(), c.norm_msg()), json!({"panic": c.msg, "at": format!("{}:{}", c.file, c.line), "gds": describe()}));
                return;
            }
            Ok(Err(e)) => {
                // an error satisfies the statement; counted (by message) for non-vacuity
                cx.count("valid_import_err");
                let es = format!("{:?}", e);
                let msg: String = es.lines().nth(1).unwrap_or(&es).chars().filter(|c| !c.is_ascii_digit()).take(60).collect();
                cx.count(&format!("valid_import_err.{}", msg.trim()));
                return;
            }
            Ok(Ok(l)) => l,
        };
        cx.count("valid_import_ok");
        // flattening reads the library: what the cells themselves hold (elements with their purposes, instances, annotations) must be the
        // same after all the flattening below as it is now
        let own_image = |l: &raw::Library| -> String {
            l.cells
                .iter()
                .map(|c| {
                    let c = c.read().unwrap();
                    match &c.layout {
                        Some(lay) => format!("{}: {:?} {:?} {}\n", c.name, lay.elems, lay.annotations, lay.insts.len()),
                        None => format!("{}: -\n", c.name),
                    }
                })
                .collect()
        };
        let image_before = own_image(&rlib);
        if let Some((c, t)) = super::c07::foreign_target(&rlib) {
            cx.violation("valid|instance-target-is-not-a-cell-of-the-library", json!({"cell": c, "target": t}));
            return;
        }
        let fl = Flattener::new(&g.lib);
        let cells: BTreeMap<String, raw::utils::Ptr<raw::Cell>> = rlib.cells.iter().map(|c| (c.read().unwrap().name.clone(), c.clone())).collect();
        if cells.len() != g.lib.structs.len() {
            cx.violation("valid|cell-count", json!({"structs": g.lib.structs.len(), "cells": cells.len()}));
            return;
        }
        for s in &g.lib.structs {
            let want = match fl.flatten(&s.name) {
                Ok(w) => w,
                Err(HierError::Unsupported(_)) => {
                    cx.count("reference_unsupported_skipped");
                    continue;
                }
                Err(e) => {
                    cx.inconclusive(format!("generator produced an invalid hierarchy: {:?}", e));
                    return;
                }
            };
            let cell = match cells.get(&s.name) {
                Some(c) => c.read().unwrap(),
                None => {
                    cx.violation("valid|cell-missing", json!({"name": s.name}));
                    return;
                }
            };
            let got = match guard(|| raw_flat(&rlib, &cell)) {
                Err(c) => {
                    cx.violation(&format!("valid|flatten-panic|{}", c.norm_msg()), json!({"panic": c.msg, "gds": describe()}));
                    return;
                }
                Ok(Err(e)) => {
                    cx.violation("valid|flatten-error", json!({"error": e, "gds": describe()}));
                    return;
                }
                Ok(Ok(gv)) => gv,
            };
            cx.count_n("flat_shapes_compared", want.len() as u64);
            let (mut w, mut gsorted) = (want.clone(), got.clone());
            w.sort();
            gsorted.sort();
            if w != gsorted {
                // classify: what kind of placement does this struct use?
                // (arrays anywhere in the library: the struct may reach them through references)
                let all = || g.lib.structs.iter().flat_map(|t| t.elems.iter());
                let has_aref = all().any(|e| matches!(e, GdsElement::GdsArrayRef(_)));
                let rot_aref = all().any(|e| matches!(e, GdsElement::GdsArrayRef(a) if a.xy[0].y != a.xy[1].y || a.xy[0].x != a.xy[2].x));
                let ang_aref = all().any(|e| matches!(e, GdsElement::GdsArrayRef(a) if a.strans.as_ref().map_or(false, |t| t.angle.map_or(false, |x| x % 360.0 != 0.0))));
                let big_aref = all().any(|e| matches!(e, GdsElement::GdsArrayRef(a) if a.cols as i32 * a.rows as i32 > 32767));
                let class = if w.len() != gsorted.len() {
                    if rot_aref { "shape-count|array-lattice-not-axis-aligned" } else if big_aref { "shape-count|array-over-32767" } else if has_aref { "shape-count|array" } else { "shape-count" }
                } else if ang_aref {
                    "shapes-differ|array-with-angle"
                } else if has_aref {
                    "shapes-differ|array"
                } else {
                    "shapes-differ"
                };
                let only_want: Vec<String> = w.iter().filter(|x| !gsorted.contains(x)).take(3).map(|x| format!("{:?}", x)).collect();
                let only_got: Vec<String> = gsorted.iter().filter(|x| !w.contains(x)).take(3).map(|x| format!("{:?}", x)).collect();
                cx.violation(&format!("valid|{}", class), json!({"struct": s.name, "want_shapes": w.len(), "got_shapes": gsorted.len(), "only_in_reference": only_want, "only_in_import": only_got, "gds": describe()}));
                return;
            }
            // labels -> nets / annotations, on the cell's own (unflattened) elements
            let (shapes, texts) = &g.own[&s.name];
            let layout = cell.layout.as_ref().unwrap();
            let layers = rlib.layers.read().unwrap();
            let mut expect_annot: Vec<(String, P)> = Vec::new();
            let mut judged_annots = true;
            for (string, layer, p) in texts {
                let mut any = false;
                for sh in shapes.iter().filter(|sh| sh.layer == *layer) {
                    match sh.geo.contains(*p) {
                        Some(true) => any = true,
                        None => judged_annots = false,
                        _ => {}
                    }
                }
                if !any {
                    expect_annot.push((string.clone(), *p));
                }
            }
            for sh in shapes {
                let mut names: Vec<String> = Vec::new();
                let mut judged = true;
                for (string, layer, p) in texts {
                    if *layer == sh.layer {
                        match sh.geo.contains(*p) {
                            Some(true) => names.push(string.to_lowercase()),
                            None => judged = false,
                            _ => {}
                        }
                    }
                }
                names.sort();
                names.dedup();
                if !judged || names.len() > 1 {
                    cx.count("label_cases_not_judged");
                    continue;
                }
                let want_net = names.first().cloned();
                let key = FlatShape { layer: sh.layer, dtype: sh.dtype, shape: sh.geo.cshape() };
                let nets: Vec<Option<String>> = layout.elems.iter().filter(|e| flat_of(&layers, e).map_or(false, |f| f == key)).map(|e| e.net.clone()).collect();
                if nets.is_empty() {
                    cx.violation("valid|own-shape-missing", json!({"shape": format!("{:?}", key)}));
                    return;
                }
                // identical duplicate shapes share the verdict
                if nets.iter().any(|n| *n != want_net) {
                    let class = match (&want_net, &nets[0]) {
                        (Some(_), None) => "label-inside-shape-not-assigned",
                        (None, Some(_)) => "label-outside-shape-assigned",
                        _ => "label-wrong-name",
                    };
                    let on_boundary = matches!(&sh.geo, Geo::Rect(..) | Geo::Poly(..));
                    cx.violation(&format!("valid|{}|{}", class, if on_boundary { "area-shape" } else { "path" }), json!({"shape": format!("{:?}", sh.geo), "layer": sh.layer, "want": want_net, "got": nets, "texts": texts}));
                    return;
                }
                cx.count("nets_agree");
            }
            if judged_annots {
                let mut got_a: Vec<(String, P)> = layout.annotations.iter().map(|t| (t.string.clone(), (t.loc.x as i64, t.loc.y as i64))).collect();
                got_a.sort();
                expect_annot.sort();
                if got_a != expect_annot {
                    cx.violation("valid|annotations", json!({"want": expect_annot, "got": got_a}));
                    return;
                }
                cx.count("annotations_agree");
            }
        }
        // (flatten every cell once more and drop the result: a flattened element that shares heap memory with the library's own shows here)
        for c in rlib.cells.iter() {
            let c = c.read().unwrap();
            if let Some(lay) = &c.layout {
                let _ = guard(|| lay.flatten().map(|v| v.len()));
            }
        }
        let image_after = own_image(&rlib);
        if image_after != image_before {
            let k = image_before.bytes().zip(image_after.bytes()).take_while(|(a, b)| a == b).count();
            let lo = (0..=k.saturating_sub(80)).rev().find(|j| image_before.is_char_boundary(*j)).unwrap_or(0);
            let cut = |t: &str| -> String { t.get(lo..).unwrap_or("").chars().take(200).collect() };
            cx.violation("valid|flattening-changed-the-library", json!({"before": cut(&image_before), "after": String::from_utf8_lossy(&image_after.as_bytes()[lo.min(image_after.len())..]).chars().take(200).collect::<String>(), "gds": describe()}));
            return;
        }
        cx.count("libraries_agree");
    }

    fn malformed(&self, cx: &mut Cx) {
        let mut g = gen_valid(&mut cx.rng, false);
        // make sure there is a struct with at least one reference to mutate
        let n = g.lib.structs.len();
        let top = cx.rng.usize(n);
        let some_name = g.lib.structs[cx.rng.usize(n)].name.clone();
        let kinds = ["dangling-sref", "dangling-aref", "self-reference", "two-cycle", "zero-cols", "zero-rows", "negative-cols", "empty-boundary", "one-point-boundary", "open-boundary", "empty-path", "path-without-width",
            "abs-mag", "abs-angle", "mag-2", "mag-half", "aref-mag-3", "mag-just-above-one", "mag-just-below-one"];
        let kind = kinds[(cx.n as usize) % kinds.len()];
        let s = &mut g.lib.structs[top];
        let here = s.name.clone();
        match kind {
            "dangling-sref" => s.elems.push(GdsStructRef { name: "nowhere".into(), xy: gpt((1, 2)), ..Default::default() }.into()),
            "dangling-aref" => s.elems.push(GdsArrayRef { name: "nowhere".into(), xy: [gpt((0, 0)), gpt((10, 0)), gpt((0, 10))], cols: 2, rows: 2, ..Default::default() }.into()),
            "self-reference" => s.elems.push(GdsStructRef { name: here.clone(), xy: gpt((1, 2)), ..Default::default() }.into()),
            "two-cycle" => {
                s.elems.push(GdsStructRef { name: "cyc".into(), xy: gpt((1, 2)), ..Default::default() }.into());
                let mut c = GdsStruct::new("cyc");
                c.elems.push(GdsStructRef { name: here.clone(), xy: gpt((3, 4)), ..Default::default() }.into());
                g.lib.structs.push(c);
            }
            "zero-cols" | "zero-rows" | "negative-cols" => {
                let (c, r) = match kind {
                    "zero-cols" => (0, 3),
                    "zero-rows" => (3, 0),
                    _ => (-2, 3),
                };
                let mut leaf = GdsStruct::new("leafz");
                leaf.elems.push(GdsBoundary { layer: 1, datatype: 0, xy: closed(&[(0, 0), (2, 0), (2, 2), (0, 2)]), ..Default::default() }.into());
                g.lib.structs.push(leaf);
                g.lib.structs[top].elems.push(GdsArrayRef { name: "leafz".into(), xy: [gpt((0, 0)), gpt((30, 0)), gpt((0, 30))], cols: c, rows: r, ..Default::default() }.into());
            }
            "empty-boundary" => s.elems.push(GdsBoundary { layer: 1, datatype: 0, xy: vec![], ..Default::default() }.into()),
            "one-point-boundary" => s.elems.push(GdsBoundary { layer: 1, datatype: 0, xy: vec![gpt((1, 1))], ..Default::default() }.into()),
            "open-boundary" => s.elems.push(GdsBoundary { layer: 1, datatype: 0, xy: vec![gpt((0, 0)), gpt((5, 0)), gpt((5, 5)), gpt((0, 5))], ..Default::default() }.into()),
            "empty-path" => s.elems.push(GdsPath { layer: 1, datatype: 0, xy: vec![], width: Some(2), ..Default::default() }.into()),
            "path-without-width" => s.elems.push(GdsPath { layer: 1, datatype: 0, xy: vec![gpt((0, 0)), gpt((9, 0))], width: None, ..Default::default() }.into()),
            "abs-mag" | "abs-angle" | "mag-2" | "mag-half" | "aref-mag-3" | "mag-just-above-one" | "mag-just-below-one" => {
                let st = match kind {
                    "abs-mag" => GdsStrans { abs_mag: true, ..Default::default() },
                    "abs-angle" => GdsStrans { abs_angle: true, angle: Some(90.0), ..Default::default() },
                    "mag-2" => GdsStrans { mag: Some(2.0), ..Default::default() },
                    "mag-half" => GdsStrans { mag: Some(0.5), reflected: true, ..Default::default() },
                    // a magnification that is not 1 but close to it: with geometry ten million units from the origin it moves every
                    // point by five units and more, so "close enough to 1" is not a reason to ignore it
                    "mag-just-above-one" => GdsStrans { mag: Some(1.0000005), ..Default::default() },
                    "mag-just-below-one" => GdsStrans { mag: Some(0.9999995), reflected: true, ..Default::default() },
                    _ => GdsStrans { mag: Some(3.0), ..Default::default() },
                };
                let mut leaf = GdsStruct::new("leafm");
                leaf.elems.push(GdsBoundary { layer: 1, datatype: 0, xy: closed(&[(0, 0), (4, 0), (4, 4), (0, 4)]), ..Default::default() }.into());
                if kind.starts_with("mag-just") {
                    leaf.elems.push(GdsBoundary { layer: 1, datatype: 0, xy: closed(&[(10_000_000, 12_000_000), (20_000_000, 12_000_000), (20_000_000, 18_000_000), (10_000_000, 18_000_000)]), ..Default::default() }.into());
                }
                g.lib.structs.insert(0, leaf);
                let top = &mut g.lib.structs[top + 1];
                if kind == "aref-mag-3" {
                    top.elems.push(GdsArrayRef { name: "leafm".into(), xy: [gpt((0, 0)), gpt((40, 0)), gpt((0, 40))], cols: 2, rows: 2, strans: Some(st), ..Default::default() }.into());
                } else {
                    top.elems.push(GdsStructRef { name: "leafm".into(), xy: gpt((7, 9)), strans: Some(st), ..Default::default() }.into());
                }
            }
            _ => {}
        }
        let _ = some_name;
        cx.eval();
        cx.nontrivial(crate::rt::prng::strhash(&format!("{}{:?}", kind, g.lib.structs)));
        cx.count(&format!("malformed.{}", kind));
        match guard(|| raw::Library::from_gds(&g.lib, None)) {
            Err(c) => cx.violation(&format!("malformed|{}|panic|{}|{}", kind, c.site(), c.norm_msg()), json!({"kind": kind, "panic": c.msg, "at": format!("{}:{}", c.file, c.line)})),
            Ok(Ok(_)) => cx.violation(&format!("malformed|{}|accepted", kind), json!({"kind": kind, "struct": here})),
            Ok(Err(_)) => cx.count("malformed_rejected"),
        }
        cx.sample(|| json!({"malformed": kind}));
    }
}

impl Prop for C06 {
    fn id(&self) -> &'static str {
        "C06"
    }
    fn rule(&self) -> String {
        "GDSII libraries built directly as gds21 values: 1-5 structures in shuffled listing order, acyclic references 1-4 levels deep; leaf content: rectangles as boundaries clockwise and counter-clockwise from any start corner, polyomino-outline polygons, boxes, Manhattan paths with width; SREFs in all 8 right-angle orientations (angle absent/0/90/180/270 +-360, reflected or not, MAG 1 present or absent); \
         AREFs 1-5 x 1-5 and (generator big-arrays) 150-200 x 170-200 (> 32767 placements) with axis-aligned, array-rotated and skewed integer lattices; text labels inside a shape, on a vertex, far outside, on another layer. Oracle: for every structure, the multiset of (layer, datatype, canonical shape) from Layout::flatten of the imported cell equals the GDSII-semantics flattening (refs/hier.rs); each own shape's net = the lower-cased label inside it (refs/geom.rs), other labels are annotations. \
         Malformed generator (isolated child processes): dangling/self/cyclic references, zero/negative rows or columns, empty/one-point/open boundaries, empty path, path without width, absolute-magnification/angle flags, magnification != 1 => required outcome Err. distinct_nontrivial = distinct libraries (hash) with at least one reference or label."
            .into()
    }
    fn assumptions(&self) -> Vec<String> {
        vec![
            "right-angle orientations only in the exact oracle; other angles are counted as skipped".into(),
            "label membership uses exact closed containment; labels in a path's end-cap band, and shapes holding two different label names, are not judged".into(),
            "an Err from from_gds on a valid library satisfies the statement (counted; the run is inconclusive if fewer than half of the valid libraries import)".into(),
        ]
    }
    fn miri_gen(&self) -> Option<&'static str> {
        Some("valid")
    }
    fn plan(&self, tier: Tier) -> Vec<GenSpec> {
        vec![
            GenSpec::random("valid", tier.pick(20_000, 400_000)),
            GenSpec::random("big-arrays", tier.pick(16, 400)),
            GenSpec::random("malformed", tier.pick(170, 3_400)).isolated(),
        ]
    }
    fn case_timeout_secs(&self) -> u64 {
        60
    }
    fn run_case(&self, cx: &mut Cx) {
        match cx.gen.as_str() {
            "valid" | "big-arrays" => {
                let g = gen_valid(&mut cx.rng, cx.gen == "big-arrays");
                let interesting = g.lib.structs.iter().any(|s| s.elems.iter().any(|e| matches!(e, GdsElement::GdsStructRef(_) | GdsElement::GdsArrayRef(_) | GdsElement::GdsTextElem(_))));
                if interesting {
                    cx.nontrivial(crate::rt::prng::strhash(&format!("{:?}", g.lib.structs)));
                }
                self.check_valid(cx, &g);
                cx.sample(|| json!({"structs": g.lib.structs.iter().map(|s| format!("{}: {} elems", s.name, s.elems.len())).collect::<Vec<_>>()}));
            }
            "malformed" => self.malformed(cx),
            other => cx.inconclusive(format!("unknown generator {}", other)),
        }
    }
    fn finish(&self, total: &mut Rec, _tier: Tier) {
        let ok = total.counters.get("valid_import_ok").copied().unwrap_or(0);
        let err = total.counters.get("valid_import_err").copied().unwrap_or(0);
        if ok + err > 0 && ok * 2 < ok + err {
            total.inconclusive.push(format!("non-vacuity: only {} of {} valid libraries were imported", ok, ok + err));
        }
    }
}
