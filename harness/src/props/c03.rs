//! C03 — every grammar-conformant GDSII stream is read to exactly the content it encodes.

use crate::gen::gdsgen::*;
use crate::refs::gdsstream::*;
use crate::rt::*;
use gds21::GdsLibrary;
use serde_json::json;

pub struct C03;

impl C03 {
    fn check(&self, cx: &mut Cx, ast: &NLib, opts: &EncOpts, via_file: bool, desc: &str) {
        cx.eval();
        let want = match ast_to_lib(ast) {
            Some(l) => l,
            None => {
                cx.inconclusive("generator produced an AST outside the gds21 data model");
                return;
            }
        };
        let bytes = encode(ast, opts).out;
        for s in &ast.structs {
            for e in &s.elems {
                cx.nontrivial(elem_bucket(e) ^ 0x0303);
            }
        }
        cx.nontrivial(crate::rt::prng::byteshash(&bytes));
        cx.count_n("bytes_fed", bytes.len() as u64);
        let path = cx.tmp("c03.gds");
        let r = guard(|| {
            if via_file {
                std::fs::write(&path, &bytes).unwrap();
                GdsLibrary::open(&path)
            } else {
                GdsLibrary::from_bytes(&bytes)
            }
        });
        if via_file {
            let _ = std::fs::remove_file(&path);
        }
        match r {
            Err(c) => cx.violation(&format!("read-panic|{}|{}", c.site(), c.norm_msg()), json!({"case": desc, "panic": c.msg, "at": format!("{}:{}", c.file, c.line), "bytes": render_bytes(&bytes)})),
            Ok(Err(e)) => cx.violation(&format!("rejected|{}", err_class(&e)), json!({"case": desc, "error": format!("{:?}", e).chars().take(300).collect::<String>(), "bytes": render_bytes(&bytes)})),
            Ok(Ok(got)) => match lib_diff(&want, &got) {
                Some((class, at)) => cx.violation(&format!("misread|{}", class), json!({"case": desc, "at": at, "bytes": render_bytes(&bytes)})),
                None => cx.count(if via_file { "read_ok_file" } else { "read_ok" }),
            },
        }
    }
    /// The same stream delivered through a named pipe, cut inside the payload of randomly chosen records (for a two-byte payload that is
    /// between its two bytes): `open(path)` must return what the reference decoder makes of the bytes.
    fn check_pipe(&self, cx: &mut Cx, ast: &NLib, desc: &str) {
        cx.eval();
        let want = match ast_to_lib(ast) {
            Some(l) => l,
            None => return,
        };
        let bytes = encode(ast, &EncOpts::default()).out;
        // record offsets
        let mut offs = Vec::new();
        let mut pos = 0;
        while pos + 4 <= bytes.len() {
            let l = u16::from_be_bytes([bytes[pos], bytes[pos + 1]]) as usize;
            if l < 4 {
                break;
            }
            offs.push((pos, l));
            pos += l;
        }
        let with_payload: Vec<(usize, usize)> = offs.iter().cloned().filter(|(_, l)| *l > 5).collect();
        if with_payload.is_empty() {
            return;
        }
        let mut cuts: Vec<usize> = (0..1 + cx.rng.usize(3))
            .map(|_| {
                let (o, l) = *cx.rng.pick(&with_payload);
                o + 5 + cx.rng.usize(l - 5)
            })
            .collect();
        cuts.sort();
        cuts.dedup();
        cx.nontrivial(crate::rt::prng::byteshash(&bytes) ^ cuts.iter().fold(0u64, |a, c| a.wrapping_mul(31).wrapping_add(*c as u64)));
        let path = cx.tmp("c03.pipe");
        let r = with_fifo(&path, &bytes, &cuts, |p| guard(|| GdsLibrary::open(p)));
        let detail = |what: String| json!({"case": desc, "what": what, "cuts": cuts, "bytes": render_bytes(&bytes)});
        match r {
            None => cx.count("named_pipe_unavailable"),
            Some(Err(c)) => cx.violation(&format!("named-pipe|read-panic|{}|{}", c.site(), c.norm_msg()), detail(c.msg.clone())),
            Some(Ok(Err(e))) => cx.violation(&format!("named-pipe|rejected|{}", err_class(&e)), detail(format!("{:?}", e).chars().take(300).collect())),
            Some(Ok(Ok(got))) => match lib_diff(&want, &got) {
                Some((class, at)) => cx.violation(&format!("named-pipe|misread|{}", class), detail(at)),
                None => cx.count("read_ok_named_pipe"),
            },
        }
    }
    fn unsupported_case(i: u64, rng: &mut Rng) -> (String, NLibOpt) {
        match i % 9 {
            0 => ("LIBDIRSIZE".into(), NLibOpt::LibDirSize(rand_i16(rng))),
            1 => ("SRFNAME".into(), NLibOpt::SrfName(rand_name(rng))),
            2 => ("LIBSECUR".into(), NLibOpt::LibSecur(vec![rand_i16(rng)])),
            3 => ("REFLIBS".into(), NLibOpt::RefLibs(rand_string(rng, 44, StrClass::Ascii))),
            4 => ("FONTS".into(), NLibOpt::Fonts(rand_string(rng, 44, StrClass::Ascii))),
            5 => ("ATTRTABLE".into(), NLibOpt::AttrTable(rand_name(rng))),
            6 => ("GENERATIONS".into(), NLibOpt::Generations(rand_i16(rng))),
            7 => ("FORMAT".into(), NLibOpt::Format(rng.range(0, 3) as i16, vec![])),
            _ => ("FORMAT+MASK".into(), NLibOpt::Format(1, vec![b"1 5-7 10 ; 0-63".to_vec(), b"0-3".to_vec()])),
        }
    }
}

impl Prop for C03 {
    fn id(&self) -> &'static str {
        "C03"
    }
    fn rule(&self) -> String {
        format!("Streams produced by an independent BNF-driven encoder (refs/gdsstream.rs) from generated neutral ASTs: the {}-case sweep (every element kind x optional-record subset x strans variants x 0/1/3 properties), seeded random libraries \
        (strings of length 0..40 odd and even incl. empty, UTF-8, any 16-bit dates, normalised reals with up to 56 significant bits), trailing-padding cases (0..4096 bytes of zeros or noise after ENDLIB), a tmpfs-file leg through GdsLibrary::open, \
        and streams carrying each unsupported library-level record (LIBDIRSIZE, SRFNAME, LIBSECUR, REFLIBS, FONTS, ATTRTABLE, GENERATIONS, FORMAT, FORMAT+MASK..ENDMASKS) for which the required outcome is Err. \
        Oracle: from_bytes must be Ok and field-for-field equal to the value the AST denotes (reals = correctly rounded double, compared by bits). distinct_nontrivial = distinct (kind x optional mask) buckets plus distinct byte streams.", sweep_count())
    }
    fn assumptions(&self) -> Vec<String> {
        vec![
            "only streams the reference encoder can produce (records in BNF order, ASCII/UTF-8 strings, no STRCLASS); other record orders are not claimed".into(),
            "trusted base: refs/gdsstream.rs encoder + refs/gdsreal.rs".into(),
        ]
    }
    fn miri_gen(&self) -> Option<&'static str> {
        Some("random")
    }
    fn plan(&self, tier: Tier) -> Vec<GenSpec> {
        vec![
            GenSpec::enumerated("sweep", sweep_count()),
            GenSpec::random("random", tier.pick(200_000, 4_000_000)),
            GenSpec::random("trailing", tier.pick(2_000, 100_000)),
            GenSpec::random("random-file", tier.pick(500, 20_000)),
            // the stream read from a named pipe that delivers it in pieces (a non-seekable, short-reading source)
            GenSpec::random("named-pipe", tier.pick(160, 4_000)),
            GenSpec::random("unsupported", tier.pick(900, 45_000)),
            // one record between 32 KiB and the record limit, as another writer may emit
            GenSpec::random("big-records", tier.pick(24, 600)),
            // one long, mostly non-ASCII string (4 KiB..64 KiB) in each string-valued field
            GenSpec::random("long-strings", tier.pick(160, 4_000)),
            // streams of 10..100 KB with hundreds of small records (references with MAG/ANGLE, texts, properties), read from a FILE:
            // records and their payloads then straddle every buffer size a buffered reader may use
            GenSpec::random("large-files", tier.pick(120, 3_000)),
            // the same reads with the process's time zone set to places far from UTC (dates in a stream are plain numbers, not instants)
            GenSpec::random("time-zones", tier.pick(24, 600)),
            GenSpec::random("tz-child", 0),
        ]
    }
    fn run_case(&self, cx: &mut Cx) {
        let cfg = GenCfg::small(StrClass::Mixed, true);
        match cx.gen.as_str() {
            "sweep" => {
                let (ast, desc) = sweep_case(cx.n, &mut cx.rng, &cfg);
                self.check(cx, &ast, &EncOpts::default(), false, &desc);
                cx.sample(|| json!({"sweep": desc}));
            }
            "random" | "random-file" => {
                let ast = rand_lib(&mut cx.rng, &cfg);
                let via_file = cx.gen == "random-file";
                self.check(cx, &ast, &EncOpts::default(), via_file, "random stream");
                cx.sample(|| json!({"stream_of": format!("{:?}", ast).chars().take(600).collect::<String>()}));
            }
            "named-pipe" => {
                let ast = rand_lib(&mut cx.rng, &cfg);
                self.check_pipe(cx, &ast, "random stream through a named pipe");
                cx.sample(|| json!({"stream_of": format!("{:?}", ast).chars().take(300).collect::<String>()}));
            }
            "big-records" => {
                let (ast, what) = big_record_lib(&mut cx.rng);
                cx.count(&format!("big_{}_records", what));
                let via_file = cx.rng.bool();
                self.check(cx, &ast, &EncOpts::default(), via_file, "one record of 32 KiB..64 KiB");
                cx.sample(|| json!({"big_record": what}));
            }
            "long-strings" => {
                let (ast, which) = long_string_lib(&mut cx.rng);
                cx.count(&format!("long_string_in_{}", which));
                let via_file = cx.rng.bool();
                self.check(cx, &ast, &EncOpts::default(), via_file, "one long non-ASCII string");
                cx.sample(|| json!({"long_string_field": which}));
            }
            "large-files" => {
                let cfgl = GenCfg { strclass: StrClass::Mixed, maxstr: 24, wide_reals: true, max_structs: 1, max_elems: 0, max_pts: 6 };
                let n = 250 + cx.rng.usize(1800);
                // a lead-in string of random length slides everything that follows across the block boundaries
                let lead = 1 + cx.rng.usize(64);
                let mut elems = Vec::with_capacity(n + 1);
                elems.push(NElem { elflags: None, plex: None, kind: NKind::Text { layer: 1, texttype: 0, presentation: None, pathtype: None, width: None, strans: None, xy: vec![0, 0], string: vec![b'L'; lead] }, props: vec![] });
                for _ in 0..n {
                    // mostly references and texts (STRANS + MAG + ANGLE, strings), some of every other kind
                    let kind = *cx.rng.pick(&[2usize, 2, 3, 4, 4, 0, 1, 5, 6]);
                    elems.push(rand_elem(&mut cx.rng, &cfgl, kind, None, None, None, &[]));
                }
                let ast = NLib { version: 600, dates: [1; 12], name: b"large".to_vec(), units: (crate::refs::gdsreal::encode_ref(1e-3).unwrap(), crate::refs::gdsreal::encode_ref(1e-9).unwrap()), structs: vec![NStruct { dates: [1; 12], name: b"s".to_vec(), elems }], ..Default::default() };
                self.check(cx, &ast, &EncOpts::default(), true, "large stream read from a file");
                cx.count("large_files_read");
                cx.sample(|| json!({"large_file_elements": n}));
            }
            "time-zones" => {
                // a child process whose TZ is set before it starts (the C library and chrono read it once) runs 40 reads of valid-date streams
                let zone = *cx.rng.pick(&["JST-9", "EST5EDT,M3.2.0,M11.1.0", "NST3:30", "<+1245>-12:45", "UTC+12", "CET-1CEST,M3.5.0,M10.5.0/3"]);
                match crate::rt::run::spawn_one_env("C03", cx.tier, cx.seed, "tz-child", cx.n, &cx.scratch, std::time::Duration::from_secs(60), &[("TZ", zone)]) {
                    crate::rt::run::ChildEnd::Ok(r) => {
                        cx.count_n("reads_under_foreign_time_zone", r.counters.get("read_ok").copied().unwrap_or(0));
                        cx.count(&format!("time_zone.{}", zone.chars().take(6).collect::<String>()));
                        cx.evals(r.evaluations);
                        for v in r.violations {
                            cx.violation(&format!("tz|{}", v.signature.splitn(2, '|').nth(1).unwrap_or("?")), json!({"TZ": zone, "child": v.detail}));
                        }
                    }
                    other => cx.inconclusive(format!("time-zone child failed: {:?}", other)),
                }
                cx.nontrivial(cx.n ^ crate::rt::prng::strhash(zone));
            }
            "tz-child" => {
              for _ in 0..40 {
                let mut ast = rand_lib(&mut cx.rng, &cfg);
                // valid calendar dates (that is when a time-zone conversion could apply), incl. the ends of days, months and years
                let mut date = |rng: &mut Rng| -> [i16; 6] {
                    match rng.below(4) {
                        0 => [99, 12, 31, 23, 59, 59],
                        1 => [100, 1, 1, 0, 0, 0],
                        2 => [124, 3, 10, 2, 30, 0],
                        _ => [rng.range(70, 137) as i16, rng.range(1, 12) as i16, rng.range(1, 28) as i16, rng.range(0, 23) as i16, rng.range(0, 59) as i16, rng.range(0, 59) as i16],
                    }
                };
                let (a, b) = (date(&mut cx.rng), date(&mut cx.rng));
                ast.dates[..6].copy_from_slice(&a);
                ast.dates[6..].copy_from_slice(&b);
                for st in ast.structs.iter_mut() {
                    let (a, b) = (date(&mut cx.rng), date(&mut cx.rng));
                    st.dates[..6].copy_from_slice(&a);
                    st.dates[6..].copy_from_slice(&b);
                }
                self.check(cx, &ast, &EncOpts::default(), false, "valid dates read under a foreign time zone");
              }
            }
            "trailing" => {
                let ast = rand_lib(&mut cx.rng, &cfg);
                let n = match cx.rng.below(6) {
                    0 => 0,
                    1 => 1,
                    2 => 2,
                    3 => 3,
                    4 => 2048 - (encode(&ast, &EncOpts::default()).out.len() % 2048),
                    _ => cx.rng.usize(4097),
                };
                let noise = cx.rng.chance(1, 3);
                let trailing: Vec<u8> = (0..n).map(|_| if noise { cx.rng.u32() as u8 } else { 0 }).collect();
                let desc = format!("{} trailing {} bytes", n, if noise { "noise" } else { "zero" });
                cx.count(if noise { "trailing_noise" } else { "trailing_zero" });
                self.check(cx, &ast, &EncOpts { trailing }, false, &desc);
                cx.sample(|| json!({"trailing": desc}));
            }
            "unsupported" => {
                let mut ast = rand_lib(&mut cx.rng, &cfg);
                let (name, opt) = Self::unsupported_case(cx.n, &mut cx.rng);
                ast.opts.push(opt);
                let bytes = encode(&ast, &EncOpts::default()).out;
                cx.eval();
                cx.nontrivial(crate::rt::prng::byteshash(&bytes));
                // sanity of the generator: the reference decoder accepts the stream as grammar-conformant
                if let Err(e) = decode(&bytes, false) {
                    cx.inconclusive(format!("reference decoder rejects its own encoder's stream: {}", e));
                    return;
                }
                match guard(|| GdsLibrary::from_bytes(&bytes)) {
                    Err(c) => cx.violation(&format!("unsupported-panic|{}|{}", name, c.norm_msg()), json!({"record": name, "panic": c.msg})),
                    Ok(Ok(_)) => cx.violation(&format!("unsupported-accepted|{}", name), json!({"record": name, "bytes": render_bytes(&bytes)})),
                    Ok(Err(_)) => cx.count(&format!("unsupported_err.{}", name)),
                }
                cx.sample(|| json!({"unsupported_record": name}));
            }
            other => cx.inconclusive(format!("unknown generator {}", other)),
        }
    }
    fn finish(&self, total: &mut Rec, _tier: Tier) {
        if total.counters.get("read_ok").copied().unwrap_or(0) == 0 && total.violations.is_empty() {
            total.inconclusive.push("no stream was read successfully".into());
        }
    }
}
