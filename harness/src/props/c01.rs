//! C01 — GDSII write-then-read returns the library that was written.

use crate::gen::gdsgen::*;
use crate::refs::gdsstream::*;
use crate::rt::*;
use gds21::GdsLibrary;
use serde_json::json;

pub struct C01;

pub const REPO_GDS: &[&str] = &[
    "/repo/gds21/resources/sample1.gds",
    "/repo/gds21/resources/invalid_dates.gds",
    "/repo/layout21raw/resources/dff1_lib.golden.gds",
    "/repo/layout21converters/resources/sky130_fd_sc_hd__dfxtp_1.gds",
];

/// Limit probes: (description, library). Payload sizes around the 65535-byte record limit.
pub fn limit_case(i: u64) -> (String, NLib) {
    let mk = |e: NElem| NLib {
        version: 600,
        name: b"limits".to_vec(),
        units: (crate::refs::gdsreal::encode_ref(1e-3).unwrap(), crate::refs::gdsreal::encode_ref(1e-9).unwrap()),
        structs: vec![NStruct { dates: [0; 12], name: b"s".to_vec(), elems: vec![e] }],
        ..Default::default()
    };
    let xyn = |n: usize| (0..2 * n).map(|k| k as i32 - 7).collect::<Vec<i32>>();
    let strn = |n: usize| (0..n).map(|k| b'a' + (k % 26) as u8).collect::<Vec<u8>>();
    let npts = [8189usize, 8190, 8191, 8192, 8193, 20000];
    let slens = [65528usize, 65529, 65530, 65531, 65532, 65533, 65536, 70000];
    let i = i as usize;
    if i < 6 {
        (format!("boundary with {} points", npts[i]), mk(NElem { elflags: None, plex: None, kind: NKind::Boundary { layer: 1, datatype: 0, xy: xyn(npts[i]) }, props: vec![] }))
    } else if i < 12 {
        let n = npts[i - 6];
        (format!("path with {} points", n), mk(NElem { elflags: None, plex: None, kind: NKind::Path { layer: 1, datatype: 0, pathtype: None, width: Some(2), bgnextn: None, endextn: None, xy: xyn(n) }, props: vec![] }))
    } else if i < 20 {
        let n = slens[i - 12];
        (format!("text string of {} bytes", n), mk(NElem { elflags: None, plex: None, kind: NKind::Text { layer: 1, texttype: 0, presentation: None, pathtype: None, width: None, strans: None, xy: vec![0, 0], string: strn(n) }, props: vec![] }))
    } else if i < 28 {
        let n = slens[i - 20];
        (format!("property value of {} bytes", n), mk(NElem { elflags: None, plex: None, kind: NKind::Boundary { layer: 1, datatype: 0, xy: xyn(4) }, props: vec![(1, strn(n))] }))
    } else if i < 36 {
        let n = slens[(i - 28) % 8];
        let mut l = mk(NElem { elflags: None, plex: None, kind: NKind::Sref { sname: strn(n), strans: None, xy: vec![1, 2] }, props: vec![] });
        l.name = strn(n);
        (format!("library and structure-reference names of {} bytes", n), l)
    } else if i < 44 {
        // each long name alone, so that one record's failure cannot hide behind another's
        let n = slens[i - 36];
        let mut l = mk(NElem { elflags: None, plex: None, kind: NKind::Boundary { layer: 1, datatype: 0, xy: xyn(4) }, props: vec![] });
        l.name = strn(n);
        (format!("library name alone of {} bytes", n), l)
    } else if i < 52 {
        let n = slens[i - 44];
        let mut l = mk(NElem { elflags: None, plex: None, kind: NKind::Boundary { layer: 1, datatype: 0, xy: xyn(4) }, props: vec![] });
        l.structs[0].name = strn(n);
        (format!("structure name alone of {} bytes", n), l)
    } else {
        let n = slens[(i - 52) % 8];
        (format!("array-reference name of {} bytes", n), mk(NElem { elflags: None, plex: None, kind: NKind::Aref { sname: strn(n), strans: None, cols: 2, rows: 2, xy: vec![0, 0, 10, 0, 0, 10] }, props: vec![] }))
    }
}
pub const N_LIMITS: u64 = 60;

impl C01 {
    fn check(&self, cx: &mut Cx, lib: &GdsLibrary, in_limit: bool, via_file: bool, desc: &str) {
        cx.eval();
        let path = cx.tmp("c01.gds");
        // history dimension: 0 fresh path, 1 over a much longer file, 2 over a different file of exactly the same length
        let stale = cx.n % 3;
        if via_file && stale > 0 {
            cx.count(if stale == 1 { "saved_over_existing_longer_file" } else { "saved_over_existing_same_length_file" });
        }
        let (short_sink, self_n) = (!via_file && cx.n % 8 == 5, cx.n);
        if short_sink {
            cx.count("written_to_short_sink_too");
        }
        let written = guard(|| -> Result<Vec<u8>, String> {
            if via_file {
                // history dimension: every other case saves over an existing, much longer file
                if stale == 1 {
                    std::fs::write(&path, vec![0xA5u8; 300_000]).map_err(|e| e.to_string())?;
                } else if stale == 2 {
                    let mut same = Vec::new();
                    if lib.write(&mut same).is_ok() {
                        std::fs::write(&path, vec![0xA5u8; same.len()]).map_err(|e| e.to_string())?;
                    }
                }
                lib.save(&path).map_err(|e| format!("{:?}", e))?;
                let on_disk = std::fs::read(&path).map_err(|e| e.to_string())?;
                let mut buf = Vec::new();
                if lib.write(&mut buf).is_ok() && buf != on_disk {
                    return Err(format!("SAVE-DIFFERS-FROM-WRITE file={} bytes, write()={} bytes", on_disk.len(), buf.len()));
                }
                Ok(on_disk)
            } else {
                let mut buf = Vec::new();
                lib.write(&mut buf).map_err(|e| format!("{:?}", e))?;
                // equivalent destination: a sink that takes only a few bytes per call must receive the very same stream
                if short_sink {
                    let mut sw = ShortWriter { inner: Vec::new(), max: 1 + (self_n % 13) as usize };
                    if lib.write(&mut sw).is_ok() && sw.inner != buf {
                        return Err(format!("SHORT-SINK-DIFFERS sink={} bytes, vec={} bytes", sw.inner.len(), buf.len()));
                    }
                    // ... and a destination that runs full part-way: success may only be reported if every byte arrived
                    if !buf.is_empty() {
                        let mut fd = FullDisk { inner: Vec::new(), cap: (self_n as usize * 7919) % buf.len() };
                        if lib.write(&mut fd).is_ok() {
                            return Err(format!("SHORT-SINK-DIFFERS write reported success although the destination ran full after {} of {} bytes", fd.inner.len(), buf.len()));
                        }
                    }
                }
                Ok(buf)
            }
        });
        let buf = match written {
            Err(c) => {
                cx.violation(&format!("write-panic|{}|{}", c.site(), c.norm_msg()), json!({"case": desc, "panic": c.msg, "at": format!("{}:{}", c.file, c.line)}));
                return;
            }
            Ok(Err(e)) if e.starts_with("SHORT-SINK-DIFFERS") => {
                cx.violation("write-to-short-sink-differs", json!({"case": desc, "what": e}));
                return;
            }
            Ok(Err(e)) if e.starts_with("SAVE-DIFFERS-FROM-WRITE") => {
                let _ = std::fs::remove_file(&path);
                cx.violation("save-file-differs-from-write", json!({"case": desc, "what": e, "saved_over_existing_file_mode": stale}));
                return;
            }
            Ok(Err(e)) => {
                cx.count(if in_limit { "write_err_in_limit" } else { "write_err_over_limit" });
                if in_limit {
                    cx.sample(|| json!({"case": desc, "write_error": e}));
                }
                return;
            }
            Ok(Ok(b)) => b,
        };
        cx.count(if in_limit { "write_ok_in_limit" } else { "write_ok_over_limit" });
        let back = guard(|| if via_file { GdsLibrary::open(&path) } else { GdsLibrary::from_bytes(&buf) });
        if via_file {
            let _ = std::fs::remove_file(&path);
        }
        match back {
            Err(c) => cx.violation(
                &format!("read-panic|{}|{}", c.site(), c.norm_msg()),
                json!({"case": desc, "panic": c.msg, "at": format!("{}:{}", c.file, c.line), "bytes": render_bytes(&buf)}),
            ),
            Ok(Err(e)) => cx.violation(&format!("read-error|{}", err_class(&e)), json!({"case": desc, "error": format!("{:?}", e).chars().take(300).collect::<String>(), "bytes": render_bytes(&buf)})),
            Ok(Ok(l2)) => match lib_diff(lib, &l2) {
                Some((class, at)) => cx.violation(&format!("mismatch|{}", class), json!({"case": desc, "at": at, "bytes": render_bytes(&buf)})),
                None => cx.count(if via_file { "roundtrip_ok_file" } else { "roundtrip_ok" }),
            },
        }
    }
    fn run_ast(&self, cx: &mut Cx, ast: &NLib, via_file: bool, desc: &str) {
        let lib = match ast_to_lib(ast) {
            Some(l) => l,
            None => {
                cx.inconclusive("generator produced an AST outside the gds21 data model");
                return;
            }
        };
        for s in &ast.structs {
            for e in &s.elems {
                cx.nontrivial(elem_bucket(e) ^ 0x0101);
            }
        }
        cx.nontrivial(ast_hash(ast));
        let in_limit = max_payload(ast) + 4 <= 65535;
        self.check(cx, &lib, in_limit, via_file, desc);
    }
}

impl Prop for C01 {
    fn id(&self) -> &'static str {
        "C01"
    }
    fn rule(&self) -> String {
        format!("GdsLibrary values built from generated neutral ASTs: a deterministic sweep of every element kind x every optional-record subset x strans absent/32 flag-mag-angle combinations x 0/1/3 properties ({} cases, exhaustive), \
        limit probes around the 65535-byte record limit ({} cases), seeded random libraries (0-4 structures, 0-8 elements, strings 0-40 bytes over ASCII/2-4-byte UTF-8/interior NUL incl. empty and odd lengths, \
        coordinates over the full i32 range, any i16 dates, reals over the whole GDSII range), a save/open leg through a tmpfs file, and the repository's .gds files. \
        Oracle: write -> from_bytes must be Ok and field-for-field equal (reals by bit pattern). distinct_nontrivial = distinct (element kind x optional-record presence mask) buckets plus distinct library ASTs.", sweep_count(), N_LIMITS)
    }
    fn assumptions(&self) -> Vec<String> {
        vec![
            "strings whose last byte is NUL at even length are outside the domain (GDSII cannot represent them: NUL is the pad byte)".into(),
            "reals restricted to the GDSII range (statement excludes others); +0/-0 identified".into(),
            "a write that returns Err satisfies the statement; the run is inconclusive if fewer than 90% of in-limit cases were written successfully".into(),
        ]
    }
    fn miri_gen(&self) -> Option<&'static str> {
        Some("random")
    }
    fn plan(&self, tier: Tier) -> Vec<GenSpec> {
        vec![
            GenSpec::enumerated("sweep", sweep_count()),
            GenSpec::enumerated("limits", N_LIMITS),
            // one long, mostly non-ASCII string (4 KiB..64 KiB) in each string-valued field
            GenSpec::random("long-strings", tier.pick(160, 4_000)),
            GenSpec::enumerated("repo-files", REPO_GDS.len() as u64),
            GenSpec::random("random", tier.pick(200_000, 4_000_000)),
            GenSpec::random("random-file", tier.pick(500, 20_000)),
        ]
    }
    fn run_case(&self, cx: &mut Cx) {
        let cfg = GenCfg::small(StrClass::Mixed, false);
        match cx.gen.as_str() {
            "sweep" => {
                let (ast, desc) = sweep_case(cx.n, &mut cx.rng, &cfg);
                self.run_ast(cx, &ast, false, &desc);
                cx.sample(|| json!({"sweep": desc}));
            }
            "long-strings" => {
                let (ast, which) = long_string_lib(&mut cx.rng);
                cx.count(&format!("long_string_in_{}", which));
                let via_file = cx.rng.bool();
                self.run_ast(cx, &ast, via_file, "one long non-ASCII string");
                cx.sample(|| json!({"long_string_field": which}));
            }
            "limits" => {
                let (desc, ast) = limit_case(cx.n);
                self.run_ast(cx, &ast, false, &desc);
                cx.sample(|| json!({"limit": desc}));
            }
            "repo-files" => {
                let p = REPO_GDS[cx.n as usize];
                match std::fs::read(p) {
                    Ok(bytes) if !bytes.is_empty() => match guard(|| GdsLibrary::from_bytes(&bytes)) {
                        Ok(Ok(lib)) => {
                            cx.nontrivial(crate::rt::prng::byteshash(&bytes));
                            cx.count("repo_files_read");
                            self.check(cx, &lib, true, false, p);
                            cx.sample(|| json!({"file": p, "structs": lib.structs.len()}));
                        }
                        Ok(Err(e)) => cx.violation("repo-file-rejected", json!({"file": p, "error": format!("{:?}", e)})),
                        Err(c) => cx.violation(&format!("repo-file-panic|{}", c.norm_msg()), json!({"file": p, "panic": c.msg})),
                    },
                    _ => cx.count("repo_files_missing"),
                }
            }
            "random" | "random-file" => {
                let ast = rand_lib(&mut cx.rng, &cfg);
                let via_file = cx.gen == "random-file";
                self.run_ast(cx, &ast, via_file, "random library");
                cx.sample(|| json!({"library": format!("{:?}", ast).chars().take(600).collect::<String>()}));
            }
            other => cx.inconclusive(format!("unknown generator {}", other)),
        }
    }
    fn finish(&self, total: &mut Rec, _tier: Tier) {
        let ok = total.counters.get("write_ok_in_limit").copied().unwrap_or(0);
        let err = total.counters.get("write_err_in_limit").copied().unwrap_or(0);
        if ok + err == 0 || (ok as f64) < 0.9 * (ok + err) as f64 {
            total.inconclusive.push(format!("non-vacuity: only {} of {} in-limit libraries were written successfully", ok, ok + err));
        }
    }
}
