//! C18 — JSON and YAML copies of GDSII and LEF libraries are lossless.

use super::c04::open_text;
use crate::gen::gdsgen::*;
use crate::gen::lefgen::*;
use crate::refs::gdsstream::*;
use crate::rt::*;
use gds21::GdsLibrary;
use layout21utils::SerializationFormat;
use lef21::LefLibrary;
use serde_json::json;

pub struct C18;

const HOSTILE: &[&str] = &[
    "\"", "'", ": ", " #", "#", "\\", "\\n", " lead", "trail ", "\n", "\n\n", " \n \n", "\r\n", "\t", "~", "null", "true", "false", "1e3", "0x1f", "-", "- a", "? ", "?", "|", ">", "&a", "*a", "!t", "%", "@", "`",
    "\u{85}", "\u{2028}", "\u{2029}", "\u{FEFF}", "😀", "é", "中", "{", "}", "[", "]", ",", "---", "...", "0", "1.0", ".inf", "yes", "no", "=", "<<",
];

fn hostile_string(rng: &mut Rng) -> String {
    let n = rng.usize(5);
    let mut s = String::new();
    for _ in 0..n {
        if rng.chance(2, 3) {
            s.push_str(*rng.pick(HOSTILE));
        } else {
            for _ in 0..1 + rng.usize(4) {
                s.push((32 + rng.below(95)) as u8 as char);
            }
        }
    }
    s
}
fn hostile_bytes(rng: &mut Rng) -> Vec<u8> {
    hostile_string(rng).into_bytes()
}
/// Replace every string of an AST by a hostile one (keeping struct names unique)
fn hostilise(rng: &mut Rng, l: &mut NLib) {
    l.name = hostile_bytes(rng);
    for (i, s) in l.structs.iter_mut().enumerate() {
        s.name = hostile_bytes(rng);
        s.name.extend_from_slice(format!("{}", i).as_bytes());
        for e in s.elems.iter_mut() {
            for p in e.props.iter_mut() {
                p.1 = hostile_bytes(rng);
            }
            match &mut e.kind {
                NKind::Text { string, .. } => *string = hostile_bytes(rng),
                NKind::Sref { sname, .. } | NKind::Aref { sname, .. } => *sname = hostile_bytes(rng),
                _ => {}
            }
        }
    }
}
fn fmt_name(f: SerializationFormat) -> &'static str {
    match f {
        SerializationFormat::Json => "json",
        SerializationFormat::Yaml => "yaml",
        SerializationFormat::Toml => "toml",
    }
}
/// Which hostile ingredient does this library carry? (witness class for string mismatches)
fn string_witness(a: &str, b: &str) -> String {
    // first differing char of the two strings
    let (mut ia, mut ib) = (a.chars(), b.chars());
    loop {
        match (ia.next(), ib.next()) {
            (Some(x), Some(y)) if x == y => continue,
            (Some(x), _) => return format!("at-char-U+{:04X}", x as u32),
            (None, Some(y)) => return format!("extra-char-U+{:04X}", y as u32),
            (None, None) => return "equal".into(),
        }
    }
}

/// Another text of exactly the same byte length (an older document that happens to be as long): every ASCII digit and letter rotated by one
fn same_length_other(s: &str) -> String {
    s.chars()
        .map(|c| match c {
            '0'..='8' | 'a'..='y' | 'A'..='Y' => (c as u8 + 1) as char,
            '9' => '0',
            'z' => 'a',
            'Z' => 'A',
            c => c,
        })
        .collect()
}

impl C18 {
    /// History dimension for the file legs: what this thread opened just before. Every other file case is preceded by an `open` of a file that
    /// is rejected (truncated markup, a document of another shape), or of another, valid, library file.
    fn earlier_open(&self, cx: &mut Cx, fmt: SerializationFormat) {
        if (cx.n / 4) % 2 != 1 {
            return;
        }
        let f = fmt_name(fmt);
        let path = cx.tmp(&format!("c18-earlier.{}", f));
        let kind = cx.rng.below(3);
        let text = match kind {
            0 => match f {
                "json" => "{\"name\": \"earlier\", \"structs\": [ {\"name\": \"cut_short".to_string(),
                _ => "name: earlier\nstructs:\n  - name: [unclosed\n    elems: {".to_string(),
            },
            1 => match f {
                "json" => "[1, 2, 3, \"a list is not a library\"]".to_string(),
                _ => "- 1\n- 2\n- a list is not a library\n".to_string(),
            },
            _ => fmt.to_string(&GdsLibrary::new("earlier_library")).unwrap_or_default(),
        };
        if std::fs::write(&path, &text).is_err() {
            return;
        }
        let r = guard(|| fmt.open::<GdsLibrary>(&path).is_ok());
        let _ = std::fs::remove_file(&path);
        match (kind, r) {
            (_, Err(c)) => cx.violation(&format!("earlier-open|{}|panic|{}|{}", f, c.site(), c.norm_msg()), json!({"panic": c.msg, "text": text})),
            (2, Ok(true)) => cx.count("earlier_open_accepted"),
            (2, Ok(false)) => cx.violation(&format!("earlier-open|{}|valid-file-rejected", f), json!({"text": text})),
            (_, Ok(false)) => cx.count("earlier_open_rejected"),
            (_, Ok(true)) => cx.violation(&format!("earlier-open|{}|malformed-file-accepted", f), json!({"text": text})),
        }
    }
    fn gds_value(&self, cx: &mut Cx, lib: &GdsLibrary, fmt: SerializationFormat, via_file: bool) {
        cx.eval();
        let f = fmt_name(fmt);
        let path = cx.tmp(&format!("c18.{}", f));
        // history dimension: 0 fresh path, 1 over a longer older file, 2 over a different file of exactly the same length
        let stale = cx.n % 3;
        if via_file {
            self.earlier_open(cx, fmt);
        }
        if via_file && stale > 0 {
            cx.count(if stale == 1 { "saved_over_existing_longer_file" } else { "saved_over_existing_same_length_file" });
        }
        // history dimension: one case in five asks the THIRD format of the same helper for this library first, on this thread. TOML cannot
        // express a GDSII library (the request is refused part-way through); a refused request may not leave anything behind
        if cx.n % 5 == 3 {
            match guard(|| SerializationFormat::Toml.to_string(lib).is_ok()) {
                Ok(false) => cx.count("earlier_request_in_a_third_format_refused"),
                Ok(true) => cx.count("earlier_request_in_a_third_format_served"),
                Err(_) => cx.count("earlier_request_in_a_third_format_panicked_(not_judged:_TOML_is_outside_the_statement)"),
            }
        }
        let r = guard(|| -> Result<GdsLibrary, String> {
            if via_file {
                // history dimension: every other case saves over an existing, longer file (an older copy), as a user re-saving does
                if stale > 0 {
                    let older = fmt.to_string(lib).map_err(|e| format!("to_string: {}", e))?;
                    let older = if stale == 1 { format!("{}\n{}", older, older) } else { same_length_other(&older) };
                    std::fs::write(&path, older).map_err(|e| format!("prewrite: {}", e))?;
                }
                fmt.save(lib, &path).map_err(|e| format!("save: {}", e))?;
                fmt.open(&path).map_err(|e| format!("open: {}", e))
            } else {
                let s = fmt.to_string(lib).map_err(|e| format!("to_string: {}", e))?;
                fmt.from_str(&s).map_err(|e| format!("from_str: {}", e))
            }
        });
        let _ = std::fs::remove_file(&path);
        let leg = if via_file { "file" } else { "string" };
        match r {
            Err(c) => cx.violation(&format!("gds|{}|{}|panic|{}|{}", f, leg, c.site(), c.norm_msg()), json!({"panic": c.msg})),
            Ok(Err(e)) => {
                let stage: String = e.split(':').next().unwrap_or("").to_string();
                cx.violation(&format!("gds|{}|{}|error|{}", f, leg, stage), json!({"error": e.chars().take(300).collect::<String>(), "library": format!("{:?}", lib).chars().take(800).collect::<String>()}));
            }
            Ok(Ok(l2)) => match lib_diff(lib, &l2) {
                None => cx.count(&format!("gds_{}_{}_ok", f, leg)),
                Some((class, at)) => {
                    let is_real = class.contains("units") || class.contains("mag") || class.contains("angle");
                    let w = if is_real { "real-off".to_string() } else { "string-or-field".to_string() };
                    cx.violation(&format!("gds|{}|{}|mismatch|{}|{}", f, leg, class, w), json!({"at": at, "library": format!("{:?}", lib).chars().take(1200).collect::<String>(), "back": format!("{:?}", l2).chars().take(1200).collect::<String>()}));
                }
            },
        }
    }
    fn lef_value(&self, cx: &mut Cx, lib: &LefLibrary, fmt: SerializationFormat, via_file: bool) {
        cx.eval();
        let f = fmt_name(fmt);
        let path = cx.tmp(&format!("c18lef.{}", f));
        // history dimension: 0 fresh path, 1 over a longer older file, 2 over a different file of exactly the same length
        let stale = cx.n % 3;
        if via_file {
            self.earlier_open(cx, fmt);
        }
        if via_file && stale > 0 {
            cx.count(if stale == 1 { "saved_over_existing_longer_file" } else { "saved_over_existing_same_length_file" });
        }
        let r = guard(|| -> Result<LefLibrary, String> {
            if via_file {
                // history dimension: every other case saves over an existing, longer file (an older copy), as a user re-saving does
                if stale > 0 {
                    let older = fmt.to_string(lib).map_err(|e| format!("to_string: {}", e))?;
                    let older = if stale == 1 { format!("{}\n{}", older, older) } else { same_length_other(&older) };
                    std::fs::write(&path, older).map_err(|e| format!("prewrite: {}", e))?;
                }
                fmt.save(lib, &path).map_err(|e| format!("save: {}", e))?;
                fmt.open(&path).map_err(|e| format!("open: {}", e))
            } else {
                let s = fmt.to_string(lib).map_err(|e| format!("to_string: {}", e))?;
                fmt.from_str(&s).map_err(|e| format!("from_str: {}", e))
            }
        });
        let _ = std::fs::remove_file(&path);
        let leg = if via_file { "file" } else { "string" };
        match r {
            Err(c) => cx.violation(&format!("lef|{}|{}|panic|{}|{}", f, leg, c.site(), c.norm_msg()), json!({"panic": c.msg})),
            Ok(Err(e)) => {
                let stage: String = e.split(':').next().unwrap_or("").to_string();
                cx.violation(&format!("lef|{}|{}|error|{}", f, leg, stage), json!({"error": e.chars().take(300).collect::<String>()}));
            }
            Ok(Ok(mut l2)) => {
                // the fixed-mask flags are compared first and separately, so that their loss does not hide anything else
                if l2.fixed_mask != lib.fixed_mask {
                    cx.violation("lef|mismatch|lib.fixed_mask-not-serialised", json!({"want": lib.fixed_mask, "got": l2.fixed_mask, "format": f}));
                    l2.fixed_mask = lib.fixed_mask;
                }
                let mut macro_fm = false;
                for (a, b) in lib.macros.iter().zip(l2.macros.iter_mut()) {
                    if a.fixed_mask != b.fixed_mask {
                        macro_fm = true;
                        b.fixed_mask = a.fixed_mask;
                    }
                }
                if macro_fm {
                    cx.violation("lef|mismatch|macro.fixed_mask-not-serialised", json!({"format": f}));
                }
                if !lef_same(&l2, lib) {
                    let (class, at) = lef_diff(lib, &l2);
                    cx.violation(&format!("lef|{}|{}|mismatch|{}", f, leg, class), json!({"at": at}));
                } else {
                    cx.count(&format!("lef_{}_{}_ok", f, leg));
                }
            }
        }
    }
    /// GDSII file -> markup file -> GDSII file must reproduce the bytes
    fn gds_bytes(&self, cx: &mut Cx, bytes: &[u8], fmt: &str) {
        cx.eval();
        use layout21converters::gds_serialization::{from_markup, to_markup, FromMarkupOptions, ToMarkupOptions};
        let (g1, m, g2) = (cx.tmp("a.gds"), cx.tmp(&format!("a.{}", fmt)), cx.tmp("b.gds"));
        std::fs::write(&g1, bytes).unwrap();
        let s = |p: &std::path::PathBuf| p.to_string_lossy().to_string();
        let r = guard(|| -> Result<Vec<u8>, String> {
            to_markup(&ToMarkupOptions { gds: s(&g1), fmt: fmt.into(), out: s(&m), verbose: false }).map_err(|e| format!("to_markup: {}", e))?;
            from_markup(&FromMarkupOptions { gds: s(&g2), fmt: fmt.into(), inp: s(&m), verbose: false }).map_err(|e| format!("from_markup: {}", e))?;
            std::fs::read(&g2).map_err(|e| e.to_string())
        });
        for p in [&g1, &m, &g2] {
            let _ = std::fs::remove_file(p);
        }
        match r {
            Err(c) => cx.violation(&format!("gds-bytes|{}|panic|{}", fmt, c.norm_msg()), json!({"panic": c.msg, "bytes": render_bytes(bytes)})),
            Ok(Err(e)) => cx.violation(&format!("gds-bytes|{}|error|{}", fmt, e.split(':').next().unwrap_or("")), json!({"error": e.chars().take(300).collect::<String>(), "bytes": render_bytes(bytes)})),
            Ok(Ok(b2)) => {
                if b2 != bytes {
                    // classify: which record differs
                    let class = match (decode(bytes, true), decode(&b2, true)) {
                        (Ok(a), Ok(b)) => ast_diff(&a, &b).map(|d| d.0).unwrap_or("framing".into()),
                        _ => "undecodable".into(),
                    };
                    cx.violation(&format!("gds-bytes|{}|different-bytes|{}", fmt, class), json!({"bytes": render_bytes(bytes), "back": render_bytes(&b2)}));
                } else {
                    cx.count(&format!("gds_bytes_{}_ok", fmt));
                }
            }
        }
    }
}

impl Prop for C18 {
    fn id(&self) -> &'static str {
        "C18"
    }
    fn rule(&self) -> String {
        "GDSII library values from the C01 generator with every string replaced by a hostile one (quotes, ': ', ' #', backslashes, leading/trailing spaces, newlines, blank-only lines, CRLF, tabs, '~', 'null', 'true', '1e3', '0x1f', '-', '? ', YAML indicators, U+0085, U+2028, BOM, 4-byte characters) and doubles over the whole GDSII range; \
         LEF library values from the C04 generator with hostile string literals. Each value goes through SerializationFormat::{Json,Yaml} twice: to_string -> from_str and save -> open (tmpfs file); result must be equal (doubles by bit pattern, decimals by value). \
         GDSII byte streams (written by the reference encoder, in gds21's canonical form: <=53-bit reals) go file -> to_markup -> from_markup -> file and must be byte-identical. distinct_nontrivial = distinct library values (hash of Debug form) x format."
            .into()
    }
    fn assumptions(&self) -> Vec<String> {
        vec!["TOML is documented as unsupported and not exercised".into(), "gds2json/gds2yaml/markup2gds are thin clap wrappers over gds_serialization::{to_markup,from_markup}: called in-process in both tiers; the thorough tier additionally spawns the real binaries (generator cli-binaries; skipped with a counter if they cannot be built)".into()]
    }
    fn miri_gen(&self) -> Option<&'static str> {
        Some("gds-values")
    }
    fn plan(&self, tier: Tier) -> Vec<GenSpec> {
        vec![
            GenSpec::random("gds-values", tier.pick(6_000, 400_000)),
            GenSpec::random("gds-reals", tier.pick(2_000, 200_000)),
            // markup files of 100..400 KB full of multi-byte characters (block-wise readers / writers), through save -> open
            GenSpec::random("big-files", tier.pick(24, 600)),
            GenSpec::random("lef-values", tier.pick(4_000, 300_000)),
            GenSpec::random("gds-bytes", tier.pick(1_500, 100_000)),
            // the real gds2json / gds2yaml / markup2gds binaries, built from /repo by ./check for the thorough tier (LVH_BINS)
            GenSpec::random("cli-binaries", tier.pick(0, 300)),
        ]
    }
    fn run_case(&self, cx: &mut Cx) {
        let fmts = [SerializationFormat::Json, SerializationFormat::Yaml];
        match cx.gen.as_str() {
            "gds-values" => {
                let cfg = GenCfg { strclass: StrClass::Ascii, maxstr: 10, wide_reals: false, max_structs: 3, max_elems: 4, max_pts: 4 };
                let mut ast = rand_lib(&mut cx.rng, &cfg);
                hostilise(&mut cx.rng, &mut ast);
                let lib = ast_to_lib(&ast).unwrap();
                let h = ast_hash(&ast);
                for (i, f) in fmts.iter().enumerate() {
                    cx.nontrivial(h ^ i as u64);
                    let via_file = cx.n % 4 == 0;
                    self.gds_value(cx, &lib, *f, via_file);
                }
                cx.sample(|| json!({"library": format!("{:?}", lib).chars().take(500).collect::<String>()}));
            }
            "big-files" => {
                let mut lib = GdsLibrary::new("big");
                // one file in four is over a mebibyte (readers and writers that work in blocks of up to 1 MiB meet a block boundary)
                let nstructs = if cx.n % 4 == 1 { 22 + cx.rng.usize(30) } else { 3 + cx.rng.usize(4) };
                if nstructs > 20 {
                    cx.count("markup_files_over_a_mebibyte");
                }
                for k in 0..nstructs {
                    let mut st = gds21::GdsStruct::new(format!("s{}", k));
                    let len = 20_000 + cx.rng.usize(45_000);
                    let text = String::from_utf8(long_nonascii(&mut cx.rng, len)).unwrap();
                    st.elems.push(gds21::GdsTextElem { string: text, layer: 1, texttype: 0, xy: gds21::GdsPoint::new(k as i32, 0), ..Default::default() }.into());
                    lib.structs.push(st);
                }
                for (i, f) in fmts.iter().enumerate() {
                    cx.nontrivial(cx.n * 4 + i as u64 + 0xB16);
                    self.gds_value(cx, &lib, *f, true);
                    self.gds_value(cx, &lib, *f, false);
                }
                cx.count("big_markup_files");
                cx.sample(|| json!({"big_file_structs": lib.structs.len()}));
            }
            "gds-reals" => {
                // many doubles per library: units + a reference per strans
                let mut lib = GdsLibrary::new("r");
                let rr = |rng: &mut Rng| crate::refs::gdsreal::decode_ref(rand_real53(rng));
                lib.units = gds21::GdsUnits(rr(&mut cx.rng), rr(&mut cx.rng));
                let mut s = gds21::GdsStruct::new("s");
                for _ in 0..20 {
                    let (m, a) = (rr(&mut cx.rng), rr(&mut cx.rng));
                    s.elems.push(gds21::GdsStructRef { name: "t".into(), strans: Some(gds21::GdsStrans { mag: Some(m), angle: Some(a), ..Default::default() }), ..Default::default() }.into());
                }
                lib.structs.push(s);
                let h = crate::rt::prng::strhash(&format!("{:?}", lib));
                for (i, f) in fmts.iter().enumerate() {
                    cx.nontrivial(h ^ i as u64);
                    self.gds_value(cx, &lib, *f, false);
                }
                cx.sample(|| json!({"units": [lib.units.0, lib.units.1], "reals_per_library": 42}));
            }
            "lef-values" => {
                let cfg = LefCfg { hostile_strings: true, ..Default::default() };
                let g = rand_lef(&mut cx.rng, &cfg);
                // values in the reader's image only (what a user can actually have): render plainly and read
                let (text, _) = render(&g, &cfg, &mut cx.rng, Style::plain());
                let lib = match open_text(cx, &text) {
                    Ok(Ok(l)) => l,
                    _ => {
                        cx.count("lef_source_rejected");
                        g.lib.clone()
                    }
                };
                // every third library: string fields that LOOK like another markup type (numbers in other radices, infinities, booleans, nulls,
                // dates, sexagesimals, tags, anchors): a loader that lets the markup's own typing decide changes them
                let mut lib = lib;
                if cx.n % 3 == 1 {
                    const LOOKALIKES: &[&str] = &[
                        "0o17", "0b1010", "+0x1F", "0x1F", "0777", "1_000", "1e3", "+.inf", "-.INF", ".nan", ".NaN", "~", "null", "Null", "true", "True", "yes", "No", "on", "OFF", "12:30:45", "2001-12-14", "<<", "-", "?",
                        "!!str", "&a", "*a", "|", ">", "@x", "`x", "[]", "{}", "- a", "a: b", "1.50", "-0", "+1", "0.", ".5", "1e400", "18446744073709551616", "\\u0041", "\u{feff}x",
                    ];
                    for m in lib.macros.iter_mut() {
                        for pr in m.properties.iter_mut() {
                            pr.value = cx.rng.pick(LOOKALIKES).to_string();
                        }
                        for pin in m.pins.iter_mut() {
                            for pr in pin.properties.iter_mut() {
                                pr.value = cx.rng.pick(LOOKALIKES).to_string();
                            }
                        }
                        if cx.rng.chance(1, 4) {
                            m.name = cx.rng.pick(LOOKALIKES).to_string();
                        }
                    }
                    cx.count("lef_libraries_with_markup_lookalike_strings");
                }
                // every fifth library: values the TYPE holds but LEF text never yields - a flag that is present and false, a list that is
                // present and empty (a library built or edited in memory, or produced by another converter, has them)
                if cx.n % 5 == 2 {
                    let mut touched = 0u64;
                    for m in lib.macros.iter_mut() {
                        for lg in m.obs.iter_mut() {
                            if lg.except_pg_net.is_none() && cx.rng.bool() {
                                lg.except_pg_net = Some(false);
                                touched += 1;
                            }
                        }
                        for pin in m.pins.iter_mut() {
                            for port in pin.ports.iter_mut() {
                                for lg in port.layers.iter_mut() {
                                    if lg.except_pg_net.is_none() && cx.rng.bool() {
                                        lg.except_pg_net = Some(false);
                                        touched += 1;
                                    }
                                }
                            }
                        }
                        if m.symmetry.is_none() && cx.rng.chance(1, 3) {
                            m.symmetry = Some(vec![]);
                            touched += 1;
                        }
                        if m.density.is_none() && cx.rng.chance(1, 3) {
                            m.density = Some(vec![]);
                            touched += 1;
                        }
                    }
                    cx.count_n("lef_present_but_false_or_empty_fields", touched);
                }
                let h = crate::rt::prng::strhash(&format!("{}{}", text, cx.n % 3));
                for (i, f) in fmts.iter().enumerate() {
                    cx.nontrivial(h ^ i as u64);
                    let via_file = cx.n % 4 == 0;
                    self.lef_value(cx, &lib, *f, via_file);
                }
                cx.sample(|| json!({"lef_text": text.chars().take(400).collect::<String>()}));
            }
            "gds-bytes" => {
                let cfg = GenCfg { strclass: StrClass::Mixed, maxstr: 16, wide_reals: false, max_structs: 3, max_elems: 5, max_pts: 5 };
                let mut ast = rand_lib(&mut cx.rng, &cfg);
                if cx.rng.bool() {
                    hostilise(&mut cx.rng, &mut ast);
                    // keep strings GDSII-representable: no trailing NUL at even length
                }
                let bytes = encode(&ast, &EncOpts::default()).out;
                // only streams that are fixed points of gds21's own read->write (canonical form) are claimed
                match GdsLibrary::from_bytes(&bytes).ok().and_then(|l| { let mut b = Vec::new(); l.write(&mut b).ok().map(|_| b) }) {
                    Some(b) if b == bytes => {
                        for f in ["json", "yaml"] {
                            cx.nontrivial(crate::rt::prng::byteshash(&bytes) ^ f.len() as u64);
                            self.gds_bytes(cx, &bytes, f);
                        }
                        cx.sample(|| json!({"stream": render_bytes(&bytes)}));
                    }
                    _ => cx.count("gds_bytes_not_canonical_skipped"),
                }
            }
            "cli-binaries" => {
                let dir = match std::env::var("LVH_BINS") {
                    Ok(d) if std::path::Path::new(&d).join("markup2gds").exists() => std::path::PathBuf::from(d),
                    _ => {
                        cx.count("cli_binaries_unavailable");
                        return;
                    }
                };
                let cfg = GenCfg { strclass: StrClass::Mixed, maxstr: 16, wide_reals: false, max_structs: 3, max_elems: 5, max_pts: 5 };
                let mut ast = rand_lib(&mut cx.rng, &cfg);
                hostilise(&mut cx.rng, &mut ast);
                let bytes = encode(&ast, &EncOpts::default()).out;
                let canonical = GdsLibrary::from_bytes(&bytes).ok().and_then(|l| { let mut b = Vec::new(); l.write(&mut b).ok().map(|_| b) });
                if canonical.as_deref() != Some(&bytes[..]) {
                    cx.count("gds_bytes_not_canonical_skipped");
                    return;
                }
                for (tool, fmt) in [("gds2json", "json"), ("gds2yaml", "yaml")] {
                    cx.eval();
                    cx.nontrivial(crate::rt::prng::byteshash(&bytes) ^ fmt.len() as u64 ^ 0xC11);
                    let (a, m, b) = (cx.tmp("cli-a.gds"), cx.tmp(&format!("cli-a.{}", fmt)), cx.tmp("cli-b.gds"));
                    std::fs::write(&a, &bytes).unwrap();
                    let run = |exe: &str, args: &[&str]| std::process::Command::new(dir.join(exe)).args(args).stdout(std::process::Stdio::null()).stderr(std::process::Stdio::null()).status().map(|s| s.success()).unwrap_or(false);
                    let ok1 = run(tool, &["-i", a.to_str().unwrap(), "-o", m.to_str().unwrap()]);
                    let ok2 = ok1 && run("markup2gds", &["-i", m.to_str().unwrap(), "-f", fmt, "-o", b.to_str().unwrap()]);
                    if !ok2 {
                        cx.violation(&format!("cli|{}|{}-failed", fmt, if ok1 { "markup2gds" } else { tool }), json!({"bytes": render_bytes(&bytes)}));
                    } else {
                        let b2 = std::fs::read(&b).unwrap_or_default();
                        if b2 != bytes {
                            cx.violation(&format!("cli|{}|different-bytes", fmt), json!({"bytes": render_bytes(&bytes), "back": render_bytes(&b2)}));
                        } else {
                            cx.count(&format!("cli_{}_roundtrip_ok", fmt));
                        }
                    }
                    for p in [&a, &m, &b] {
                        let _ = std::fs::remove_file(p);
                    }
                }
                cx.sample(|| json!({"cli": "gds2json/gds2yaml -> markup2gds on a generated stream", "bytes": bytes.len()}));
            }
            other => cx.inconclusive(format!("unknown generator {}", other)),
        }
    }
}
