//! C10 — the GDSII reader never crashes or hangs on any input bytes.

use super::c01::REPO_GDS;
use crate::gen::gdsgen::*;
use crate::refs::gdsreal::encode_ref;
use crate::refs::gdsstream::*;
use crate::rt::*;
use gds21::GdsLibrary;
use layout21utils::verif;
use serde_json::json;

pub struct C10;

/// string lengths of the `string-bytes` generator
const STRING_BYTE_LENGTHS: [usize; 126] = {
    let mut a = [0usize; 126];
    let mut i = 0;
    while i < 96 {
        a[i] = i + 1;
        i += 1;
    }
    let extra = [120, 127, 128, 129, 135, 136, 137, 143, 255, 256, 257, 263, 271, 511, 512, 513, 519, 527, 1023, 1024, 1025, 1031, 1039, 2047, 2048, 2049, 4095, 4096, 4097, 4111];
    let mut k = 0;
    while k < 30 {
        a[96 + k] = extra[k];
        k += 1;
    }
    a
};
#[derive(Default)]
struct Stats {
    ok: u64,
    err: u64,
}

/// One small well-formed record (header + payload) of every record type in the GDSII specification, with its spec data type.
fn catalog() -> Vec<Vec<u8>> {
    fn rec(rt: u8, dt: u8, payload: &[u8]) -> Vec<u8> {
        let mut v = ((payload.len() + 4) as u16).to_be_bytes().to_vec();
        v.push(rt);
        v.push(dt);
        v.extend_from_slice(payload);
        v
    }
    let i16s = |xs: &[i16]| xs.iter().flat_map(|x| x.to_be_bytes()).collect::<Vec<u8>>();
    let i32s = |xs: &[i32]| xs.iter().flat_map(|x| x.to_be_bytes()).collect::<Vec<u8>>();
    let one = 0x4110_0000_0000_0000u64.to_be_bytes();
    let mut out = vec![
        rec(0x00, 2, &i16s(&[600])),                       // HEADER
        rec(0x01, 2, &i16s(&[1; 12])),                     // BGNLIB
        rec(0x02, 6, b"ab"),                               // LIBNAME
        rec(0x03, 5, &[one, one].concat()),                // UNITS
        rec(0x04, 0, &[]),                                 // ENDLIB
        rec(0x05, 2, &i16s(&[1; 12])),                     // BGNSTR
        rec(0x06, 6, b"st"),                               // STRNAME
        rec(0x07, 0, &[]),                                 // ENDSTR
        rec(0x08, 0, &[]),                                 // BOUNDARY
        rec(0x09, 0, &[]),                                 // PATH
        rec(0x0A, 0, &[]),                                 // SREF
        rec(0x0B, 0, &[]),                                 // AREF
        rec(0x0C, 0, &[]),                                 // TEXT
        rec(0x0D, 2, &i16s(&[1])),                         // LAYER
        rec(0x0E, 2, &i16s(&[0])),                         // DATATYPE
        rec(0x0F, 3, &i32s(&[2])),                         // WIDTH
        rec(0x10, 3, &i32s(&[0, 0])),                      // XY
        rec(0x11, 0, &[]),                                 // ENDEL
        rec(0x12, 6, b"st"),                               // SNAME
        rec(0x13, 2, &i16s(&[1, 1])),                      // COLROW
        rec(0x14, 0, &[]),                                 // TEXTNODE
        rec(0x15, 0, &[]),                                 // NODE
        rec(0x16, 2, &i16s(&[0])),                         // TEXTTYPE
        rec(0x17, 1, &[0, 5]),                             // PRESENTATION
        rec(0x18, 0, &[]),                                 // SPACING
        rec(0x19, 6, b"tx"),                               // STRING
        rec(0x1A, 1, &[0x80, 0]),                          // STRANS
        rec(0x1B, 5, &one),                                // MAG
        rec(0x1C, 5, &one),                                // ANGLE
        rec(0x1D, 0, &[]),                                 // UINTEGER
        rec(0x1E, 0, &[]),                                 // USTRING
        rec(0x1F, 6, &[b'r'; 90]),                         // REFLIBS
        rec(0x20, 6, &[b'f'; 176]),                        // FONTS
        rec(0x21, 2, &i16s(&[2])),                         // PATHTYPE
        rec(0x22, 2, &i16s(&[3])),                         // GENERATIONS
        rec(0x23, 6, b"attr"),                             // ATTRTABLE
        rec(0x24, 6, b"sl"),                               // STYPTABLE
        rec(0x25, 2, &i16s(&[0])),                         // STRTYPE
        rec(0x26, 1, &[0, 1]),                             // ELFLAGS
        rec(0x27, 3, &i32s(&[0])),                         // ELKEY
        rec(0x28, 0, &[]),                                 // LINKTYPE
        rec(0x29, 0, &[]),                                 // LINKKEYS
        rec(0x2A, 2, &i16s(&[0])),                         // NODETYPE
        rec(0x2B, 2, &i16s(&[1])),                         // PROPATTR
        rec(0x2C, 6, b"pv"),                               // PROPVALUE
        rec(0x2D, 0, &[]),                                 // BOX
        rec(0x2E, 2, &i16s(&[0])),                         // BOXTYPE
        rec(0x2F, 3, &i32s(&[1])),                         // PLEX
        rec(0x30, 3, &i32s(&[1])),                         // BGNEXTN
        rec(0x31, 3, &i32s(&[1])),                         // ENDEXTN
        rec(0x32, 2, &i16s(&[1])),                         // TAPENUM
        rec(0x33, 2, &i16s(&[0; 6])),                      // TAPECODE
        rec(0x34, 1, &[0, 0]),                             // STRCLASS
        rec(0x35, 3, &i32s(&[0])),                         // RESERVED
        rec(0x36, 2, &i16s(&[0])),                         // FORMAT 0 (archive)
        rec(0x36, 2, &i16s(&[1])),                         // FORMAT 1 (filtered): MASK ... ENDMASKS should follow
        rec(0x37, 6, b"1 2-5"),                            // MASK (odd length, unpadded on purpose? no: padded below)
        rec(0x38, 0, &[]),                                 // ENDMASKS
        rec(0x39, 2, &i16s(&[4])),                         // LIBDIRSIZE
        rec(0x3A, 6, b"srfn"),                             // SRFNAME
        rec(0x3B, 2, &i16s(&[1, 2, 3])),                   // LIBSECUR
    ];
    // MASK payload must be even: fix the one odd payload above
    for r in out.iter_mut() {
        if r.len() % 2 == 1 {
            r.push(0);
            let l = (r.len() as u16).to_be_bytes();
            r[0] = l[0];
            r[1] = l[1];
        }
    }
    // FORMAT 1 followed by a complete mask list, as one insertion
    let mut fm = rec(0x36, 2, &i16s(&[1]));
    fm.extend(rec(0x37, 6, b"1 2 3 "));
    fm.extend(rec(0x38, 0, &[]));
    out.push(fm);
    out
}

impl C10 {
    /// One execution of the reader on `bytes`, under the panic guard and the logical step budget.
    /// `must_err`: the input is a strict prefix of a valid stream (cut before the end of ENDLIB).
    fn probe(&self, cx: &mut Cx, bytes: &[u8], must_err: bool, class: &str, st: &mut Stats) {
        cx.eval();
        verif::reset();
        let max_records = (bytes.len() / 4 + 2) as u64;
        verif::set_budget(verif::GDS_RECORD, max_records);
        verif::set_budget(verif::GDS_NEXT, max_records + 8);
        let r = guard(|| GdsLibrary::from_bytes(bytes));
        let ctr = verif::counters();
        verif::reset();
        cx.count_n("hook.gds_records_read", ctr[verif::GDS_RECORD]);
        cx.count_n("hook.gds_parser_steps", ctr[verif::GDS_NEXT]);
        if !bytes.is_empty() {
            // observed worst-case steps per input byte, in 1/1000ths
            cx.max("max.steps_per_kbyte", (ctr[verif::GDS_NEXT] + ctr[verif::GDS_RECORD]) * 1000 / bytes.len() as u64);
        }
        // equivalent entry point: every 8th input is also read from a file (always the same path, rewritten each time) through GdsLibrary::open;
        // the two must agree - both reject, or both return the same library
        if cx.rec.evaluations % 8 == 0 {
            let path = cx.tmp("c10-entry.gds");
            if std::fs::write(&path, bytes).is_ok() {
                let fr = guard(|| GdsLibrary::open(&path));
                cx.count("file_entry_compared");
                match (&r, &fr) {
                    (_, Err(c)) => cx.violation(&format!("{}|file-entry|panic|{}|{}", class, c.site(), c.norm_msg()), json!({"panic": c.msg, "len": bytes.len(), "bytes": render_bytes(bytes)})),
                    (Ok(Ok(a)), Ok(Ok(b))) => {
                        if let Some((c2, at)) = lib_diff(a, b) {
                            cx.violation(&format!("{}|file-entry|differs-from-bytes|{}", class, c2), json!({"at": at, "len": bytes.len(), "bytes": render_bytes(bytes)}));
                        }
                    }
                    (Ok(Err(_)), Ok(Ok(_))) => cx.violation(&format!("{}|file-entry|accepted-what-from_bytes-rejected", class), json!({"len": bytes.len(), "bytes": render_bytes(bytes)})),
                    (Ok(Ok(_)), Ok(Err(e))) => cx.violation(&format!("{}|file-entry|rejected-what-from_bytes-accepted|{}", class, err_class(e)), json!({"len": bytes.len(), "bytes": render_bytes(bytes)})),
                    _ => {}
                }
            }
        }
        match r {
            Err(c) if c.is_budget() => cx.violation(
                &format!("{}|step-budget-exceeded", class),
                json!({"len": bytes.len(), "records_read": ctr[verif::GDS_RECORD], "parser_steps": ctr[verif::GDS_NEXT], "budget_records": max_records, "bytes": render_bytes(bytes)}),
            ),
            Err(c) => cx.violation(
                &format!("{}|panic|{}|{}", class, c.site(), c.norm_msg()),
                json!({"panic": c.msg, "at": format!("{}:{}", c.file, c.line), "len": bytes.len(), "bytes": render_bytes(bytes)}),
            ),
            Ok(Err(e)) => {
                st.err += 1;
                if let Err(c) = guard(|| (format!("{}", e).len(), format!("{:?}", e).len())) {
                    cx.violation(&format!("{}|error-rendering-panic|{}|{}", class, c.site(), c.norm_msg()), json!({"panic": c.msg, "bytes": render_bytes(bytes)}));
                }
            }
            Ok(Ok(lib)) => {
                st.ok += 1;
                if must_err {
                    cx.violation(&format!("{}|truncated-stream-accepted", class), json!({"len": bytes.len(), "bytes": render_bytes(bytes)}));
                    return;
                }
                // an accepted stream HAS an end-of-library record: walking the records as the format defines them (two length bytes, big-endian,
                // counting the four header bytes; type byte 0x04 = ENDLIB) must arrive at one before the data runs out. This is decided here
                // on the bytes, whatever the reader's own idea of "this record is ENDLIB" has become.
                {
                    let mut pos = 0usize;
                    let mut endlib = false;
                    while pos + 4 <= bytes.len() {
                        let l = u16::from_be_bytes([bytes[pos], bytes[pos + 1]]) as usize;
                        if bytes[pos + 2] == 0x04 {
                            endlib = true;
                            break;
                        }
                        if l < 4 {
                            break;
                        }
                        pos += l;
                    }
                    if !endlib {
                        cx.violation(&format!("{}|stream-without-end-of-library-record-accepted", class), json!({"len": bytes.len(), "bytes": render_bytes(bytes)}));
                        return;
                    }
                    cx.count("accepted_streams_with_endlib_confirmed");
                }
                // what is returned is made of the stream: every string is text (a `String` holding bytes that are not UTF-8 is a broken value,
                // however quietly it travels), and every coordinate is four consecutive bytes of the input (a word put together from the
                // tail of a short payload and whatever an earlier record left in a buffer is an invention)
                {
                    let mut bad_text: Option<&'static str> = None;
                    let mut invented: Option<i32> = None;
                    let mut text = |s: &String, what: &'static str| {
                        if std::str::from_utf8(s.as_bytes()).is_err() {
                            bad_text = Some(what);
                        }
                    };
                    // (big inputs: one pass to collect every four-byte window, instead of one scan per coordinate - the scan made this
                    // monitor quadratic, and the largest `scaling` case of the thorough tier timed out on the unchanged tree)
                    let windows: Option<std::collections::HashSet<u32>> = if bytes.len() > 8192 { Some(bytes.windows(4).map(|w| u32::from_be_bytes([w[0], w[1], w[2], w[3]])).collect()) } else { None };
                    let in_stream = |v: i32| match &windows {
                        Some(set) => set.contains(&(v as u32)),
                        None => bytes.windows(4).any(|w| w == v.to_be_bytes()),
                    };
                    let mut coord = |p: &gds21::GdsPoint| {
                        for v in [p.x, p.y] {
                            if invented.is_none() && !in_stream(v) {
                                invented = Some(v);
                            }
                        }
                    };
                    text(&lib.name, "library name");
                    for s in &lib.structs {
                        text(&s.name, "structure name");
                        for e in &s.elems {
                            use gds21::GdsElement::*;
                            let props = match e {
                                GdsBoundary(x) => { x.xy.iter().for_each(&mut coord); &x.properties }
                                GdsPath(x) => { x.xy.iter().for_each(&mut coord); &x.properties }
                                GdsStructRef(x) => { text(&x.name, "reference name"); coord(&x.xy); &x.properties }
                                GdsArrayRef(x) => { text(&x.name, "reference name"); x.xy.iter().for_each(&mut coord); &x.properties }
                                GdsTextElem(x) => { text(&x.string, "text string"); coord(&x.xy); &x.properties }
                                GdsNode(x) => { x.xy.iter().for_each(&mut coord); &x.properties }
                                GdsBox(x) => { x.xy.iter().for_each(&mut coord); &x.properties }
                            };
                            for p in props {
                                text(&p.value, "property value");
                            }
                        }
                    }
                    if let Some(w) = bad_text {
                        cx.violation(&format!("{}|returned-string-is-not-utf8|{}", class, w.replace(' ', "-")), json!({"bytes": render_bytes(bytes)}));
                        return;
                    }
                    if let Some(v) = invented {
                        cx.violation(&format!("{}|returned-coordinate-not-in-the-stream", class), json!({"coordinate": v, "bytes": render_bytes(bytes)}));
                        return;
                    }
                    cx.count("returned_values_made_of_the_stream");
                }
                // closure: what the reader returns can be written and read back to the same value
                let again = guard(|| {
                    let mut buf = Vec::new();
                    match lib.write(&mut buf) {
                        Ok(()) => Ok(GdsLibrary::from_bytes(&buf)),
                        Err(e) => Err(e),
                    }
                });
                match again {
                    Err(c) => cx.violation(&format!("{}|closure-panic|{}|{}", class, c.site(), c.norm_msg()), json!({"panic": c.msg, "bytes": render_bytes(bytes)})),
                    Ok(Err(e)) => cx.violation(&format!("{}|closure-write-error|{}", class, err_class(&e)), json!({"error": format!("{:?}", e).chars().take(200).collect::<String>(), "bytes": render_bytes(bytes)})),
                    Ok(Ok(Err(e))) => cx.violation(&format!("{}|closure-reread-error|{}", class, err_class(&e)), json!({"error": format!("{:?}", e).chars().take(200).collect::<String>(), "bytes": render_bytes(bytes)})),
                    Ok(Ok(Ok(l2))) => match lib_diff(&lib, &l2) {
                        Some((c2, at)) => cx.violation(&format!("{}|closure-mismatch|{}", class, c2), json!({"at": at, "bytes": render_bytes(bytes)})),
                        None => cx.count("closure_ok"),
                    },
                }
            }
        }
    }
    fn seed_stream(&self, cx: &mut Cx) -> (Vec<u8>, Vec<usize>) {
        let cfg = GenCfg { strclass: StrClass::Mixed, maxstr: 12, wide_reals: true, max_structs: 3, max_elems: 5, max_pts: 6 };
        // make sure seeds are not degenerate: at least one structure with one element
        let mut ast = rand_lib(&mut cx.rng, &cfg);
        if ast.structs.is_empty() {
            ast.structs.push(NStruct { dates: [1; 12], name: b"s".to_vec(), elems: vec![] });
        }
        if ast.structs[0].elems.is_empty() {
            let k = cx.rng.usize(7);
            let e = rand_elem(&mut cx.rng, &cfg, k, None, None, None, &[]);
            ast.structs[0].elems.push(e);
        }
        let e = encode(&ast, &EncOpts::default());
        (e.out, e.offsets)
    }
    fn truncations(&self, cx: &mut Cx, bytes: &[u8], offsets: &[usize], class: &str) {
        let mut st = Stats::default();
        let valid_len = bytes.len();
        let cuts: Vec<usize> = if valid_len <= 8192 {
            (0..valid_len).collect()
        } else {
            let mut v = Vec::new();
            for o in offsets {
                for d in -3i64..=3 {
                    let c = *o as i64 + d;
                    if c >= 0 && (c as usize) < valid_len {
                        v.push(c as usize);
                    }
                }
            }
            v.sort();
            v.dedup();
            v
        };
        cx.count_n("truncation_points", cuts.len() as u64);
        for c in cuts {
            self.probe(cx, &bytes[..c], true, class, &mut st);
        }
        // a stream cut at a record boundary and filled up with NUL bytes (tape / block padding, a file truncated and zero-extended, a sparse
        // copy): it still ends before its end-of-library record, whatever the padding looks like to a lenient reader
        let mut padded_cuts = 0;
        for (k, o) in offsets.iter().enumerate() {
            if *o == 0 || (offsets.len() > 64 && k % (offsets.len() / 32) != 0 && k + 3 < offsets.len()) {
                continue;
            }
            for pad in [2usize, 4, 6, 2048 - (*o % 2048)] {
                let mut v = bytes[..*o].to_vec();
                v.resize(*o + pad, 0);
                self.probe(cx, &v, true, class, &mut st);
                padded_cuts += 1;
            }
        }
        cx.count_n("truncations_padded_with_nul", padded_cuts);
        // and the whole stream is accepted (sanity of the seed)
        let mut st2 = Stats::default();
        self.probe(cx, bytes, false, class, &mut st2);
        if st2.ok == 1 {
            cx.count("seed_stream_accepted");
        } else {
            cx.count("seed_stream_rejected");
        }
    }
    /// History on one path: the valid stream is opened from a file, the file is then rewritten IN PLACE with a same-length faulted stream and its
    /// modification time put back (as `cp -p`, `rsync -t` or two writes within one timestamp tick leave it), and opened again.
    /// What `open` returns must still be what `from_bytes` makes of the bytes now in the file.
    fn same_path_history(&self, cx: &mut Cx, bytes: &[u8], offsets: &[usize], class: &str) {
        let path = cx.tmp("c10-history.gds");
        if std::fs::write(&path, bytes).is_err() {
            return;
        }
        let mtime = std::fs::metadata(&path).and_then(|m| m.modified()).ok();
        let first = guard(|| GdsLibrary::open(&path));
        if !matches!(first, Ok(Ok(_))) {
            return;
        }
        for k in 0..4 {
            // same length: one record's type byte replaced (ENDLIB -> BGNSTR, a random record -> ENDEL / garbage)
            let mut v = bytes.to_vec();
            let i = if k == 0 { offsets.len() - 1 } else { cx.rng.usize(offsets.len()) };
            v[offsets[i] + 2] = [0x05u8, 0x11, 0x7F, 0x00][k];
            if v == bytes || std::fs::write(&path, &v).is_err() {
                continue;
            }
            if let (Some(t), Ok(f)) = (mtime, std::fs::OpenOptions::new().write(true).open(&path)) {
                let _ = f.set_modified(t);
            }
            cx.eval();
            cx.count("same_path_rewrites");
            let (a, b) = (guard(|| GdsLibrary::from_bytes(&v)), guard(|| GdsLibrary::open(&path)));
            let same = match (&a, &b) {
                (Ok(Ok(x)), Ok(Ok(y))) => lib_diff(x, y).is_none(),
                (Ok(Err(_)), Ok(Err(_))) => true,
                (Err(_), Err(_)) => true,
                _ => false,
            };
            if !same {
                cx.violation(&format!("{}|file-entry|stale-or-different-after-in-place-rewrite", class), json!({"from_bytes_ok": matches!(a, Ok(Ok(_))), "open_ok": matches!(b, Ok(Ok(_))), "bytes": render_bytes(&v)}));
                break;
            }
        }
        let _ = std::fs::remove_file(&path);
    }
    fn record_faults(&self, cx: &mut Cx, bytes: &[u8], offsets: &[usize], class: &str) {
        self.same_path_history(cx, bytes, offsets, class);
        let mut st = Stats::default();
        let nrec = offsets.len();
        let rec_end = |i: usize| if i + 1 < nrec { offsets[i + 1] } else { bytes.len() };
        for i in 0..nrec {
            let (a, b) = (offsets[i], rec_end(i));
            let len = b - a;
            let with = |repl: &[u8]| -> Vec<u8> {
                let mut v = bytes[..a].to_vec();
                v.extend_from_slice(repl);
                v.extend_from_slice(&bytes[b..]);
                v
            };
            // length field faults
            for l in [0u16, 1, 2, 3, (len as u16) | 1, (len as u16).wrapping_sub(2), (len as u16).wrapping_add(2), 0xFFFF, 4, 6] {
                let mut r = bytes[a..b].to_vec();
                r[0..2].copy_from_slice(&l.to_be_bytes());
                self.probe(cx, &with(&r), false, class, &mut st);
                cx.count("fault.length");
            }
            // payload shortened / lengthened by one 16-bit word WITH the length field adjusted: the framing of everything after it stays
            // intact, only this record has a size its type cannot have (an XY of 4k+2 bytes, a real of 6, a string record is fine)
            if len >= 6 {
                let mut r = bytes[a..b - 2].to_vec();
                r[0..2].copy_from_slice(&((len - 2) as u16).to_be_bytes());
                self.probe(cx, &with(&r), false, class, &mut st);
                let mut r = bytes[a..b].to_vec();
                r.extend_from_slice(&[0x12, 0x34]);
                if len + 2 <= 0xFFFF {
                    r[0..2].copy_from_slice(&((len + 2) as u16).to_be_bytes());
                    self.probe(cx, &with(&r), false, class, &mut st);
                }
                cx.count("fault.payload_resized_consistently");
            }
            // payload emptied
            {
                let mut r = bytes[a..a + 4].to_vec();
                r[0..2].copy_from_slice(&4u16.to_be_bytes());
                self.probe(cx, &with(&r), false, class, &mut st);
                cx.count("fault.empty_payload");
            }
            // payload kept at its length but overwritten with all-zero / all-one bytes (all-NUL strings, zero counts, -1 values)
            if len > 4 {
                for fill in [0x00u8, 0xFF] {
                    let mut r = bytes[a..b].to_vec();
                    for x in r[4..].iter_mut() {
                        *x = fill;
                    }
                    self.probe(cx, &with(&r), false, class, &mut st);
                    cx.count("fault.payload_fill");
                }
            }
            // record type replaced by each code (valid or not)
            for t in (0u8..=0x3D).chain([0x7F, 0xFF]) {
                if t == bytes[a + 2] {
                    continue;
                }
                let mut r = bytes[a..b].to_vec();
                r[2] = t;
                self.probe(cx, &with(&r), false, class, &mut st);
                cx.count("fault.rtype");
            }
            // data type replaced
            for d in (0u8..=7).chain([0xFF]) {
                if d == bytes[a + 3] {
                    continue;
                }
                let mut r = bytes[a..b].to_vec();
                r[3] = d;
                self.probe(cx, &with(&r), false, class, &mut st);
                cx.count("fault.dtype");
            }
            // a well-formed record of every kind in the specification inserted BEFORE this record (spec data type, small valid payload):
            // library-level optional records (REFLIBS, FONTS, ATTRTABLE, GENERATIONS, FORMAT 0/1 with and without MASK/ENDMASKS, ...),
            // element records out of place, a second HEADER / ENDLIB, ...
            for rec in catalog() {
                let mut v = bytes[..a].to_vec();
                v.extend_from_slice(&rec);
                v.extend_from_slice(&bytes[a..]);
                self.probe(cx, &v, false, class, &mut st);
                cx.count("fault.insert");
            }
            // deleted / duplicated / swapped with next / spliced from elsewhere
            self.probe(cx, &with(&[]), false, class, &mut st);
            cx.count("fault.delete");
            let mut dup = bytes[a..b].to_vec();
            dup.extend_from_slice(&bytes[a..b]);
            self.probe(cx, &with(&dup), false, class, &mut st);
            cx.count("fault.duplicate");
            if i + 1 < nrec {
                let (c, d) = (offsets[i + 1], rec_end(i + 1));
                let mut v = bytes[..a].to_vec();
                v.extend_from_slice(&bytes[c..d]);
                v.extend_from_slice(&bytes[a..b]);
                v.extend_from_slice(&bytes[d..]);
                self.probe(cx, &v, false, class, &mut st);
                cx.count("fault.swap");
            }
            let j = cx.rng.usize(nrec);
            let (c, d) = (offsets[j], rec_end(j));
            self.probe(cx, &with(&bytes[c..d]), false, class, &mut st);
            cx.count("fault.splice");
        }
        cx.count_n("mutants_accepted", st.ok);
        cx.count_n("mutants_rejected", st.err);
    }
}

impl Prop for C10 {
    fn id(&self) -> &'static str {
        "C10"
    }
    fn level(&self) -> &'static str {
        "fault_enumeration"
    }
    fn rule(&self) -> String {
        "Seeds: streams from the independent reference encoder (random libraries incl. wide reals, empty/UTF-8 strings) and the repository's .gds files. Per seed: EVERY truncation point (all prefixes for seeds <= 8 KB; every record boundary +-3 bytes for larger), \
         and for EVERY record: length field := 0,1,2,3,odd,len-2,len+2,0xFFFF,4,6; payload emptied; payload overwritten with 0x00 / 0xFF; record type := each of 0x00..0x3D,0x7F,0xFF; data type := 0..7,0xFF; record deleted, duplicated, swapped with the next, replaced by another record of the stream, preceded by an inserted well-formed record of each of the specification's record types (FORMAT with and without its mask list included); \
         plus random byte flips, pure noise and size-scaling streams (2^6..2^16 elements). Monitors on each execution of GdsLibrary::from_bytes: panic capture; logical step budget via hooks (records read <= len/4+2, parser steps <= that+8); \
         strict prefixes must be Err; every Ok(lib) must write and re-read equal. distinct_nontrivial = distinct input byte strings (hash) that reached the reader."
            .into()
    }
    fn assumptions(&self) -> Vec<String> {
        vec![
            "'time proportional to input length' is restated as a bounded-progress safety property on logical steps counted by hooks in read_record_header and GdsParser::next; wall-clock is a watchdog only (inconclusive)".into(),
            "memory-safety clause: no unsafe in gds21; sanitizer legs (ASan/Miri) are secondary and reported separately in the evidence when run".into(),
        ]
    }
    fn plan(&self, tier: Tier) -> Vec<GenSpec> {
        vec![
            GenSpec::random("truncate-gen", tier.pick(150, 6_000)),
            GenSpec::enumerated("truncate-repo", REPO_GDS.len() as u64),
            GenSpec::random("faults-gen", tier.pick(60, 5_000)),
            GenSpec::enumerated("faults-repo", REPO_GDS.len() as u64 * 16),
            GenSpec::random("byte-flips", tier.pick(200, 10_000)),
            GenSpec::random("noise", tier.pick(200, 10_000)),
            GenSpec::enumerated("scaling", tier.pick(8, 11)),
            // single records between 32 KiB and the 65534-byte limit (what a foreign writer may legally produce): accepted ones must be writable again
            GenSpec::random("big-records", tier.pick(24, 400)),
            // one byte of one string made a byte that cannot stand there in UTF-8: every position of every string length 1..=96 and
            // around 128 .. 4096 (a validity scan that goes by words or blocks has windows it never looks at)
            GenSpec::enumerated("string-bytes", STRING_BYTE_LENGTHS.len() as u64),
            // one well-formed record repeated tens of thousands of times in a row (MAG, ANGLE, PROPATTR/PROPVALUE pairs, XY, STRING ...):
            // handling a run must need neither time nor stack proportional to more than its length
            GenSpec::enumerated("long-runs", tier.pick(8, 24)),
            // interpreter-sized cases for the Miri leg (tools/legs.sh runs them one by one through `lvh one`); not part of the native plan
            GenSpec::random("miri-sample", 0),
            // instruction-count leg (tools/irleg.sh runs these under valgrind --tool=cachegrind): one parse of a stream of 512 * 2^(n/2) elements;
            // odd n: the same stream with its last record corrupted (error path). Not part of the native plan.
            GenSpec::enumerated("ir-scale", 0),
        ]
    }
    fn run_case(&self, cx: &mut Cx) {
        match cx.gen.as_str() {
            "truncate-gen" => {
                let (bytes, offs) = self.seed_stream(cx);
                cx.nontrivial(crate::rt::prng::byteshash(&bytes));
                self.truncations(cx, &bytes, &offs, "truncate");
                cx.sample(|| json!({"seed_stream": render_bytes(&bytes), "prefixes": bytes.len()}));
            }
            "truncate-repo" => {
                let p = REPO_GDS[cx.n as usize];
                match std::fs::read(p) {
                    Ok(bytes) if !bytes.is_empty() => {
                        // frame the records ourselves (the files are not in BNF order, framing is all we need)
                        let mut offs = Vec::new();
                        let mut pos = 0;
                        while pos + 4 <= bytes.len() {
                            offs.push(pos);
                            let l = u16::from_be_bytes([bytes[pos], bytes[pos + 1]]) as usize;
                            if l < 4 || bytes[pos + 2] == 0x04 {
                                pos += l.max(4);
                                break;
                            }
                            pos += l;
                        }
                        let valid = &bytes[..pos.min(bytes.len())];
                        cx.nontrivial(crate::rt::prng::byteshash(valid));
                        self.truncations(cx, valid, &offs, "truncate");
                        cx.sample(|| json!({"file": p, "records": offs.len()}));
                    }
                    _ => cx.count("repo_files_missing"),
                }
            }
            "string-bytes" => {
                let l = STRING_BYTE_LENGTHS[cx.n as usize];
                fn rec(rt: u8, dt: u8, payload: &[u8]) -> Vec<u8> {
                    let mut p = payload.to_vec();
                    if p.len() % 2 == 1 {
                        p.push(0);
                    }
                    let mut v = ((p.len() + 4) as u16).to_be_bytes().to_vec();
                    v.push(rt);
                    v.push(dt);
                    v.extend_from_slice(&p);
                    v
                }
                let i16s = |xs: &[i16]| xs.iter().flat_map(|x| x.to_be_bytes()).collect::<Vec<u8>>();
                let one = 0x4110_0000_0000_0000u64.to_be_bytes();
                let text: Vec<u8> = (0..l).map(|i| b'a' + (i % 26) as u8).collect();
                // which string record carries the long string: 0 = TEXT STRING, 1 = PROPVALUE, 2 = STRNAME (+ nothing refers to it), 3 = LIBNAME
                let mut st = Stats::default();
                for site in 0..4usize {
                    let s_of = |k: usize| if k == site { text.clone() } else { b"ab".to_vec() };
                    let mut v = Vec::new();
                    v.extend(rec(0x00, 2, &i16s(&[600])));
                    v.extend(rec(0x01, 2, &i16s(&[1; 12])));
                    v.extend(rec(0x02, 6, &s_of(3)));
                    v.extend(rec(0x03, 5, &[one, one].concat()));
                    v.extend(rec(0x05, 2, &i16s(&[1; 12])));
                    v.extend(rec(0x06, 6, &s_of(2)));
                    v.extend(rec(0x0C, 0, &[]));
                    v.extend(rec(0x0D, 2, &i16s(&[1])));
                    v.extend(rec(0x16, 2, &i16s(&[0])));
                    v.extend(rec(0x10, 3, &[0u8; 8]));
                    let string_at = v.len() + 4;
                    v.extend(rec(0x19, 6, &s_of(0)));
                    v.extend(rec(0x2B, 2, &i16s(&[7])));
                    v.extend(rec(0x2C, 6, &s_of(1)));
                    v.extend(rec(0x11, 0, &[]));
                    v.extend(rec(0x07, 0, &[]));
                    v.extend(rec(0x04, 0, &[]));
                    // where the long string's payload starts
                    let at = match site {
                        0 => string_at,
                        _ => {
                            let mut pos = 0usize;
                            let want = [0x19u8, 0x2C, 0x06, 0x02][site];
                            let mut found = 0;
                            while pos + 4 <= v.len() {
                                let rl = u16::from_be_bytes([v[pos], v[pos + 1]]) as usize;
                                if v[pos + 2] == want {
                                    found = pos + 4;
                                    break;
                                }
                                pos += rl;
                            }
                            found
                        }
                    };
                    if site < 2 || l <= 96 {
                        self.probe(cx, &v, false, "string-bytes|intact", &mut st);
                        // positions: all for short strings, a window around every multiple of 8 near the ends and a stride elsewhere for long ones
                        let positions: Vec<usize> = if l <= 160 { (0..l).collect() } else { (0..l).filter(|p| *p < 72 || l - *p <= 72 || p % 61 == 0).collect() };
                        for p in positions {
                            for bad in [0x80u8, 0xA9, 0xC3, 0xE2, 0xFF] {
                                let mut m = v.clone();
                                m[at + p] = bad;
                                // 0xC3 / 0xE2 start a sequence: make sure what follows is not a continuation byte (it is ASCII here), so the text is invalid
                                self.probe(cx, &m, false, "string-bytes", &mut st);
                                cx.eval();
                            }
                        }
                    }
                }
                cx.nontrivial(0x57B7_0000 | l as u64);
                cx.count_n("string_byte_mutants_accepted", st.ok);
                cx.count_n("string_byte_mutants_rejected", st.err);
                cx.sample(|| json!({"string_length": l}));
            }
            "big-records" => {
                let (ast, what) = big_record_lib(&mut cx.rng);
                cx.count(&format!("big_{}_records", what));
                let e = encode(&ast, &EncOpts::default());
                cx.nontrivial(crate::rt::prng::byteshash(&e.out));
                let mut st = Stats::default();
                self.probe(cx, &e.out, false, "big-record", &mut st);
                cx.count_n("big_record_streams_accepted", st.ok);
                cx.count_n("big_record_streams_rejected", st.err);
                // and cut inside / at the edges of the big record
                for c in [e.out.len() - 1, e.out.len() - 4, e.out.len() / 2, 40000.min(e.out.len() - 5)] {
                    self.probe(cx, &e.out[..c], true, "big-record", &mut st);
                }
                // the same stream with the payload of its biggest STRING record replaced by bytes that are not UTF-8 (Latin-1 text, 0x80, 0xFF):
                // whatever the reader makes of them, a library it returns must be writable again (a decoded string may not outgrow a record)
                let (mut pos, mut best) = (0usize, (0usize, 0usize));
                while pos + 4 <= e.out.len() {
                    let l = u16::from_be_bytes([e.out[pos], e.out[pos + 1]]) as usize;
                    if l < 4 {
                        break;
                    }
                    if e.out[pos + 3] == 0x06 && l > best.1 {
                        best = (pos, l);
                    }
                    pos += l;
                }
                if best.1 > 1000 {
                    for fill in [0xFFu8, 0x80, 0xE9] {
                        let mut v = e.out.clone();
                        for b in v[best.0 + 4..best.0 + best.1].iter_mut() {
                            *b = fill;
                        }
                        self.probe(cx, &v, false, "big-record|non-utf8-string", &mut st);
                        cx.count("big_records_with_non_utf8_payload");
                    }
                }
                cx.sample(|| json!({"big_record_stream_bytes": e.out.len()}));
            }
            "faults-gen" => {
                let (bytes, offs) = self.seed_stream(cx);
                cx.nontrivial(crate::rt::prng::byteshash(&bytes));
                self.record_faults(cx, &bytes, &offs, "record-fault");
                cx.sample(|| json!({"seed_stream": render_bytes(&bytes), "records": offs.len()}));
            }
            "faults-repo" => {
                // a 1/16 slice of the records of a repository file per case
                let p = REPO_GDS[(cx.n / 16) as usize];
                let slice = (cx.n % 16) as usize;
                match std::fs::read(p) {
                    Ok(bytes) if !bytes.is_empty() => {
                        let mut offs = Vec::new();
                        let mut pos = 0;
                        while pos + 4 <= bytes.len() {
                            offs.push(pos);
                            let l = u16::from_be_bytes([bytes[pos], bytes[pos + 1]]) as usize;
                            if l < 4 {
                                break;
                            }
                            pos += l;
                            if bytes[offs[offs.len() - 1] + 2] == 0x04 {
                                break;
                            }
                        }
                        let valid = bytes[..pos.min(bytes.len())].to_vec();
                        // restrict faults to this slice by building a sub-list of offsets, keeping the stream whole
                        let mine: Vec<usize> = (0..offs.len()).filter(|i| i % 16 == slice).collect();
                        let mut st = Stats::default();
                        for &i in mine.iter().take(200) {
                            let a = offs[i];
                            let b = if i + 1 < offs.len() { offs[i + 1] } else { valid.len() };
                            let len = b - a;
                            for l in [0u16, 2, 3, (len as u16) | 1, (len as u16).wrapping_sub(2), (len as u16).wrapping_add(2), 0xFFFF] {
                                let mut v = valid.clone();
                                v[a..a + 2].copy_from_slice(&l.to_be_bytes());
                                self.probe(cx, &v, false, "record-fault", &mut st);
                            }
                            for t in [0x00u8, 0x04, 0x07, 0x11, 0x10, 0x19, 0x2C, 0x3B, 0x3C] {
                                let mut v = valid.clone();
                                v[a + 2] = t;
                                self.probe(cx, &v, false, "record-fault", &mut st);
                            }
                            let mut v = valid[..a].to_vec();
                            v.extend_from_slice(&valid[b..]);
                            self.probe(cx, &v, false, "record-fault", &mut st);
                        }
                        cx.nontrivial(crate::rt::prng::byteshash(&valid) ^ slice as u64);
                        cx.count_n("mutants_accepted", st.ok);
                        cx.count_n("mutants_rejected", st.err);
                        cx.sample(|| json!({"file": p, "slice": slice, "records_faulted": mine.len().min(200)}));
                    }
                    _ => cx.count("repo_files_missing"),
                }
            }
            "byte-flips" => {
                let (bytes, _) = self.seed_stream(cx);
                let mut st = Stats::default();
                for _ in 0..200 {
                    let mut v = bytes.clone();
                    for _ in 0..(1 + cx.rng.usize(4)) {
                        let i = cx.rng.usize(v.len());
                        v[i] ^= 1 << cx.rng.below(8);
                    }
                    cx.nontrivial(crate::rt::prng::byteshash(&v));
                    self.probe(cx, &v, false, "byte-flip", &mut st);
                }
                cx.count_n("mutants_accepted", st.ok);
                cx.count_n("mutants_rejected", st.err);
                cx.sample(|| json!({"seed_stream": render_bytes(&bytes), "flips": 200}));
            }
            "noise" => {
                let mut st = Stats::default();
                for k in 0..100 {
                    let n = cx.rng.usize(300);
                    let mut v: Vec<u8> = (0..n).map(|_| cx.rng.u32() as u8).collect();
                    if k % 2 == 0 && v.len() >= 4 {
                        // plausible first record so that parsing gets further
                        let head = [0u8, 6, 0, 2, 2, 0x58, 0, 28, 1, 2];
                        let m = head.len().min(v.len());
                        v[..m].copy_from_slice(&head[..m]);
                    }
                    cx.nontrivial(crate::rt::prng::byteshash(&v));
                    self.probe(cx, &v, false, "noise", &mut st);
                }
                cx.count_n("mutants_accepted", st.ok);
                cx.count_n("mutants_rejected", st.err);
                cx.sample(|| json!({"noise_inputs": 100}));
            }
            "miri-sample" => {
                // three executions: a valid stream, a strict prefix of it, and one record-level fault
                let (bytes, offs) = self.seed_stream(cx);
                let mut st = Stats::default();
                self.probe(cx, &bytes, false, "miri", &mut st);
                let cut = cx.rng.usize(bytes.len());
                self.probe(cx, &bytes[..cut], true, "miri", &mut st);
                let i = cx.rng.usize(offs.len());
                let mut v = bytes.clone();
                match cx.rng.below(3) {
                    0 => v[offs[i] + 1] = v[offs[i] + 1].wrapping_add(2),
                    1 => v[offs[i] + 2] = cx.rng.below(0x3C) as u8,
                    _ => { v[offs[i]] = 0; v[offs[i] + 1] = 4; }
                }
                self.probe(cx, &v, false, "miri", &mut st);
                cx.nontrivial(crate::rt::prng::byteshash(&bytes));
            }
            "long-runs" => {
                let reps = 40_000usize << (cx.n / 8);
                let strans = Some(NStrans { flags: 0, mag: Some(encode_ref(2.0).unwrap()), angle: Some(encode_ref(90.0).unwrap()) });
                let sref = NElem { elflags: Some([0, 1]), plex: Some(3), kind: NKind::Sref { sname: b"t".to_vec(), strans, xy: vec![1, 2] }, props: vec![(1, b"pv".to_vec())] };
                let text = NElem { elflags: None, plex: None, kind: NKind::Text { layer: 1, texttype: 0, presentation: Some([0, 5]), pathtype: Some(0), width: Some(2), strans: None, xy: vec![0, 0], string: b"tx".to_vec() }, props: vec![] };
                let one = NLib { version: 600, name: b"runs".to_vec(), units: (encode_ref(1e-3).unwrap(), encode_ref(1e-9).unwrap()), structs: vec![NStruct { dates: [0; 12], name: b"s".to_vec(), elems: vec![sref, text] }], ..Default::default() };
                let e = encode(&one, &EncOpts::default());
                // which record to repeat: MAG, ANGLE, PROPATTR+PROPVALUE (as a pair), ELFLAGS, PLEX, STRING, XY, ENDEL+SREF.. (a run of tiny elements)
                let want_rt: u8 = [0x1B, 0x1C, 0x2B, 0x26, 0x2F, 0x19, 0x10, 0x17][(cx.n % 8) as usize];
                if let Some(i) = e.offsets.iter().position(|o| e.out[*o + 2] == want_rt) {
                    let a = e.offsets[i];
                    let b = if want_rt == 0x2B { e.offsets[i + 2] } else { e.offsets[i + 1] };
                    let mut v = e.out[..b].to_vec();
                    for _ in 0..reps {
                        v.extend_from_slice(&e.out[a..b]);
                    }
                    v.extend_from_slice(&e.out[b..]);
                    cx.nontrivial(crate::rt::prng::byteshash(&v[..b.min(200)]) ^ reps as u64);
                    let mut st = Stats::default();
                    self.probe(cx, &v, false, "long-run", &mut st);
                    cx.count_n("long_runs_accepted", st.ok);
                    cx.count_n("long_runs_rejected", st.err);
                    cx.max("max.long_run_records", reps as u64);
                }
            }
            "ir-scale" => {
                // n = 100 * shape + 2 * size index + path; shapes: 0 one structure with many elements, 1 many structures of one element,
                // 2 one element with many properties, 3 one reference followed by a long run of MAG records
                let (shape, k) = (cx.n / 100, cx.n % 100);
                // base sizes chosen so that a per-item scan over everything read so far would dominate the linear cost at the larger sizes,
                // and so that recursion proportional to a run length would exhaust the stack
                let base = match shape { 1 => 4096usize, 3 => 65536, _ => 512 };
                let n = base << (k / 2);
                let mut rng = Rng::new(0x1A5C); // the same element stream at every size (prefix-extended), independent of the seed
                let cfg = GenCfg { strclass: StrClass::Ascii, maxstr: 8, wide_reals: false, max_structs: 1, max_elems: 0, max_pts: 5 };
                let mut elems: Vec<NElem> = (0..if shape == 3 { 1 } else { n }).map(|_| { let kind = rng.usize(7); rand_elem(&mut rng, &cfg, kind, None, None, Some(0), &[]) }).collect();
                let structs = match shape {
                    1 => elems.drain(..).enumerate().map(|(i, e)| NStruct { dates: [0; 12], name: format!("s{}", i).into_bytes(), elems: vec![e] }).collect(),
                    2 => {
                        let props: Vec<(i16, Vec<u8>)> = (0..n).map(|i| ((i % 120) as i16 + 1, b"pv".to_vec())).collect();
                        vec![NStruct { dates: [0; 12], name: b"s".to_vec(), elems: vec![NElem { elflags: None, plex: None, kind: NKind::Boundary { layer: 1, datatype: 0, xy: vec![0, 0, 4, 0, 4, 4, 0, 0] }, props }] }]
                    }
                    _ => vec![NStruct { dates: [0; 12], name: b"s".to_vec(), elems }],
                };
                let ast = NLib { version: 600, name: b"ir".to_vec(), units: (encode_ref(1e-3).unwrap(), encode_ref(1e-9).unwrap()), structs, ..Default::default() };
                let mut bytes = encode(&ast, &EncOpts::default()).out;
                if shape == 3 {
                    // HEADER .. one SREF with STRANS, then `n` MAG records in a row, ANGLE, XY, ENDEL ...: legal record by record
                    let sref = NElem { elflags: None, plex: None, kind: NKind::Sref { sname: b"t".to_vec(), strans: Some(NStrans { flags: 0, mag: Some(encode_ref(2.0).unwrap()), angle: None }), xy: vec![1, 2] }, props: vec![] };
                    let one = NLib { version: 600, name: b"ir".to_vec(), units: (encode_ref(1e-3).unwrap(), encode_ref(1e-9).unwrap()), structs: vec![NStruct { dates: [0; 12], name: b"s".to_vec(), elems: vec![sref] }], ..Default::default() };
                    let e = encode(&one, &EncOpts::default());
                    let mag = e.offsets.iter().position(|o| e.out[*o + 2] == 0x1B).map(|i| (e.offsets[i], e.offsets[i + 1]));
                    if let Some((a, b)) = mag {
                        let mut v = e.out[..b].to_vec();
                        for _ in 0..n {
                            v.extend_from_slice(&e.out[a..b]);
                        }
                        v.extend_from_slice(&e.out[b..]);
                        bytes = v;
                    }
                }
                if k % 2 == 1 {
                    let l = bytes.len();
                    bytes[l - 2] = 0x7F; // ENDLIB's record type replaced: the reader walks the whole stream, then fails
                }
                cx.eval();
                let r = guard(|| GdsLibrary::from_bytes(&bytes));
                cx.count(match r { Ok(Ok(_)) => "ir_scale_accepted", Ok(Err(_)) => "ir_scale_rejected", Err(_) => "ir_scale_panicked" });
                cx.max("max.ir_scale_bytes", bytes.len() as u64);
            }
            "scaling" => {
                // streams of 2^k elements: steps per byte must stay within the same budget at every size
                let k = 6 + cx.n;
                let n = 1usize << k;
                let cfg = GenCfg { strclass: StrClass::Ascii, maxstr: 8, wide_reals: false, max_structs: 1, max_elems: 0, max_pts: 5 };
                let mut elems = Vec::with_capacity(n);
                for _ in 0..n {
                    let kind = cx.rng.usize(7);
                    elems.push(rand_elem(&mut cx.rng, &cfg, kind, None, None, Some(0), &[]));
                }
                let ast = NLib { version: 600, name: b"big".to_vec(), units: (crate::refs::gdsreal::encode_ref(1e-3).unwrap(), crate::refs::gdsreal::encode_ref(1e-9).unwrap()),
                    structs: vec![NStruct { dates: [0; 12], name: b"s".to_vec(), elems }], ..Default::default() };
                let bytes = encode(&ast, &EncOpts::default()).out;
                let mut st = Stats::default();
                let t0 = std::time::Instant::now();
                self.probe(cx, &bytes, false, "scaling", &mut st);
                let dt = t0.elapsed().as_secs_f64();
                // a truncated and a corrupted variant at the same size
                self.probe(cx, &bytes[..bytes.len() - 5], true, "scaling", &mut st);
                cx.nontrivial(crate::rt::prng::byteshash(&bytes));
                cx.max("max.scaling_bytes", bytes.len() as u64);
                cx.sample(|| json!({"elements": n, "bytes": bytes.len(), "wall_us_reported_not_judged": (dt * 1e6) as u64}));
            }
            other => cx.inconclusive(format!("unknown generator {}", other)),
        }
    }
    fn finish(&self, total: &mut Rec, _tier: Tier) {
        if total.counters.get("hook.gds_records_read").copied().unwrap_or(0) == 0 {
            total.inconclusive.push("step-counter hook never fired (hooks not compiled in?)".into());
        }
        if total.counters.get("seed_stream_accepted").copied().unwrap_or(0) == 0 {
            total.inconclusive.push("no seed stream was accepted in full".into());
        }
    }
}
