//! C13 — point-in-shape answers agree with exact geometry.

use crate::gen::shapes::*;
use crate::refs::geom::*;
use crate::rt::*;
use layout21raw::{Path, Point, Polygon, Rect, Shape, ShapeTrait};
use serde_json::json;

pub struct C13;

fn pt(p: P) -> Point {
    Point::new(p.0 as isize, p.1 as isize)
}
fn grid_pt(i: u64) -> P {
    ((i % 4) as i64, (i / 4) as i64)
}

impl C13 {
    fn check_poly(&self, cx: &mut Cx, poly: &[P], queries: &[P], class: &str) {
        let shape = Shape::Polygon(Polygon { points: poly.iter().map(|p| pt(*p)).collect() });
        // besides the caller's points: points level with the polygon (at a vertex's height, at mid-height) but very far to either side -
        // clearly outside, and far enough for a product of a height and a horizontal distance to leave 64 bits
        let mut all: Vec<P> = queries.to_vec();
        if !poly.is_empty() {
            let (ylo, yhi) = (poly.iter().map(|p| p.1).min().unwrap(), poly.iter().map(|p| p.1).max().unwrap());
            for y in [poly[0].1, ylo + (yhi - ylo) / 2] {
                for x in [1i64 << 62, -(1i64 << 62), 1i64 << 40, i64::MAX - 1, i64::MIN + 2] {
                    all.push((x, y));
                }
            }
        }
        for &q in all.iter() {
            cx.eval();
            let want = poly_contains(poly, q);
            let got = match guard(|| shape.contains(&pt(q))) {
                Ok(g) => g,
                Err(c) => {
                    cx.violation(&format!("{}|panic|{}|{}", class, c.site(), c.norm_msg()), json!({"polygon": poly, "point": q, "panic": c.msg}));
                    return;
                }
            };
            if got != want {
                // witness class: does the horizontal line through q pass through a vertex strictly to its right?
                let through_vertex = poly.iter().any(|v| v.1 == q.1 && v.0 > q.0);
                let on_boundary = (0..poly.len()).any(|k| on_segment(q, poly[k], poly[(k + 1) % poly.len()]));
                let w = if on_boundary {
                    "boundary-point-reported-outside"
                } else if want {
                    if through_vertex { "inside-reported-outside|ray-through-vertex" } else { "inside-reported-outside" }
                } else if through_vertex {
                    "outside-reported-inside|ray-through-vertex"
                } else {
                    "outside-reported-inside|near-edge"
                };
                cx.count("polygon_disagreements");
                cx.violation(&format!("{}|{}", class, w), json!({"polygon": poly, "point": q, "contains": got, "exact": want}));
            } else {
                cx.count(if want { "agree_inside" } else { "agree_outside" });
            }
        }
    }
    fn enumerate_polys(&self, cx: &mut Cx, k: usize, verts: &mut Vec<P>, used: &mut [bool; 16], queries: &[P], derived: bool) {
        if verts.len() == k {
            if is_simple(verts) {
                cx.nontrivial(crate::rt::prng::strhash(&format!("{:?}", verts)));
                cx.count(&format!("simple_polygons_{}v", k));
                self.check_poly(cx, verts, queries, "polygon-grid");
                if derived {
                    // repeated vertex
                    for i in 0..k {
                        let mut v = verts.clone();
                        v.insert(i, verts[i]);
                        self.check_poly(cx, &v, queries, "polygon-grid-repeated-vertex");
                    }
                    // inserted collinear vertex, where an edge has an interior lattice point
                    for i in 0..k {
                        let (a, b) = (verts[i], verts[(i + 1) % k]);
                        let (dx, dy) = (b.0 - a.0, b.1 - a.1);
                        for g in [2, 3] {
                            if dx % g == 0 && dy % g == 0 {
                                let mut v = verts.clone();
                                v.insert(i + 1, (a.0 + dx / g, a.1 + dy / g));
                                self.check_poly(cx, &v, queries, "polygon-grid-collinear-vertex");
                                break;
                            }
                        }
                    }
                }
            }
            return;
        }
        for i in 0..16 {
            if !used[i] {
                used[i] = true;
                verts.push(grid_pt(i as u64));
                self.enumerate_polys(cx, k, verts, used, queries, derived);
                verts.pop();
                used[i] = false;
            }
        }
    }
    fn check_path(&self, cx: &mut Cx, pts: &[P], w: i64, queries: &[P]) {
        let shape = Shape::Path(Path { points: pts.iter().map(|p| pt(*p)).collect(), width: w as usize });
        for &q in queries {
            cx.eval();
            let got = match guard(|| shape.contains(&pt(q))) {
                Ok(g) => g,
                Err(c) => {
                    cx.violation(&format!("path|panic|{}|{}", c.site(), c.norm_msg()), json!({"path": pts, "width": w, "point": q, "panic": c.msg}));
                    return;
                }
            };
            match path_class(pts, w, q) {
                PathClass::MustBeInside => {
                    if !got {
                        cx.violation("path|inside-reported-outside", json!({"path": pts, "width": w, "point": q}));
                    } else {
                        cx.count("path_agree_inside");
                    }
                }
                PathClass::MustBeOutside => {
                    if got {
                        cx.violation("path|outside-reported-inside", json!({"path": pts, "width": w, "point": q}));
                    } else {
                        cx.count("path_agree_outside");
                    }
                }
                PathClass::CapBand => cx.count(if got { "path_capband_true_not_judged" } else { "path_capband_false_not_judged" }),
            }
        }
    }
}

impl Prop for C13 {
    fn id(&self) -> &'static str {
        "C13"
    }
    fn rule(&self) -> String {
        "EXHAUSTIVE: all 256 rectangles (incl. degenerate) and all simple polygons with 3..5 (quick) / 3..6 (thorough) vertices on the 4x4 integer grid, as vertex sequences (so every start vertex and both orientations occur), \
         each queried at all 36 points of the surrounding 6x6 grid; derived variants with a repeated vertex and with an inserted collinear vertex. SEEDED RANDOM: polyomino outlines (<=60 cells, optional kept collinear vertices), \
         their 45-degree chamfered versions, star-shaped general polygons with coordinates up to 1e6, dressed by scale/offset/start-vertex rotation/reversal and queried on every vertex and its 8 neighbours, edge midpoints and neighbours, \
         points at each vertex's height left/right of and inside the bounding box, random and far points; Manhattan paths (2-12 points, width 1-40; one in twelve a dot, all points coincident); four neighbouring paths queried in one shuffled stream (an answer may not depend on the previous query). Oracle: exact closed-region membership by integer cross products (refs/geom.rs); \
         for paths: true required inside a segment's own rectangle, false required farther than w/2 from all segments, the end-cap/outer-corner band is counted but not judged. distinct_nontrivial = distinct shapes (vertex sequences) queried."
            .into()
    }
    fn assumptions(&self) -> Vec<String> {
        vec![
            "polygons are simple (non-adjacent edges disjoint, non-zero area) apart from the explicitly derived repeated/collinear-vertex variants".into(),
            "raw Path carries no end style: points whose only claim to membership is an end cap or outer corner are not judged".into(),
            "trusted base: refs/geom.rs (i128 cross products), unit-tested".into(),
        ]
    }
    fn miri_gen(&self) -> Option<&'static str> {
        Some("paths-interleaved")
    }
    fn plan(&self, tier: Tier) -> Vec<GenSpec> {
        let mut v = vec![
            GenSpec::enumerated("rects-grid", 16),
            GenSpec::enumerated("polygons-grid-3", 240),
            GenSpec::enumerated("polygons-grid-4", 240),
            GenSpec::enumerated("polygons-grid-5", 240),
        ];
        if tier == Tier::Thorough {
            v.push(GenSpec::enumerated("polygons-grid-6", 240));
        }
        v.push(GenSpec::random("polyomino", tier.pick(3_000, 300_000)));
        v.push(GenSpec::random("chamfer45", tier.pick(2_000, 200_000)));
        // many-cornered convex polygons (round pads, 3..=130 corners) in every starting vertex and both directions, queried at their
        // corners and one unit inside / outside the four extreme ones
        v.push(GenSpec::enumerated("round-pads", 128));
        v.push(GenSpec::random("star", tier.pick(3_000, 300_000)));
        // triangles and convex quadrilaterals with coordinates up to 2^29 (inside the 32-bit GDSII range, products of differences beyond 2^53),
        // queried at lattice points within two units of their long slanted edges
        v.push(GenSpec::random("huge-coordinates", tier.pick(2_000, 200_000)));
        v.push(GenSpec::random("rects-random", tier.pick(2_000, 100_000)));
        v.push(GenSpec::random("paths", tier.pick(3_000, 300_000)));
        v.push(GenSpec::random("paths-interleaved", tier.pick(1_500, 150_000)));
        v.push(GenSpec::random("edited-in-place", tier.pick(1_500, 100_000)));
        v
    }
    fn run_case(&self, cx: &mut Cx) {
        let grid36: Vec<P> = (0..36).map(|i| ((i % 6) as i64 - 1, (i / 6) as i64 - 1)).collect();
        let gen = cx.gen.clone();
        match gen.as_str() {
            "rects-grid" => {
                let p0 = grid_pt(cx.n);
                for j in 0..16 {
                    let p1 = grid_pt(j);
                    let shape = Shape::Rect(Rect { p0: pt(p0), p1: pt(p1) });
                    cx.nontrivial(cx.n * 16 + j);
                    for &q in &grid36 {
                        cx.eval();
                        let want = rect_contains(p0, p1, q);
                        match guard(|| shape.contains(&pt(q))) {
                            Ok(g) if g == want => cx.count(if want { "agree_inside" } else { "agree_outside" }),
                            Ok(g) => cx.violation("rect|wrong-answer", json!({"p0": p0, "p1": p1, "point": q, "contains": g, "exact": want})),
                            Err(c) => cx.violation(&format!("rect|panic|{}", c.norm_msg()), json!({"panic": c.msg})),
                        }
                    }
                }
                cx.sample(|| json!({"rect_p0": p0, "p1": "all 16 grid points", "queries": 36}));
            }
            g if g.starts_with("polygons-grid-") => {
                let k: usize = g["polygons-grid-".len()..].parse().unwrap();
                // n encodes the first two vertices
                let (a, b) = ((cx.n / 15) as usize, (cx.n % 15) as usize);
                let b = if b >= a { b + 1 } else { b };
                let mut used = [false; 16];
                used[a] = true;
                used[b] = true;
                let mut verts = vec![grid_pt(a as u64), grid_pt(b as u64)];
                let derived = k <= 5;
                self.enumerate_polys(cx, k, &mut verts, &mut used, &grid36, derived);
                cx.sample(|| json!({"first_two_vertices": [grid_pt(a as u64), grid_pt(b as u64)], "vertices": k}));
            }
            "polyomino" | "chamfer45" => {
                let ncells = 2 + cx.rng.usize(59);
                let keep = cx.rng.bool();
                if let Some(base) = polyomino_outline(&mut cx.rng, ncells, keep) {
                    let base = if gen == "chamfer45" { chamfer45(&base) } else { base };
                    if !is_simple(&base) {
                        cx.count("rejected_not_simple");
                        return;
                    }
                    let poly = dress(&mut cx.rng, &base, 40, 100_000);
                    let qs = probe_points(&mut cx.rng, &poly, 40);
                    cx.nontrivial(crate::rt::prng::strhash(&format!("{:?}", poly)));
                    cx.count(&format!("{}_shapes", gen));
                    self.check_poly(cx, &poly, &qs, &gen);
                    cx.sample(|| json!({"polygon": poly, "queries": qs.len()}));
                } else {
                    cx.count("rejected_not_simple");
                }
            }
            "round-pads" => {
                let c = 3 + cx.n as usize;
                let r = [20_000.0f64, 977.0, 65_000.0][(cx.n % 3) as usize];
                let centre: P = ((cx.n as i64 * 7919) % 1000 - 500, (cx.n as i64 * 104_729) % 1000 - 500);
                let ring: Vec<P> = (0..c)
                    .map(|k| {
                        let a = std::f64::consts::FRAC_PI_2 + std::f64::consts::TAU * k as f64 / c as f64;
                        (centre.0 + (r * a.cos()).round() as i64, centre.1 + (r * a.sin()).round() as i64)
                    })
                    .collect();
                if !is_simple(&ring) {
                    cx.count("rejected_not_simple");
                    return;
                }
                cx.nontrivial(crate::rt::prng::strhash(&format!("{:?}", ring)));
                let mut qs: Vec<P> = ring.clone();
                qs.push(centre);
                let ext = [
                    *ring.iter().max_by_key(|p| p.1).unwrap(),
                    *ring.iter().min_by_key(|p| p.1).unwrap(),
                    *ring.iter().max_by_key(|p| p.0).unwrap(),
                    *ring.iter().min_by_key(|p| p.0).unwrap(),
                ];
                for e in ext {
                    let (dx, dy) = ((centre.0 - e.0).signum(), (centre.1 - e.1).signum());
                    // towards the centre along the dominant axis, and away from it
                    let (ax, ay) = if (centre.0 - e.0).abs() > (centre.1 - e.1).abs() { (dx, 0) } else { (0, dy) };
                    for d in [1i64, 2, 50] {
                        qs.push((e.0 + ax * d, e.1 + ay * d));
                        qs.push((e.0 - ax * d, e.1 - ay * d));
                    }
                }
                for start in 0..c {
                    for rev in [false, true] {
                        let mut poly: Vec<P> = (0..c).map(|k| ring[(start + k) % c]).collect();
                        if rev {
                            poly.reverse();
                        }
                        self.check_poly(cx, &poly, &qs, "round-pad");
                    }
                }
                cx.count("round_pads");
                cx.sample(|| json!({"corners": c, "radius": r}));
            }
            "star" => {
                let nv = 3 + cx.rng.usize(14);
                let radius = *cx.rng.pick(&[12i64, 60, 600, 60_000, 1_000_000]);
                let centre = (cx.rng.range(-1_000_000, 1_000_000), cx.rng.range(-1_000_000, 1_000_000));
                if let Some(base) = star_polygon(&mut cx.rng, nv, radius, centre) {
                    let poly = dress(&mut cx.rng, &base, 1, 0);
                    let qs = probe_points(&mut cx.rng, &poly, 40);
                    cx.nontrivial(crate::rt::prng::strhash(&format!("{:?}", poly)));
                    cx.count("star_shapes");
                    self.check_poly(cx, &poly, &qs, "star");
                    cx.sample(|| json!({"polygon": poly, "queries": qs.len()}));
                } else {
                    cx.count("rejected_not_simple");
                }
            }
            "huge-coordinates" => {
                let big = 1i64 << *cx.rng.pick(&[24u32, 26, 27, 28, 29]);
                let c = |r: &mut Rng| r.range(-big, big);
                let poly: Vec<P> = loop {
                    let n = 3 + cx.rng.usize(2);
                    let mut v: Vec<P> = (0..n).map(|_| (c(&mut cx.rng), c(&mut cx.rng))).collect();
                    if cx.rng.bool() {
                        // a long edge with slope close to 1 from the origin-ish corner (the classic worst case for rounded cross products)
                        let m = big - cx.rng.range(0, 3);
                        v = vec![(0, 0), (m, m + 1), (m, 0)];
                        if cx.rng.bool() {
                            v.reverse();
                        }
                    }
                    if is_simple(&v) && area2(&v) != 0 {
                        break v;
                    }
                };
                let mut qs: Vec<P> = Vec::new();
                for i in 0..poly.len() {
                    let (a, b) = (poly[i], poly[(i + 1) % poly.len()]);
                    for _ in 0..6 {
                        let k = cx.rng.range(0, 1000) as i128;
                        let f = ((a.0 as i128 + (b.0 - a.0) as i128 * k / 1000) as i64, (a.1 as i128 + (b.1 - a.1) as i128 * k / 1000) as i64);
                        qs.push((f.0 + cx.rng.range(-2, 2), f.1 + cx.rng.range(-2, 2)));
                    }
                    // right at the ends of the edge
                    qs.push((b.0 - (b.0 - a.0).signum(), b.1 - (b.1 - a.1).signum()));
                    qs.push((b.0 - (b.0 - a.0).signum(), b.1 - 2 * (b.1 - a.1).signum()));
                }
                cx.nontrivial(crate::rt::prng::strhash(&format!("{:?}", poly)));
                cx.count("huge_shapes");
                self.check_poly(cx, &poly, &qs, "huge");
                cx.sample(|| json!({"polygon": poly, "queries": qs.len()}));
            }
            "rects-random" => {
                // usually within a million of the origin; one in four anywhere in the 32-bit range (a chip corner at -2e9)
                let big = cx.rng.chance(1, 4);
                let c = move |r: &mut Rng| if big { r.range(-2_100_000_000, 2_100_000_000) } else { r.range(-1_000_000, 1_000_000) };
                let (p0, p1) = ((c(&mut cx.rng), c(&mut cx.rng)), (c(&mut cx.rng), c(&mut cx.rng)));
                let shape = Shape::Rect(Rect { p0: pt(p0), p1: pt(p1) });
                let corners = [p0, (p1.0, p0.1), p1, (p0.0, p1.1)];
                let mut qs = probe_points(&mut cx.rng, &corners, 20);
                // level with the rectangle (and above / below it) but billions of units away on the other axis: the whole 32-bit range GDSII
                // can store, and beyond
                for far in [2_000_000_000i64, -2_000_000_000, 4_000_000_000, -(1i64 << 40), 1i64 << 62] {
                    qs.push((far, (p0.1 + p1.1) / 2));
                    qs.push(((p0.0 + p1.0) / 2, far));
                    qs.push((far, far));
                }
                cx.nontrivial(crate::rt::prng::strhash(&format!("{:?}{:?}", p0, p1)));
                for q in qs {
                    cx.eval();
                    let want = rect_contains(p0, p1, q);
                    match guard(|| shape.contains(&pt(q))) {
                        Ok(g) if g == want => cx.count(if want { "agree_inside" } else { "agree_outside" }),
                        Ok(g) => cx.violation("rect|wrong-answer", json!({"p0": p0, "p1": p1, "point": q, "contains": g, "exact": want})),
                        Err(c) => cx.violation(&format!("rect|panic|{}", c.norm_msg()), json!({"panic": c.msg})),
                    }
                }
                cx.sample(|| json!({"rect": [p0, p1]}));
            }
            "paths" => {
                let npts = 2 + cx.rng.usize(11);
                let w = cx.rng.range(1, 40);
                let origin = (cx.rng.range(-10_000, 10_000), cx.rng.range(-10_000, 10_000));
                let mut pts = manhattan_path(&mut cx.rng, npts, 60, origin);
                // one path in twelve is a dot: all its points coincide (the GDSII idiom for a square pad); its only segment has length zero,
                // and the point itself is within half the width of it
                if cx.rng.chance(1, 12) {
                    pts = vec![origin; 2 + cx.rng.usize(2)];
                    cx.count("dot_paths");
                }
                let mut qs = Vec::new();
                for p in &pts {
                    for dx in [-(w / 2) - 1, -(w / 2), -1, 0, 1, w / 2, w / 2 + 1, (w + 1) / 2] {
                        for dy in [-(w / 2) - 1, -(w / 2), -1, 0, 1, w / 2, w / 2 + 1, (w + 1) / 2] {
                            qs.push((p.0 + dx, p.1 + dy));
                        }
                    }
                }
                for k in 0..pts.len() - 1 {
                    let m = ((pts[k].0 + pts[k + 1].0) / 2, (pts[k].1 + pts[k + 1].1) / 2);
                    for d in [-(w / 2) - 1, -(w / 2), 0, w / 2, w / 2 + 1] {
                        qs.push((m.0 + d, m.1));
                        qs.push((m.0, m.1 + d));
                    }
                }
                qs.push((origin.0 + 100_000, origin.1));
                for far in [4_000_000_000i64, -4_000_000_000, 1i64 << 62] {
                    qs.push((origin.0 + far, origin.1));
                    qs.push((origin.0, origin.1 + far));
                    qs.push((pts[pts.len() - 1].0 + far, pts[pts.len() - 1].1));
                }
                cx.nontrivial(crate::rt::prng::strhash(&format!("{:?}{}", pts, w)));
                self.check_path(cx, &pts, w, &qs);
                cx.sample(|| json!({"path": pts, "width": w, "queries": qs.len()}));
            }
            "edited-in-place" => {
                // a polygon is queried, then ONE vertex is moved in place (same buffer, same length: an editor's vertex drag) so that the shape
                // grows beyond its old bounding box, and it is queried again: the answers are those of the polygon as it is NOW
                let k = 4 + cx.rng.usize(5);
                let (cx0, cy0) = (cx.rng.range(-5000, 5000), cx.rng.range(-5000, 5000));
                // a convex polygon: points on a circle-ish fan, sorted by angle
                let mut pts: Vec<P> = (0..k)
                    .map(|i| {
                        let a = (i as f64 + 0.3) * std::f64::consts::TAU / k as f64;
                        let r = 100.0 + cx.rng.range(0, 60) as f64;
                        (cx0 + (r * a.cos()) as i64, cy0 + (r * a.sin()) as i64)
                    })
                    .collect();
                let mut shape = Polygon { points: pts.iter().map(|p| pt(*p)).collect() };
                let warm = (cx0, cy0);
                cx.eval();
                let _ = guard(|| shape.contains(&pt(warm)));
                // drag a vertex that is neither first, middle nor last outwards by a few hundred units
                let j = 1 + cx.rng.usize(k - 2);
                let j = if j == k / 2 { if j + 1 < k - 1 { j + 1 } else { j - 1 } } else { j };
                let (dx, dy) = (pts[j].0 - cx0, pts[j].1 - cy0);
                pts[j] = (pts[j].0 + 3 * dx, pts[j].1 + 3 * dy);
                shape.points[j] = pt(pts[j]);
                if !is_simple(&pts) {
                    cx.count("edited_polygon_not_simple_skipped");
                    return;
                }
                cx.nontrivial(crate::rt::prng::strhash(&format!("{:?}{}", pts, j)));
                // points around the dragged vertex (inside the grown part), the centre, and far away
                let mut qs: Vec<P> = vec![warm, (cx0 + 2 * dx, cy0 + 2 * dy), (cx0 + 3 * dx, cy0 + 3 * dy), (cx0 + 5 * dx, cy0 + 5 * dy), pts[j]];
                for _ in 0..20 {
                    let t = cx.rng.range(0, 400);
                    qs.push((cx0 + dx * t / 100 + cx.rng.range(-3, 3), cy0 + dy * t / 100 + cx.rng.range(-3, 3)));
                }
                let sh = Shape::Polygon(shape);
                for q in qs {
                    cx.eval();
                    let want = poly_contains(&pts, q);
                    match guard(|| sh.contains(&pt(q))) {
                        Ok(g) if g == want => cx.count("edited_polygon_answers_agree"),
                        Ok(g) => {
                            cx.violation(if want { "edited-in-place|inside-reported-outside" } else { "edited-in-place|outside-reported-inside" }, json!({"polygon_now": pts, "moved_vertex": j, "point": q, "contains": g, "exact": want}));
                            return;
                        }
                        Err(c) => {
                            cx.violation(&format!("edited-in-place|panic|{}", c.norm_msg()), json!({"panic": c.msg}));
                            return;
                        }
                    }
                }
            }
            "paths-interleaved" => {
                // an answer depends on the shape and the point asked about, not on what was asked before: several paths living side by side
                // (a path and its shifted / widened copies, an unrelated neighbour) are queried in a shuffled order over one shared point set,
                // so that a hit on one path is directly followed by a query on another at a point inside the first
                let npts = 2 + cx.rng.usize(6);
                let w = cx.rng.range(1, 30);
                let origin = (cx.rng.range(-5_000, 5_000), cx.rng.range(-5_000, 5_000));
                let a = manhattan_path(&mut cx.rng, npts, 50, origin);
                let (sx, sy) = (cx.rng.range(-40, 40), cx.rng.range(-40, 40));
                let mut paths: Vec<(Vec<P>, i64)> = vec![(a.clone(), w)];
                paths.push((a.iter().map(|p| (p.0 + sx, p.1 + sy)).collect(), w));
                paths.push((a.clone(), (w / 3).max(1)));
                let o2 = (origin.0 + cx.rng.range(-80, 80), origin.1 + cx.rng.range(-80, 80));
                let n2 = 2 + cx.rng.usize(4);
                let w2 = cx.rng.range(1, 30);
                paths.push((manhattan_path(&mut cx.rng, n2, 50, o2), w2));
                let mut pool: Vec<P> = Vec::new();
                for (pts, pw) in &paths {
                    for p in pts {
                        for dx in [-(pw / 2) - 1, -(pw / 2), 0, pw / 2, pw / 2 + 1] {
                            for dy in [-(pw / 2) - 1, 0, pw / 2 + 1] {
                                pool.push((p.0 + dx, p.1 + dy));
                            }
                        }
                    }
                    for k in 0..pts.len() - 1 {
                        pool.push(((pts[k].0 + pts[k + 1].0) / 2, (pts[k].1 + pts[k + 1].1) / 2));
                    }
                }
                let shapes: Vec<Shape> = paths.iter().map(|(pts, pw)| Shape::Path(Path { points: pts.iter().map(|p| pt(*p)).collect(), width: *pw as usize })).collect();
                cx.nontrivial(crate::rt::prng::strhash(&format!("{:?}", paths)));
                let nq = 4 * pool.len();
                let mut prev_hit: Option<usize> = None;
                for _ in 0..nq {
                    let k = cx.rng.usize(shapes.len());
                    let q = *cx.rng.pick(&pool);
                    cx.eval();
                    let got = match guard(|| shapes[k].contains(&pt(q))) {
                        Ok(g) => g,
                        Err(c) => {
                            cx.violation(&format!("path|panic|{}|{}", c.site(), c.norm_msg()), json!({"path": paths[k].0, "width": paths[k].1, "point": q, "panic": c.msg}));
                            return;
                        }
                    };
                    let after = match prev_hit {
                        Some(j) if j != k => "after-a-hit-on-another-path",
                        Some(_) => "after-a-hit-on-the-same-path",
                        None => "after-a-miss",
                    };
                    match path_class(&paths[k].0, paths[k].1, q) {
                        PathClass::MustBeInside if !got => cx.violation(&format!("path|interleaved|inside-reported-outside|{}", after), json!({"path": paths[k].0, "width": paths[k].1, "point": q})),
                        PathClass::MustBeOutside if got => cx.violation(&format!("path|interleaved|outside-reported-inside|{}", after), json!({"path": paths[k].0, "width": paths[k].1, "point": q, "previous_query_hit_path": prev_hit.map(|j| paths[j].0.clone())})),
                        PathClass::CapBand => cx.count("path_capband_not_judged"),
                        _ => cx.count(&format!("path_interleaved_agree.{}", after)),
                    }
                    prev_hit = if got { Some(k) } else { None };
                }
                cx.sample(|| json!({"paths": paths.len(), "queries": nq}));
            }
            other => cx.inconclusive(format!("unknown generator {}", other)),
        }
    }
}
