//! lvh — Layout21 verification harness.
//!   lvh run <ID> --tier quick|thorough [--seed N]
//!   lvh replay <ID> <file>
//!   (internal) lvh worker ... / lvh one ...

mod gen;
mod props;
mod refs;
mod rt;

use rt::run;
use rt::Tier;

fn arg<'a>(args: &'a [String], key: &str) -> Option<&'a str> {
    args.iter().position(|a| a == key).and_then(|i| args.get(i + 1)).map(|s| s.as_str())
}

fn main() {
    let args: Vec<String> = std::env::args().collect();
    if args.len() < 3 {
        eprintln!("usage: lvh run|replay|worker|one <ID> ...");
        std::process::exit(2);
    }
    let mode = args[1].as_str();
    let id = args[2].as_str();
    let prop = match props::lookup(id) {
        Some(p) => p,
        None => {
            eprintln!("unknown property {}", id);
            std::process::exit(2);
        }
    };
    let tier = arg(&args, "--tier").and_then(Tier::parse).unwrap_or(Tier::Quick);
    let seed: u64 = arg(&args, "--seed")
        .map(|s| s.to_string())
        .or_else(|| std::env::var("VERIF_SEED").ok())
        .and_then(|s| s.parse().ok())
        .unwrap_or(1);
    rt::guard::install_hook();
    let code = match mode {
        "run" => run::main_run(prop, tier, seed),
        "replay" => run::main_replay(prop, args.get(3).map(|s| s.as_str()).unwrap_or("")),
        "worker" => {
            let sh = arg(&args, "--shard").unwrap();
            let (i, n) = sh.split_once('/').unwrap();
            let skip: Vec<(String, u64)> = arg(&args, "--skip")
                .map(|s| {
                    s.split(',')
                        .filter_map(|x| x.rsplit_once(':').map(|(g, n)| (g.to_string(), n.parse().unwrap())))
                        .collect()
                })
                .unwrap_or_default();
            run::main_worker(prop, tier, seed, i.parse().unwrap(), n.parse().unwrap(), arg(&args, "--outdir").unwrap(), &skip)
        }
        "one" => run::main_one(
            prop,
            tier,
            seed,
            arg(&args, "--gen").unwrap(),
            arg(&args, "--n").unwrap().parse().unwrap(),
            arg(&args, "--out").unwrap(),
        ),
        // the names of the property's generators, one per line (used by tools/legs.sh)
        "gens" => {
            for g in prop.plan(tier) {
                println!("{}", g.name);
            }
            if prop.miri_gen().is_some() {
                println!("miri-sample");
            }
            0
        }
        _ => {
            eprintln!("unknown mode {}", mode);
            2
        }
    };
    std::process::exit(code);
}
