#!/usr/bin/env bash
# usage: tools/seed_confirm.sh <ID> <N> <demo path relative to repo root> <crate>
# Confirms in the agent's scratch worktree /tmp/wt/<ID>: with change N the baseline passes (except the known failure) and the demo fails; without it the demo passes.
ID=$1; N=$2; DEMO=$3; CRATE=$4
W=/tmp/wt/$ID; O=/tmp/wt/out-$ID
cd $W || exit 2
git checkout -q -- . ; git clean -fdq -e target -e '*/resources' -e '*/scratch' -e Cargo.lock >/dev/null 2>&1
tname=$(basename "$DEMO" .rs)
git apply "$O/change$N.diff" || { echo "APPLY FAILED"; exit 2; }
echo "== with change: baseline"
cargo test --workspace --no-fail-fast --offline 2>&1 | grep -E "^test .* FAILED|^error" | sort | uniq -c
mkdir -p "$(dirname "$DEMO")"; cp "$O/demo$N.rs" "$DEMO"
echo "== with change: demo (expect FAIL)"
cargo test --offline -p $CRATE --test $tname 2>&1 | grep -E "^test result|^error(\[|:)" | head -3
git apply -R "$O/change$N.diff"
# cargo decides freshness by mtime at one-second granularity: make sure the reverted files look newer than the build just made
sleep 1.1; grep '^+++ b/' "$O/change$N.diff" | sed 's|^+++ b/||' | xargs -r touch
for c in $(grep '^+++ b/' "$O/change$N.diff" | sed 's|^+++ b/||; s|/.*||' | sort -u); do cargo clean --offline -p $c >/dev/null 2>&1; done
echo "== without change: demo (expect ok)"
cargo test --offline -p $CRATE --test $tname 2>&1 | grep -E "^test result|^error(\[|:)" | head -3
rm -f "$DEMO"; git checkout -q -- .
