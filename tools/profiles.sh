#!/usr/bin/env bash
# Build-profile legs (thorough tier of C10, C11, C17): the quick workload of a property re-run on two other builds of the harness + /repo crates:
#   noopt    : opt-level 0 (recursion is not turned into loops, frames are large: stack depth proportional to input shows as a crash)
#   plainrel : plain release (no debug assertions, no overflow checks: what `cargo build --release` users run; code inside debug_assert! is gone)
# A violation under either build is a VIOLATION of the property; a build that fails is INCONCLUSIVE (exit 0).
#   tools/profiles.sh <ID>
set -u
ID="$1"
cd "$(dirname "$0")/../harness" || exit 2
EV="${VERIF_EVIDENCE_OUT:-/verif/evidence/$ID.json}"
rc=0; legs='{}'
for prof in noopt plainrel; do
  LOG=$(mktemp /dev/shm/lvh-prof.XXXXXX)
  if cargo build --offline --profile $prof --target-dir target-$prof >"$LOG" 2>&1; then
    out=$(VERIF_EVIDENCE_OUT=/dev/shm/lvh-$prof-$ID.json VERIF_WATCHDOG_S=1800 ./target-$prof/$prof/lvh run "$ID" --tier quick --seed "${VERIF_SEED:-1}" 2>&1); code=$?
    echo "$out" | grep -E "^(VIOLATION|INCONCLUSIVE|  witness)" | sed "s/^/[$prof] /" | cut -c1-300
    summ=$(echo "$out" | grep "^SUMMARY" | tail -1); echo "[$prof] $summ" | cut -c1-220
    evals=$(echo "$summ" | sed -n 's/.*evaluations=\([0-9]*\).*/\1/p')
    if [ $code -ne 0 ]; then rc=1; echo "$out" | grep "^VIOLATION"; fi
    legs=$(echo "$legs" | jq --arg k "$prof" --argjson e "${evals:-0}" --argjson v "$([ $code -ne 0 ] && echo 1 || echo 0)" '. + {($k): {status:"ran", executions:$e, violated:$v}}')
    rm -f /dev/shm/lvh-$prof-$ID.json
  else
    echo "INCONCLUSIVE property=$ID reason=profile-leg-$prof-build-failed"; tail -5 "$LOG"
    legs=$(echo "$legs" | jq --arg k "$prof" '. + {($k): {status:"build-failed"}}')
  fi
  rm -f "$LOG"
done
if [ -f "$EV" ] && [ "$EV" != "/dev/null" ]; then
  tmp=$(mktemp); jq --argjson legs "$legs" '.coverage.sanitizer_legs = ((.coverage.sanitizer_legs // {}) + {build_profiles: $legs})' "$EV" > "$tmp" && mv "$tmp" "$EV"
fi
exit $rc
