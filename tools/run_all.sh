#!/usr/bin/env bash
# Run every check at a tier (default quick) and several seeds; print one line per run.
# usage: tools/run_all.sh [quick|thorough] [seed ...]
cd "$(dirname "$0")/.."
tier="${1:-quick}"; shift || true
seeds=("$@"); [ ${#seeds[@]} -eq 0 ] && seeds=(1)
rc=0
for s in "${seeds[@]}"; do
  for p in C01 C02 C03 C04 C05 C06 C07 C08 C09 C10 C11 C12 C13 C14 C15 C16 C17 C18 C19 C20; do
    out=$(VERIF_SEED=$s ./check $p "$tier" 2>&1); code=$?
    echo "$out" | grep -E "^(SUMMARY|VIOLATION|INCONCLUSIVE|  witness)" | cut -c1-400
    [ $code -ne 0 ] && { echo "EXIT $code for $p seed $s"; rc=1; }
  done
done
exit $rc
