#!/usr/bin/env bash
# usage: tools/seed_wave.sh <logdir> <N1> <N2> <ID...>
# For every ID: confirm changes N1 and N2 in the ID's scratch worktree (all IDs in parallel, each worktree is private),
# and run the ID's quick check against /repo with each change applied (sequentially: /repo is shared).
# Writes <logdir>/<ID>-<N>.confirm and <logdir>/<ID>-<N>.check ; prints one line per change at the end.
L=$1; N1=$2; N2=$3; shift 3
mkdir -p "$L"
for ID in "$@"; do
  (
    for N in $N1 $N2; do
      O=/tmp/wt/out-$ID
      [ -f $O/change$N.diff ] || { echo "no change$N.diff" > $L/$ID-$N.confirm; continue; }
      demo=$(grep -oE '[a-z0-9_]+/tests/demo'$N'\.rs' $O/demo$N.md | head -1); crate=${demo%%/*}
      echo "demo=$demo" > $L/$ID-$N.confirm
      /verif/tools/seed_confirm.sh $ID $N $demo $crate >> $L/$ID-$N.confirm 2>&1
    done
  ) &
done
for ID in "$@"; do
  for N in $N1 $N2; do
    O=/tmp/wt/out-$ID
    [ -f $O/change$N.diff ] || continue
    /verif/tools/seed_check.sh $O/change$N.diff $ID $EXTRA > $L/$ID-$N.check 2>&1
  done
done
wait
for ID in "$@"; do
  for N in $N1 $N2; do
    conf=$(grep -E "test result|APPLY|^error|^demo=" $L/$ID-$N.confirm | grep -v "14 passed; 1 failed" | sed -E 's/finished in [0-9.]+s//; s/[0-9]+ ignored; 0 measured; 0 filtered out;//; s/test result: //' | tr '\n' ' ')
    base=$(sed -n '/with change: baseline/,/with change: demo/p' $L/$ID-$N.confirm | grep -c "FAILED")
    chk=$(grep -E "^---|INCONCLUSIVE" $L/$ID-$N.check | head -3 | tr '\n' ' ')
    echo "$ID-$N | baseline-failures=$base | $conf | $chk"
  done
done
