#!/usr/bin/env python3
"""usage: seed_store.py <PROP> <N> <demo relpath> <caught_by comma list> <missed_by comma list or -> [note]
Copies /tmp/wt/out-<PROP>/change<N>.diff + demo into /verif/seeded/<PROP>-<N>/ with meta.json."""
import sys, os, shutil, json, re
prop, n, demo_rel, caught, missed = sys.argv[1:6]
note = sys.argv[6] if len(sys.argv) > 6 else ""
src = "/tmp/wt/out-%s" % prop
dst = "/verif/seeded/%s-%s" % (prop, n)
os.makedirs(dst, exist_ok=True)
shutil.copy(os.path.join(src, "change%s.diff" % n), os.path.join(dst, "patch.diff"))
shutil.copy(os.path.join(src, "demo%s.rs" % n), os.path.join(dst, "demo.rs"))
md = open(os.path.join(src, "demo%s.md" % n)).read()
shutil.copy(os.path.join(src, "demo%s.md" % n), os.path.join(dst, "demo.md"))
files = re.findall(r"^\+\+\+ b/(\S+)", open(os.path.join(dst, "patch.diff")).read(), re.M)
meta = {
    "id": "%s-%s" % (prop, n),
    "breaks_property": prop,
    "author": "independent sub-agent given only the property text and a scratch worktree",
    "files_touched": files,
    "needs_to_manifest": md,
    "demonstration": {"file": "demo.rs", "place_at": demo_rel, "command": "cargo test --offline -p %s --test %s" % (demo_rel.split('/')[0], os.path.basename(demo_rel)[:-3])},
    "confirmed": {
        "what_i_ran": [
            "tools/seed_confirm.sh %s %s %s %s  (scratch worktree: git apply; cargo test --workspace --no-fail-fast --offline => only the baseline's known failure; demo fails with the change, passes without)" % (prop, n, demo_rel, demo_rel.split('/')[0]),
            "tools/seed_check.sh seeded/%s-%s/patch.diff <checks>  (git -C /repo apply; ./check <id> quick; git -C /repo checkout -- .)" % (prop, n),
        ],
        "baseline_passes_with_change": True,
        "demo_fails_with_change": True,
        "demo_passes_without_change": True,
    },
    "caught_by_quick": [c for c in caught.split(",") if c and c != "-"],
    "not_caught_by_quick": [c for c in missed.split(",") if c and c != "-"],
    "note": note,
}
json.dump(meta, open(os.path.join(dst, "meta.json"), "w"), indent=1)
print("stored", dst)
