#!/usr/bin/env bash
# Re-run every stored seeded change against the check of the property it breaks, at several VERIF_SEED values.
# Prints one line per (change, seed): caught / MISSED. /repo must be clean and not in use by another run.
# usage: tools/seed_matrix.sh [seed ...]      (default seeds: 1 2 3)     env ONLY="C05-5 C07-4" restricts the set
cd "$(dirname "$0")/.."
seeds=("$@"); [ ${#seeds[@]} -eq 0 ] && seeds=(1 2 3)
git -C /repo diff --quiet || { echo "/repo is dirty; refusing"; exit 2; }
trap 'git -C /repo checkout -- .' EXIT
# files a patch CREATES are untracked afterwards: `git checkout -- .` does not remove them
newfiles() { awk '/^--- \/dev\/null/{getline; sub(/^\+\+\+ b\//,""); print}' "$1"; }
miss=0
for d in seeded/*/; do
  id=$(basename $d); prop=${id%%-*}
  # the check that is recorded as catching it (normally the property's own); changes recorded as not caught at quick are run too, and marked
  own=$(jq -r 'if (.caught_by_quick|index("'$prop'")) then "'$prop'" else (.caught_by_quick[0] // "'$prop'") end' "$d/meta.json" 2>/dev/null); [ -n "$own" ] && prop=$own
  documented=$(jq -r 'if (.caught_by_quick|length)==0 then "documented-not-caught-at-quick" else "" end' "$d/meta.json" 2>/dev/null)
  [ -n "${ONLY:-}" ] && ! echo " $ONLY " | grep -q " $id " && continue
  git -C /repo apply "$PWD/${d%/}/patch.diff" || { echo "$id APPLY-FAILED"; continue; }
  line="$id[$prop]"
  for s in "${seeds[@]}"; do
    VERIF_SEED=$s VERIF_EVIDENCE_OUT=/dev/null ./check $prop quick >/dev/null 2>&1; rc=$?
    if [ $rc -eq 1 ]; then line="$line seed$s=caught"; elif [ $rc -eq 0 ] && [ -n "$documented" ]; then line="$line seed$s=missed($documented)"; elif [ $rc -eq 0 ]; then line="$line seed$s=MISSED"; miss=$((miss+1)); else line="$line seed$s=rc$rc"; fi
  done
  echo "$line"
  git -C /repo checkout -- .
  for f in $(newfiles "$PWD/${d%/}/patch.diff"); do rm -f "/repo/$f"; done
done
echo "missed=$miss"
