#!/usr/bin/env bash
# Instruction-count leg for the "time proportional to the input length" clause of C10 / C11.
#   tools/irleg.sh <C10|C11> <quick|thorough>
# Runs `lvh one <ID> --gen ir-scale --n k` under `valgrind --tool=cachegrind --cache-sim=no` for inputs of size s, 2s, 4s, ... (even k: accepted
# input; odd k: the same input with an error at its very end) and reads the number of executed instructions (I refs). The count is a property of
# the execution, not of the machine's load, so it can be judged: for doubling sizes the increments I(2s)-I(s), I(4s)-I(2s), ... must themselves
# about double (ratio 2 for linear cost, 4 for quadratic). A ratio >= 3 is a VIOLATION; valgrind missing or failing is INCONCLUSIVE (exit 0).
# Results are merged into the evidence file under coverage.sanitizer_legs.instruction_count.
set -u
ID="$1"; TIER="${2:-quick}"
cd "$(dirname "$0")/../harness" || exit 2
EV="${VERIF_EVIDENCE_OUT:-/verif/evidence/$ID.json}"
NS=$([ "$TIER" = "thorough" ] && echo 5 || echo 3)          # number of sizes
D=$(mktemp -d /dev/shm/lvh-ir.XXXXXX)
rc=0; status="ran"; worst=0; worst_total=0; detail="[]"
if ! command -v valgrind >/dev/null 2>&1; then
  echo "INCONCLUSIVE property=$ID reason=instruction-count-leg: valgrind not available"; status="valgrind-missing"
else
  SHAPES=$([ "$ID" = "C10" ] && echo "0 1 2 3" || echo "0 1 2 3 4 5")   # input shapes, see the ir-scale generators
  for sh in $SHAPES; do for j in $(seq 0 $((2*NS-1))); do
    k=$((100*sh+j))
    ( valgrind --tool=cachegrind --cache-sim=no --cachegrind-out-file=/dev/null ./target/verif/lvh one "$ID" --tier quick --seed 1 --gen ir-scale --n $k --out "$D/r$k.json" >"$D/v$k.log" 2>&1 ) &
  done; wait; done
  for sh in $SHAPES; do for path in 0 1; do
    prev=""; prevd=""; name="shape$sh-$([ $path = 0 ] && echo accepted || echo rejected)"
    for s in $(seq 0 $((NS-1))); do
      k=$((100*sh+2*s+path))
      ir=$(grep "I *refs:" "$D/v$k.log" | tail -1 | sed 's/.*refs: *//; s/,//g')
      okc=$(jq -r '(.counters.ir_scale_accepted // 0) + (.counters.ir_scale_rejected // 0)' "$D/r$k.json" 2>/dev/null || echo 0)
      crashed=$(grep -c "overflowed its stack\|Process terminating with default action of signal" "$D/v$k.log" 2>/dev/null || true)
      if [ "${crashed:-0}" != "0" ]; then
        mkdir -p /verif/replay; { echo "property=$ID instruction-count leg: the reader crashed on ir-scale case $k ($name, size index $s)"; tail -20 "$D/v$k.log"; } > /verif/replay/$ID-ircrash.log
        echo "VIOLATION property=$ID replay=/verif/replay/$ID-ircrash.log"; rc=1; prev=""; prevd=""; continue
      fi
      if [ -z "$ir" ] || [ "$okc" != "1" ]; then echo "INCONCLUSIVE property=$ID reason=instruction-count-leg: case $k did not complete"; status="incomplete"; prev=""; prevd=""; continue; fi
      if [ -n "$prev" ]; then
        # criterion 2: the total itself. With a non-negative constant part, linear cost can at most double when the input doubles.
        tr=$(echo "scale=3; $ir / $prev" | bc)
        [ "$(echo "$tr > $worst_total" | bc)" = 1 ] && worst_total=$tr
        if [ "$(echo "$tr >= 2.5" | bc)" = 1 ]; then
          mkdir -p /verif/replay
          { echo "property=$ID instruction-count leg: cost more than doubles when the input doubles"; echo "path=$name size_index=$s total_ratio=$tr (at most 2 for linear cost; limit 2.5)"; grep -H "I *refs:" "$D"/v*.log; } > /verif/replay/$ID-ircount.log
          echo "VIOLATION property=$ID replay=/verif/replay/$ID-ircount.log"; rc=1
        fi
        d=$((ir-prev))
        if [ -n "$prevd" ] && [ "$prevd" -gt 0 ]; then
          ratio=$(echo "scale=3; $d / $prevd" | bc)
          detail=$(echo "$detail" | jq --arg p "$name" --argjson s $s --arg r "$ratio" --argjson ir "$ir" '. + [{path:$p, size_index:$s, increment_ratio:($r|tonumber), instructions:$ir}]')
          [ "$(echo "$ratio > $worst" | bc)" = 1 ] && worst=$ratio
          if [ "$(echo "$ratio >= 3.0" | bc)" = 1 ]; then
            mkdir -p /verif/replay
            { echo "property=$ID instruction-count leg: cost grows faster than the input"; echo "path=$name size_index=$s increment_ratio=$ratio (2 = linear, 4 = quadratic; limit 3)"; grep -H "I *refs:" "$D"/v*.log; } > /verif/replay/$ID-ircount.log
            echo "VIOLATION property=$ID replay=/verif/replay/$ID-ircount.log"; rc=1
          fi
        fi
        prevd=$d
      fi
      prev=$ir
    done
  done; done
  echo "[ir-count] $ID sizes=$NS worst_increment_ratio=$worst (2 = linear, limit 3) worst_total_ratio=$worst_total (<= 2 for linear, limit 2.5)"
fi
if [ -f "$EV" ] && [ "$EV" != "/dev/null" ]; then
  tmp=$(mktemp); jq --arg st "$status" --arg w "$worst" --arg wt "$worst_total" --argjson d "$detail" '.coverage.sanitizer_legs = ((.coverage.sanitizer_legs // {}) + {instruction_count: {status:$st, tool:"valgrind --tool=cachegrind --cache-sim=no", worst_increment_ratio:($w|tonumber), limit:3, worst_total_ratio:($wt|tonumber), total_limit:2.5, measurements:$d}})' "$EV" > "$tmp" && mv "$tmp" "$EV"
fi
rm -rf "$D"
exit $rc
