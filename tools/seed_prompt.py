#!/usr/bin/env python3
"""usage: seed_prompt.py <template> <ID> [first-number]  — prints the sub-agent prompt for one property (title, statement, quantifier only)."""
import sys, json
tmpl, pid = sys.argv[1], sys.argv[2]
for l in open('/verif/properties.jsonl'):
    d = json.loads(l)
    if d['id'] == pid:
        prop = "%s\n\n%s\n\nQuantified over: %s" % (d['title'], d['statement'], d['quantifier']['text'] if isinstance(d['quantifier'], dict) else d['quantifier'])
        break
else:
    sys.exit("no such property")
print(open(tmpl).read().replace('@ID@', pid).replace('@PROP@', prop))
