#!/usr/bin/env bash
# usage: tools/seed_check.sh <diff> <check id> [more check ids...]   (VERIF_TIER=quick|thorough, default quick)
# Applies the seeded change to /repo, runs the named checks, and undoes the change straight afterwards.
D=$1; shift
# files a patch CREATES are untracked afterwards: `git checkout -- .` does not remove them
newfiles() { awk '/^--- \/dev\/null/{getline; sub(/^\+\+\+ b\//,""); print}' "$1"; }
cd /verif
git -C /repo diff --quiet || { echo "/repo is dirty; refusing"; exit 2; }
git -C /repo apply "$D" || { echo "APPLY FAILED"; exit 2; }
trap 'git -C /repo checkout -- .; for f in $(newfiles "$D"); do rm -f "/repo/$f"; done' EXIT
for id in "$@"; do
  out=$(VERIF_EVIDENCE_OUT=/dev/null ./check $id ${VERIF_TIER:-quick} 2>&1); code=$?
  echo "--- $id exit=$code"
  echo "$out" | grep -E "^(SUMMARY|VIOLATION|INCONCLUSIVE|  witness)" | cut -c1-330 | head -8
done
