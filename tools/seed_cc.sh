#!/usr/bin/env bash
# usage: tools/seed_cc.sh <ID> <N...>   — one line per change: confirmation in the scratch worktree | quick check against /repo
ID=$1; shift
for N in "$@"; do
  O=/tmp/wt/out-$ID
  demo=$(grep -oE '[a-z0-9_]+/tests/demo'$N'\.rs' $O/demo$N.md | head -1); crate=${demo%%/*}
  conf=$(/verif/tools/seed_confirm.sh $ID $N $demo $crate 2>&1 | grep -E "test result|APPLY|^error" | grep -v "14 passed; 1 failed" | sed -E 's/finished in [0-9.]+s//; s/[0-9]+ ignored; 0 measured; 0 filtered out;//; s/test result: //' | tr '\n' ' ')
  chk=$(/verif/tools/seed_check.sh $O/change$N.diff $ID $EXTRA 2>&1 | grep -E "^---|INCONCLUSIVE" | head -3 | tr '\n' ' ')
  echo "$ID-$N | $conf | $chk"
done
