#!/usr/bin/env python3
"""Regenerate /verif/MANIFEST.json from the table below. Run after adding a property check."""
import json, subprocess, os

ROOT = os.path.dirname(os.path.dirname(os.path.abspath(__file__)))
ALL = ["C%02d" % i for i in range(1, 21)]

# id -> (category, level text, level note, technique, design_ref)
CHECKS = {
 "C08": ("exploration",
         "Generated layer stacks (alternating directions, offsets, overlaps incl. shared rails, Repeat patterns, flipped and unflipped, symmetric and asymmetric) and well-formed cells (cuts, assignments on distinct wire pieces, reflected instances of lower-metal cells on the pitch grid) are compiled with RawExporter::convert; the multiset of (layer, rectangle, net) of the compiled cell is compared with an independent track-grid model: wires = track minus cuts minus instance extents at flip-aware positions, rails named, assigned pieces named, one centred via per assignment, nothing else.",
         "Even cut/via/track sizes; rectangular outlines; an Err from the compiler satisfies the statement (counted; <70% compiled => inconclusive). Zero-area rectangles are dropped before comparison.",
         "runtime monitoring: reference track-grid model oracle over generated stacks and cells", "DESIGN.md 3 C08"),
 "C09": ("exploration",
         "Placement programs (trees and chains of relative placements, 4 sides x orthogonal alignments x reflections of both instances x 3 separation kinds) are run through Placer::place under every listing permutation (<= 6 instances) or sampled permutations; absolute locations by instance name must equal an independent solution of the edge constraints and be order-independent; absolute (nested, reflected) arrays must expand to the reference copies; cyclic relations run in isolated children and must be rejected.",
         "Relations to arrays/groups/ports and Align::Center/Ports are documented unimplemented and excluded.",
         "runtime monitoring: constraint-solution oracle over permuted placement programs; crash isolation", "DESIGN.md 3 C09"),
 "C19": ("fault_enumeration",
         "Placed gridded libraries go ProtoExporter::export -> ProtoLibImporter::import and are compared cell by cell (outline steps, metals, ordered instances with both reflections, assignments, cuts) with dependency-first export order; then every mandatory part of every cell/instance/assignment/cut of each valid message is removed or invalidated in turn (fault enumeration) and import must return Err, never Ok or panic. Re-exporting the imported library must reproduce the first message, and export must work in a second thread while read guards are held on every cell.",
         "Abstracts with ports excluded (import_abstract_port is todo!()).",
         "runtime monitoring: round-trip oracle + message fault enumeration with panic monitor", "DESIGN.md 3 C19"),

 "C06": ("exploration",
         "GDSII libraries (shuffled acyclic hierarchies; rectangles CW/CCW, polygons, boxes, paths; SREFs in all 8 right-angle orientations; AREFs with axis-aligned, rotated and skewed lattices incl. > 32767 placements; labels inside/on/outside shapes) are imported with Library::from_gds; each imported cell is flattened with Layout::flatten and compared as a multiset with an independent GDSII-semantics flattener; nets and annotations are compared with exact containment; malformed hierarchies run in isolated child processes and must be rejected.",
         "Exact oracle for right-angle orientations only. An Err on a valid library satisfies the statement (counted, non-vacuity threshold). Labels in path end-cap bands and doubly-labelled shapes are not judged.",
         "runtime monitoring: reference flattener oracle + crash isolation for malformed inputs", "DESIGN.md 3 C06"),
 "C07": ("exploration",
         "Raw libraries (cell DAGs, 8 orientations, rectangles, rectilinear/45-degree/general polygons incl. U/L shapes, Manhattan paths, nets, 1-4 layers x 6 purposes, all four units) are exported with to_gds and re-imported with the same Layers; units, cells, instance multisets and element multisets (layer/purpose numbers, canonical shape, lower-cased net) must be equal; on the exported GdsLibrary every label must lie inside its shape and every path keep exactly its points; every fourth library is moved in place and converted a second time; big libraries also go through save -> load.",
         "Shapes never overlap within a cell; rect and 4-vertex axis-aligned polygon identified; layout-only cells.",
         "runtime monitoring: round-trip oracle + boundary observation of the exported GDS", "DESIGN.md 3 C07"),
 "C14": ("exploration",
         "Raw libraries with layouts and abstracts go to_proto -> from_proto and are compared view by view (instances incl. rotation, annotations, per-layer shape multisets, abstract outline/ports/blockages); exported cell order is checked dependencies-first; protobuf messages built by an independent writer go from_proto -> to_proto and must come back equal (cell order exact, per-layer fields as maps).",
         "Pico units outside the schema; instance angle None == 0; port/blockage purposes taken from the supplied Layers (not stored in the raw model).",
         "runtime monitoring: round-trip oracle in both directions over generated libraries/messages", "DESIGN.md 3 C14"),
 "C20": ("exploration",
         "Every conversion (raw->GDSII, raw->protobuf, protobuf->raw, GDSII->raw, raw->LEF, LEF->raw, gridded->raw; also raw->GDSII/protobuf with a layer table loaded from markup, and technology protobuf -> layer table) is run 8 times in one process on inputs rebuilt from their seed (fresh RandomState per HashMap, shifted allocations) and, for a sample, in 8 separate child processes; ordered renderings / hashes of the outputs must be identical. The monitor records how many distinct HashMap iteration orders it saw (one = inconclusive).",
         "Hash-map-typed outputs have no order and are rendered sorted; GDSII creation timestamps excluded as documented.",
         "runtime monitoring: repeated-execution differential monitor under varying hash seeds, in- and cross-process", "DESIGN.md 3 C20"),

 "C04": ("exploration",
         "LEF library values over the supported statement subset are generated from a seed and rendered to text by an independent renderer in many lexical forms (statement permutations, whitespace/CRLF, comments incl. non-ASCII, mixed-case keywords, alternative decimal spellings, versions 5.3-5.8, with/without END LIBRARY); LefLibrary::open of each text must return exactly the generated value (the library's own == and, independently, a structural image of both values with decimals normalised).",
         "Trusted base: the renderer in harness/src/gen/lefgen.rs (keyword spellings typed from the LEF reference). Data-model conventions (quotes kept on string literals, antenna-key and PROPERTY-number spelling kept) are not judged.",
         "runtime monitoring: independent-renderer differential oracle on the reader", "DESIGN.md 3 C04"),
 "C05": ("exploration",
         "Every library obtained by reading a generated LEF text (so: in the reader's image, incl. version-inconsistent statements the reader lets through) and the repository's LEF files is written with to_string()/save() and re-read; writing must succeed and the re-read value must be equal.",
         "Texts the reader rejects or misreads are C04's concern and only counted. lefrw = open+save, executed in-process by the save leg.",
         "runtime monitoring: write/read round-trip oracle over the reader's image", "DESIGN.md 3 C05"),
 "C11": ("fault_enumeration",
         "Fault enumeration on the real LEF reader: every prefix of each seed text (and mid-character cuts), every single-token fault (delete, duplicate, swap, keyword/number/';'/unterminated-string replacement), non-ASCII insertions into names, numbers, strings, comments and line starts, CRLF, noise and size scaling; each execution under a panic guard and hook-counted step budgets (characters, parser steps, error-report scan); accepted inputs must survive to_string -> open without a crash.",
         "'Time proportional to length' decided as bounded progress on hook counters plus an instruction-count leg (valgrind cachegrind, both tiers: executed instructions for inputs of doubling size must grow linearly); wall-clock is a watchdog only. Input reaches the reader through a tmpfs file (only public entry point).",
         "runtime monitoring: fault injection + panic/step-budget monitors", "DESIGN.md 3 C11"),
 "C16": ("exploration",
         "LefLibrary values with integer-raw-unit coordinates (x != y) spelled with 0..6 decimals are imported with LefImporter::import; cell count, names, outline, per-pin and per-layer shapes (by layer name, in LEF order) and every coordinate are compared with value x units-per-micron of the returned library; a coordinate with a fraction of a raw unit must be rejected.",
         "Importer-documented unsupported features (EXCEPTPGNET, non-zero SPACING, ITERATE, vias) are outside the claim.",
         "runtime monitoring: exact coordinate oracle over generated LEF values", "DESIGN.md 3 C16"),
 "C18": ("exploration",
         "GDSII library values (hostile strings, doubles over the whole range) and LEF library values (hostile string literals) are pushed through SerializationFormat::{Json,Yaml} both as strings and as files and compared (doubles by bit pattern); canonical GDSII byte streams go GDSII -> markup -> GDSII through gds_serialization::{to_markup,from_markup} and must come back byte-identical.",
         "TOML documented unsupported. CLI binaries are thin wrappers over the library functions exercised. Two open known findings (fixed_mask flags are skip_serializing).",
         "runtime monitoring: markup round-trip oracle with hostile strings and exact reals", "DESIGN.md 3 C18"),

 "C01": ("exploration",
         "Round-trip monitor over executions of the real writer and reader: an exhaustive sweep of element kind x optional-record subset x strans variant x property count, limit probes around the 65535-byte record limit, and seeded random libraries (hostile strings, full i32 coordinates, whole real range) are written with GdsLibrary::write/save and read back with from_bytes/open; the result must be field-for-field equal (reals by bit pattern). Held on the executions observed.",
         "Domain: strings ending in NUL at even length and out-of-range reals excluded; a write returning Err satisfies the statement (non-vacuity is checked: <90% successful in-limit writes => inconclusive).",
         "runtime monitoring: write/read round-trip oracle over swept + random library values", "DESIGN.md 3 C01"),
 "C02": ("exploration",
         "Every stream the real writer produces for the same library space as C01 is parsed by an independent strict GDSII decoder (framing, spec record/data types, BNF order, ENDLIB last) and its neutral AST compared with the AST computed directly from the input value (exact normalised reals, STRANS bits, COLROW order, date order, NUL padding).",
         "Trusted base: harness/src/refs/gdsstream.rs + refs/gdsreal.rs, written from the Calma specification, cross-checked against the repository's foreign .gds files that are in BNF order.",
         "runtime monitoring: independent-decoder oracle on the writer's output", "DESIGN.md 3 C02"),
 "C03": ("exploration",
         "Streams generated from the GDSII grammar by an independent encoder (every element kind, every optional-record subset, strans variants, strings of all parities incl. empty, arbitrary dates, reals with up to 56 significant bits, 0..4096 trailing bytes) are fed to from_bytes/open; the value returned must equal the value the stream denotes; streams with unsupported library-level records must be rejected without panic.",
         "Only BNF-ordered streams the reference encoder can produce are claimed; trusted base as C02.",
         "runtime monitoring: reference-encoder differential oracle on the reader", "DESIGN.md 3 C03"),
 "C10": ("fault_enumeration",
         "Fault enumeration on the real reader: every truncation point of each seed stream and, for every record, every listed single-record fault (length, payload, record type, data type, delete/duplicate/swap/splice), plus byte flips, noise and size scaling. Each execution runs under a panic guard and a logical step budget counted by hooks (records read, parser steps); strict prefixes must be rejected; every accepted input must contain an end-of-library record (decided by walking the records on the bytes), return only strings that are UTF-8 and coordinates that occur in the stream, and survive write->read unchanged. An instruction-count leg (valgrind cachegrind, both tiers) bounds the work per step: executed instructions for inputs of doubling size must grow linearly.",
         "'Time proportional to length' is decided as bounded progress on hook-counted steps plus the instruction-count leg; wall-clock only as watchdog (inconclusive). Memory-safety clause: gds21 has no unsafe; sanitizer legs are secondary.",
         "runtime monitoring: fault injection + panic/step-budget monitors + closure oracle", "DESIGN.md 3 C10"),
 "C12": ("exploration",
         "All 14^d right-angle placement words for d<=4 (exhaustive) with integer offsets, applied to a full point grid, through Transform::from_instance/cascade/Point::transform and through Layout::flatten of the nested hierarchy, compared with exact integer maps; large coordinates and general angles by seeded sampling against a range-reduced reference.",
         "Angle = degrees counter-clockwise, reflection about x applied first (as documented). General angles judged to 0.5+1e-5 units.",
         "runtime monitoring: exact integer-map oracle over exhaustive placement chains", "DESIGN.md 3 C12"),
 "C13": ("exploration",
         "Exhaustive: every rectangle and every simple polygon with up to 5 (quick) / 6 (thorough) vertices on the 4x4 grid, in every vertex order, queried at all 36 surrounding grid points, plus repeated- and collinear-vertex variants; seeded random polyomino outlines, 45-degree and star-shaped polygons and Manhattan paths queried on/near/far from their boundary. Every contains() answer is compared with exact integer geometry, also when several paths are queried in one shuffled stream (answers must not depend on the previous query).",
         "Path end-cap / outer-corner band not judged (raw Path has no end style). Trusted: refs/geom.rs.",
         "runtime monitoring: exact-geometry oracle over exhaustive small shapes + random large ones", "DESIGN.md 3 C13"),
 "C17": ("exploration",
         "Generic helper: every digraph on 4 nodes (with self-loops) under every full and partial listing, every loop-free 5-node digraph in all orders (thorough), with the hook event trace of every 4-node run checked offline against the orderer's trace specification; embedded orderers (raw DepOrder, to_proto cell order, from_gds import order) on every 4-node DAG in all listings and random DAGs/cyclic graphs to 300 nodes, cyclic ones in isolated child processes; gridded-layout orderers (dep_order, proto export order, placer, raw export into an already populated raw library), also while another thread holds a cell's write guard or after a panic poisoned a cell's lock; the thorough tier re-runs the workload under an unoptimised and a plain-release build.",
         "Orderers returning Vec have no error channel: any return on a cycle, or a crash, is a violation (two open known findings).",
         "runtime monitoring: order validator + offline trace checker over exhaustive small digraphs; crash isolation", "DESIGN.md 3 C17"),

 "C15": ("exploration",
         "Reference-model monitor over executions of the real codec: every in-range power of two with its +-8-ulp neighbourhood (exhaustive over exponents), all one/two-bit normalised mantissas x all exponents, and millions of seeded random doubles / 8-byte reals are pushed through GdsFloat64::encode/decode and through UNITS/MAG/ANGLE records, each compared bit-for-bit with an exact integer codec. Held-on-what-was-observed, not a proof: the space is 2^64.",
         "Trusted: harness/src/refs/gdsreal.rs (integer-only reference, unit-tested); +0/-0 identified; native build (Miri perturbs powi/log2).",
         "runtime monitoring: exact reference-codec oracle over enumerated + random executions", "DESIGN.md 3 C15"),
}

NOT_YET = "check not built yet in this round (planned: see DESIGN.md section 3)"

def hooks_commits():
    out = subprocess.run(["git", "-C", "/repo", "log", "--format=%H %s"], capture_output=True, text=True).stdout
    return [l.split()[0] for l in out.splitlines() if " verif-hooks:" in l][::-1]

def main():
    checks = []
    for pid in ALL:
        if pid not in CHECKS:
            continue
        cat, text, note, tech, ref = CHECKS[pid]
        checks.append({
            "property_id": pid,
            "quick_cmd": "./check %s quick" % pid,
            "thorough_cmd": "./check %s thorough" % pid,
            "evidence_file": "/verif/evidence/%s.json" % pid,
            "replay_cmd_template": "./check %s --replay {path}" % pid,
            "engine": "lvh",
            "level_claimed": {"category": cat, "text": text, "design_ref": ref},
            "level_note": note,
            "technique": tech,
        })
    man = {
        "version": 1,
        "setup_cmd": "./check build",
        "hooks": {
            "guard": "cargo feature `verif-hooks` (layout21utils, gds21, lef21); off by default",
            "enable": "the harness crate /verif/harness depends on /repo's crates by path with features=[\"verif-hooks\"]; `./check` runs `cargo build --offline --profile verif` there, which recompiles /repo's working tree",
            "baseline_off_cmd": "cd /repo && cargo test --workspace --no-fail-fast --offline",
            "source_commits": hooks_commits(),
            "add_only": True,
        },
        "engines": [{
            "name": "lvh", "path": "/verif/harness",
            "serves_properties": [c["property_id"] for c in checks],
            "kind_free_text": "stand-alone Rust harness: seeded/enumerated workload generators, independent reference models, panic/step-budget/crash monitors over the real crates built from /repo with hooks on; 16 worker processes; three-valued verdicts; known-findings file",
        }],
        "checks": checks,
        "notes": "Verdict lines: VIOLATION / KNOWN-FINDING / INCONCLUSIVE / SUMMARY. VERIF_SEED selects the random stream; enumerated generators ignore it. known_findings.json is never written at run time.",
        "not_applicable": [{"property_id": p, "reason": NOT_YET} for p in ALL if p not in CHECKS],
    }
    with open(os.path.join(ROOT, "MANIFEST.json"), "w") as f:
        json.dump(man, f, indent=1)
    print("wrote MANIFEST.json with", len(checks), "checks")

main()
