#!/usr/bin/env python3
"""Regenerate /verif/MANIFEST.json from the table below. Run after adding a property check."""
import json, subprocess, os

ROOT = os.path.dirname(os.path.dirname(os.path.abspath(__file__)))
ALL = ["C%02d" % i for i in range(1, 21)]

# id -> (category, level text, level note, technique, design_ref)
CHECKS = {
 "C15": ("exploration",
         "Reference-model monitor over executions of the real codec: every in-range power of two with its +-8-ulp neighbourhood (exhaustive over exponents), all one/two-bit normalised mantissas x all exponents, and millions of seeded random doubles / 8-byte reals are pushed through GdsFloat64::encode/decode and through UNITS/MAG/ANGLE records, each compared bit-for-bit with an exact integer codec. Held-on-what-was-observed, not a proof: the space is 2^64.",
         "Trusted: harness/src/refs/gdsreal.rs (integer-only reference, unit-tested); +0/-0 identified; native build (Miri perturbs powi/log2).",
         "runtime monitoring: exact reference-codec oracle over enumerated + random executions", "DESIGN.md 3 C15"),
}

NOT_YET = "check not built yet in this round (planned: see DESIGN.md section 3)"

def hooks_commits():
    out = subprocess.run(["git", "-C", "/repo", "log", "--format=%H %s"], capture_output=True, text=True).stdout
    return [l.split()[0] for l in out.splitlines() if " verif-hooks:" in l][::-1]

def main():
    checks = []
    for pid in ALL:
        if pid not in CHECKS:
            continue
        cat, text, note, tech, ref = CHECKS[pid]
        checks.append({
            "property_id": pid,
            "quick_cmd": "./check %s quick" % pid,
            "thorough_cmd": "./check %s thorough" % pid,
            "evidence_file": "/verif/evidence/%s.json" % pid,
            "replay_cmd_template": "./check %s --replay {path}" % pid,
            "engine": "lvh",
            "level_claimed": {"category": cat, "text": text, "design_ref": ref},
            "level_note": note,
            "technique": tech,
        })
    man = {
        "version": 1,
        "setup_cmd": "./check build",
        "hooks": {
            "guard": "cargo feature `verif-hooks` (layout21utils, gds21, lef21, layout21tetris); off by default",
            "enable": "the harness crate /verif/harness depends on /repo's crates by path with features=[\"verif-hooks\"]; `./check` runs `cargo build --offline --profile verif` there, which recompiles /repo's working tree",
            "baseline_off_cmd": "cd /repo && cargo test --workspace --no-fail-fast --offline",
            "source_commits": hooks_commits(),
            "add_only": True,
        },
        "engines": [{
            "name": "lvh", "path": "/verif/harness",
            "serves_properties": [c["property_id"] for c in checks],
            "kind_free_text": "stand-alone Rust harness: seeded/enumerated workload generators, independent reference models, panic/step-budget/crash monitors over the real crates built from /repo with hooks on; 16 worker processes; three-valued verdicts; known-findings file",
        }],
        "checks": checks,
        "notes": "Verdict lines: VIOLATION / KNOWN-FINDING / INCONCLUSIVE / SUMMARY. VERIF_SEED selects the random stream; enumerated generators ignore it. known_findings.json is never written at run time.",
        "not_applicable": [{"property_id": p, "reason": NOT_YET} for p in ALL if p not in CHECKS],
    }
    with open(os.path.join(ROOT, "MANIFEST.json"), "w") as f:
        json.dump(man, f, indent=1)
    print("wrote MANIFEST.json with", len(checks), "checks")

main()
