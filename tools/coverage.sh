#!/usr/bin/env bash
# Line coverage of /repo's library sources under the quick (default) or thorough workloads of all checks.
# Not a registered check: a measurement of what the monitors' workloads reach. Output: /verif/coverage/{summary.txt,uncovered.txt}
# usage: tools/coverage.sh [quick|thorough] [ID ...]
set -u
cd "$(dirname "$0")/../harness"
tier="${1:-quick}"; shift || true
ids=("$@"); [ ${#ids[@]} -eq 0 ] && ids=(C01 C02 C03 C04 C05 C06 C07 C08 C09 C10 C11 C12 C13 C14 C15 C16 C17 C18 C19 C20)
BIN=$(dirname "$(rustup which --toolchain nightly rustc)")/../lib/rustlib/x86_64-unknown-linux-gnu/bin
RAW=/dev/shm/lvh-cov; rm -rf $RAW; mkdir -p $RAW ../coverage
LLVM_PROFILE_FILE="$RAW/build-%p-%8m.profraw" RUSTFLAGS="-Cinstrument-coverage" cargo +nightly build --offline --profile verif --target-dir target-cov 2>&1 | tail -1
for id in "${ids[@]}"; do
  LLVM_PROFILE_FILE="$RAW/$id-%p-%8m.profraw" VERIF_EVIDENCE_OUT=/dev/null ./target-cov/verif/lvh run "$id" --tier "$tier" --seed "${VERIF_SEED:-1}" | grep -E "^SUMMARY" | cut -c1-150
done
rm -f $RAW/build-*.profraw; $BIN/llvm-profdata merge -sparse $RAW/*.profraw -o $RAW/all.profdata
$BIN/llvm-cov report ./target-cov/verif/lvh -instr-profile=$RAW/all.profdata --ignore-filename-regex='(\.cargo|rustc|/verif/|tests\.rs|/tests/|target)' 2>/dev/null > ../coverage/summary.txt
$BIN/llvm-cov show ./target-cov/verif/lvh -instr-profile=$RAW/all.profdata --ignore-filename-regex='(\.cargo|rustc|/verif/|tests\.rs|/tests/|target)' --show-line-counts-or-regions 2>/dev/null > $RAW/show.txt
# uncovered executable lines, per file
python3 - "$RAW/show.txt" > ../coverage/uncovered.txt <<'EOF'
import sys, re
cur = None
for line in open(sys.argv[1], errors="replace"):
    m = re.match(r"^(/repo/\S+):$", line.strip())
    if m:
        cur = m.group(1); print("== " + cur); continue
    m = re.match(r"^\s*(\d+)\|\s*0\|(.*)$", line.rstrip("\n"))
    if m and cur:
        print("%6s| %s" % (m.group(1), m.group(2)))
EOF
rm -rf $RAW
grep -E "^(repo/|TOTAL)" ../coverage/summary.txt | awk 'NF>=10{printf "%-55s lines %6s missed %6s %s\n", $1, $(NF-5), $(NF-4), $(NF-3)}'
