#!/usr/bin/env bash
# usage: tools/seed_round.sh <ID> <N...>  — confirm + check each change N of /tmp/wt/out-<ID>; extra checks via EXTRA="C01 C03"
ID=$1; shift
for N in "$@"; do
  O=/tmp/wt/out-$ID
  demo=$(grep -oE '[a-z0-9_]+/tests/demo'$N'\.rs' $O/demo$N.md | head -1)
  [ -z "$demo" ] && { echo "#### $ID-$N: cannot find demo path"; continue; }
  crate=${demo%%/*}
  echo "#### $ID-$N demo=$demo"
  /verif/tools/seed_confirm.sh $ID $N $demo $crate 2>&1 | grep -E "^==|test result|FAILED|APPLY" | grep -v "it_has_gds_properties" | tr '\n' ' '; echo
  /verif/tools/seed_check.sh $O/change$N.diff $ID $EXTRA 2>&1 | grep -E "^---|INCONCLUSIVE" | cut -c1-160
done
