#!/usr/bin/env bash
# usage: tools/mkworktree.sh <dir>   — scratch git worktree of /repo at HEAD, with the untracked files the test-suite needs
set -e
d="$1"
git -C /repo worktree add --detach "$d" HEAD >/dev/null 2>&1
cp /repo/Cargo.lock "$d/"
for c in gds21 lef21 layout21raw layout21tetris layout21converters layout21utils layout21protos layout21; do
  for sub in resources scratch; do
    [ -d "/repo/$c/$sub" ] && mkdir -p "$d/$c" && cp -r "/repo/$c/$sub" "$d/$c/" || true
  done
done
echo "$d ready"
