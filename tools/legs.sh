#!/usr/bin/env bash
# Secondary sanitizer legs (thorough tier only).
#   tools/legs.sh <ID>
# ASan for every property; Miri for the properties that have a `miri-sample` generator (C10, C11, and the ones listed by `lvh gens`).
# ASan: the quick-tier fault workload re-run on a nightly -Zsanitizer=address build of the harness (and of /repo's crates).
# Miri: N interpreter-sized cases (`lvh one <ID> --gen miri-sample`) under `cargo +nightly miri run`, 16 at a time.
# A sanitizer/UB report is a VIOLATION; a leg that cannot be built or run is INCONCLUSIVE (exit 0). Results are merged into the evidence file.
set -u
ID="$1"
cd "$(dirname "$0")/../harness" || exit 2
EV="${VERIF_EVIDENCE_OUT:-/verif/evidence/$ID.json}"
SEED="${VERIF_SEED:-1}"
rc=0
legs='{}'
add() { legs=$(echo "$legs" | jq --arg k "$1" --argjson v "$2" '. + {($k): $v}'); }

# ---------------- ASan
LOG=$(mktemp /dev/shm/lvh-asan.XXXXXX)
if RUSTFLAGS="-Zsanitizer=address -Cforce-frame-pointers=yes" cargo +nightly build --offline --profile verif --target x86_64-unknown-linux-gnu --target-dir target-asan >"$LOG" 2>&1; then
  out=$(ASAN_OPTIONS=halt_on_error=1:abort_on_error=1:detect_leaks=0 VERIF_EVIDENCE_OUT=/dev/shm/lvh-asan-$ID.json ./target-asan/x86_64-unknown-linux-gnu/verif/lvh run "$ID" --tier quick --seed "$SEED" 2>&1); code=$?
  echo "$out" | grep -E "^(VIOLATION|INCONCLUSIVE|  witness)" | sed 's/^/[asan] /' | cut -c1-300
  summ=$(echo "$out" | grep "^SUMMARY" | tail -1)
  echo "[asan] $summ"
  evals=$(echo "$summ" | sed -n 's/.*evaluations=\([0-9]*\).*/\1/p')
  if [ $code -ne 0 ]; then rc=1; echo "$out" | grep "^VIOLATION" ; fi
  add asan "{\"status\":\"ran\",\"executions\":${evals:-0},\"reports\":$([ $code -ne 0 ] && echo 1 || echo 0),\"note\":\"quick-tier workload on a -Zsanitizer=address build (harness + /repo crates)\"}"
  rm -f /dev/shm/lvh-asan-$ID.json
else
  echo "INCONCLUSIVE property=$ID reason=asan-leg-build-failed"; tail -5 "$LOG"
  add asan '{"status":"build-failed"}'
fi
rm -f "$LOG"

# ---------------- Miri (only the properties that have an interpreter-sized `miri-sample` generator)
if ! ./target/verif/lvh gens "$ID" 2>/dev/null | grep -qx "miri-sample"; then
  if [ -f "$EV" ] && [ "$EV" != "/dev/null" ]; then
    tmp=$(mktemp); jq --argjson legs "$legs" '.coverage.sanitizer_legs = ((.coverage.sanitizer_legs // {}) + $legs)' "$EV" > "$tmp" && mv "$tmp" "$EV"
  fi
  exit $rc
fi
# 32 cases for the two reader properties (their own fault-mix generator), 16 of the aliased generator for the others
case "$ID" in C10|C11) N=${VERIF_MIRI_CASES:-32};; *) N=${VERIF_MIRI_CASES:-16};; esac
D=$(mktemp -d /dev/shm/lvh-miri.XXXXXX)
export MIRIFLAGS="-Zmiri-disable-isolation -Zmiri-deterministic-floats"
# every interpreted case has a wall-clock limit (default 10 min): a case that exceeds it is counted as not completed (INCONCLUSIVE), never as a violation
MT=${VERIF_MIRI_CASE_TIMEOUT:-600}
if timeout $((MT*2)) cargo +nightly miri run --offline --target-dir target-miri -- one "$ID" --tier quick --seed "$SEED" --gen miri-sample --n 0 --out "$D/warm.json" >"$D/warm.log" 2>&1; then
  seq 1 $((N-1)) | xargs -P 16 -I{} sh -c "timeout $MT cargo +nightly miri run --offline --target-dir target-miri -- one $ID --tier quick --seed $SEED --gen miri-sample --n {} --out $D/c{}.json >$D/c{}.log 2>&1; echo \$? >$D/c{}.rc"
  ok=1; ub=0; viol=0; evals=0
  for f in "$D"/*.json; do
    e=$(jq '.evaluations' "$f" 2>/dev/null || echo 0); evals=$((evals+e))
    v=$(jq '.violations | length' "$f" 2>/dev/null || echo 0); viol=$((viol+v))
  done
  for f in "$D"/c*.rc; do [ "$(cat $f)" = "0" ] && ok=$((ok+1)); done
  ub=$(grep -l "Undefined Behavior\|error: unsupported operation\|data race" "$D"/*.log 2>/dev/null | wc -l)
  echo "[miri] cases=$N completed=$ok executions=$evals ub_reports=$ub monitor_violations=$viol"
  if [ "$ub" -gt 0 ] || [ "$viol" -gt 0 ]; then
    mkdir -p /verif/replay; cp "$(grep -l "Undefined Behavior\|error: unsupported\|data race" "$D"/*.log | head -1)" /verif/replay/$ID-miri.log 2>/dev/null
    [ "$viol" -gt 0 ] && jq -c '.violations[0]' "$D"/*.json | grep -v null | head -1 > /verif/replay/$ID-miri.log
    echo "VIOLATION property=$ID replay=/verif/replay/$ID-miri.log"; rc=1
  fi
  [ "$ok" -lt "$N" ] && [ "$ub" -eq 0 ] && echo "INCONCLUSIVE property=$ID reason=miri-leg: $((N-ok)) of $N cases did not complete"
  add miri "{\"status\":\"ran\",\"cases\":$N,\"completed\":$ok,\"executions\":$evals,\"ub_reports\":$ub,\"flags\":\"$MIRIFLAGS\"}"
else
  echo "INCONCLUSIVE property=$ID reason=miri-leg-could-not-run"; tail -5 "$D/warm.log"
  add miri '{"status":"could-not-run"}'
fi
rm -rf "$D"

# merge into the evidence file
if [ -f "$EV" ] && [ "$EV" != "/dev/null" ]; then
  tmp=$(mktemp); jq --argjson legs "$legs" '.coverage.sanitizer_legs = ((.coverage.sanitizer_legs // {}) + $legs)' "$EV" > "$tmp" && mv "$tmp" "$EV"
fi
exit $rc
